"""Fresh-interpreter worker of the parameter-tree checks: builds every spec of argv[1] (JSON) with the
real labtech and writes [[status, normal form, cache_key, [dep normal forms]], ...] to argv[2].
Started with its own PYTHONHASHSEED."""
import json
import sys


def main():
    import paramgen as pg
    import paramrun
    paramrun.quiet()
    specs = json.load(open(sys.argv[1]))
    out = []
    for s in specs:
        o = paramrun.observe(s)
        if o['status'] == 'ok':
            out.append([o['status'], o['nf'], o['key'], o['deps']])
        else:
            out.append([o['status'], None, None, None])
    json.dump(out, open(sys.argv[2], 'w'))


if __name__ == '__main__':
    main()
