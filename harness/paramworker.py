"""Fresh-interpreter worker of the parameter-tree checks: builds every spec of argv[1] (JSON) with the
real labtech and writes [[status, normal form, cache_key, [dep normal forms]], ...] to argv[2].
Started with its own PYTHONHASHSEED.

`paramworker.py --unpickle in.pkl out.json`: the receiving end of a cross-interpreter pickle round trip (C15).
in.pkl holds [{spec, key, deps, blobs: [(protocol, bytes)]}]: tasks that were built, HASHED and pickled in the
sending interpreter.  Each copy is compared here with an equal task freshly built from the same spec.

`paramworker.py --relstore in.json out.json`: C09 store cases whose storage directory is given as a RELATIVE path and whose
history changes the working directory (props/c09.py run_store, `rel`); in.json holds [case], out.json gets
[[violations, facts]] per case.  A child interpreter, so that the chdir does not leak into the harness."""
import json
import sys


def main():
    import paramgen as pg
    import paramrun
    paramrun.quiet()
    specs = json.load(open(sys.argv[1]))
    out = []
    for s in specs:
        o = paramrun.observe(s)
        if o['status'] == 'ok':
            out.append([o['status'], o['nf'], o['key'], o['deps']])
        else:
            out.append([o['status'], None, None, None])
    json.dump(out, open(sys.argv[2], 'w'))


def unpickle_main(inp, outp):
    import pickle
    import paramgen as pg
    import paramrun
    from labtech.tasks import get_direct_dependencies
    paramrun.quiet()
    items = pickle.load(open(inp, 'rb'))
    out = []
    for it in items:
        al = []
        try:
            fresh = pg.build(it['spec'])
            fresh_inside = paramrun.tasks_inside(fresh)
            for proto, blob in it['blobs']:
                tag = f'(protocol {proto}, receiver with another PYTHONHASHSEED)'
                try:
                    copy = pickle.loads(blob)
                except Exception as e:
                    al.append(f'unpickling in another interpreter raised {type(e).__name__} {tag}')
                    continue
                if not (copy == fresh and fresh == copy):
                    al.append(f'pickled copy is not equal to an equal task built in the receiving interpreter {tag}')
                    continue
                if pg.show(copy) != pg.show(fresh):
                    al.append(f'pickled copy has another normal form (types changed) {tag}')
                for x, y in zip(paramrun.tasks_inside(copy), fresh_inside):
                    where = 'copy' if x is copy else 'nested task of the copy'
                    if hash(x) != hash(y):
                        al.append(f'{where} == a task built in the receiving interpreter but has another hash {tag}')
                    elif x not in {y} or {y: 1}.get(x) != 1 or len({x, y}) != 1:
                        al.append(f'{where} is not interchangeable with an equal task as set member / dict key {tag}')
                    for attr in ('_results_map', 'context', 'result_meta'):
                        if not hasattr(x, attr):
                            al.append(f'{where} has no attribute {attr} {tag}')
                        elif getattr(x, attr) is not None:
                            al.append(f'{where} carries {attr} with it {tag}')
                    if type(y).__qualname__ == 'WithPost':
                        if not hasattr(x, 'derived'):
                            al.append(f'{where} lost what post_init derives {tag}')
                        elif x.derived != y.derived:
                            al.append(f'{where} derives something else in post_init {tag}')
                if getattr(copy, 'cache_key', None) != it['key'] or fresh.cache_key != it['key']:
                    al.append(f'cache_key differs between the sender, the pickled copy and a task built in the receiver {tag}')
                if [pg.show(d) for d in get_direct_dependencies(copy)] != it['deps']:
                    al.append(f'pickled copy finds other dependencies {tag}')
        except Exception as e:
            al.append(f'exercising the received copy raised {type(e).__name__}: {e}'[:200])
        out.append(sorted(set(al)))
    json.dump(out, open(outp, 'w'))


def relstore_main(inp, outp):
    import paramrun
    from props import c09
    paramrun.quiet()
    out = []
    for case in json.load(open(inp)):
        try:
            v, _, facts = c09.run_store(case, want_model=False, in_child=True)
        except Exception as e:
            # never crash on what the code under test does: it is a finding about the code
            v, facts = [dict(what=f'building / saving the store raised {type(e).__name__}: {e}'[:200], replay=dict(kind='store', case=case))], {}
        out.append([v, dict(facts)])
    json.dump(out, open(outp, 'w'))


if __name__ == '__main__':
    if sys.argv[1] == '--unpickle':
        unpickle_main(sys.argv[2], sys.argv[3])
    elif sys.argv[1] == '--relstore':
        relstore_main(sys.argv[2], sys.argv[3])
    else:
        main()
