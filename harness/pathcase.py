"""C18 helpers: sandbox layouts with symlinks, the adversarial key/filename grammar, running one case on
the real `LocalStorage`, snapshots, the model line for the Lean driver (`PATH …`), the monitor.

A *case* is a JSON-able dict:
  layout   : list of [relpath, kind, target]  (relative to the sandbox dir SB; kind d|f|l; for files the
             target is the content; the string '{SB}' in a target stands for the absolute sandbox path)
  via_link : construct LocalStorage through the symlink SB/rootlink -> store
  gitignore: with_gitignore argument
  ctor     : abs_str (default) | abs_path | rel_str | rel_path - how the directory is named to the constructor
  op       : exists | delete | fh | find_keys
  key, fn, mode : strings ('{SB}' substituted)
The sandbox is  TOP/w/x = SB  (TOP from tempfile.mkdtemp), the storage root SB/store, canaries in
SB/outside; generated strings never contain more than four '..' and absolute strings always point
into SB (or to a directory that does not exist), so that even a broken LocalStorage stays inside TOP.
"""
import os
import shutil
import stat
import tempfile

SBTOKEN = '{SB}'
MODES = ['r', 'rb', 'w', 'wb', 'a', 'x', 'r+']
OUTSIDE = [
    ['outside', 'd', ''], ['outside/canary.txt', 'f', 'canary'], ['outside/dir', 'd', ''],
    ['outside/dir/deep.txt', 'f', 'deep'], ['outside/dir/sub', 'd', ''], ['outside/dir/sub/leaf', 'f', 'leaf'],
]


# ------------------------------------------------------------------------------------------ layouts
def gen_layout(rng):
    """random storage content: key dirs, files, symlinks (siblings, root, outside, dangling, loops)"""
    L = [list(e) for e in OUTSIDE]
    keys = ['k1', 'k2'] if rng.random() < 0.8 else ['k1']
    for k in keys:
        L.append([f'store/{k}', 'd', ''])
        L.append([f'store/{k}/metadata.json', 'f', '{}'])
        L.append([f'store/{k}/data', 'f', 'd' + k])
    if rng.random() < 0.5:
        L.append(['store/k1/sub', 'd', ''])
        L.append(['store/k1/sub/deep.txt', 'f', 'x'])
    if rng.random() < 0.5:
        L.append(['store/plainfile', 'f', 'pf'])
    absroot = SBTOKEN + '/store'
    root_links = [
        ['store/lsib', 'l', rng.choice(['k2', absroot + '/k2', './k2', 'k1/../k2'])],
        ['store/lroot', 'l', rng.choice(['.', absroot, '../store'])],
        ['store/lout', 'l', rng.choice(['../outside/dir', SBTOKEN + '/outside/dir', '../outside'])],
        ['store/lfile', 'l', rng.choice(['../outside/canary.txt', SBTOKEN + '/outside/canary.txt'])],
        ['store/dang', 'l', rng.choice(['../nonexistent', 'nothing', SBTOKEN + '/outside/newdir', '/nonexistent_c18/x'])],
        ['store/loop', 'l', rng.choice(['loop', absroot + '/loop', './loop'])],
        ['store/la', 'l', 'lb'], ['store/lb', 'l', rng.choice(['la', absroot + '/la'])],
        ['store/c1', 'l', 'c2'], ['store/c2', 'l', rng.choice(['k1', 'lsib', 'lout'])],
        # key-side loop fallback: a -> b/../x, b -> b, x -> somewhere
        ['store/fa', 'l', rng.choice(['fb/../fx', 'fb/../k1', 'fb//' + absroot + '/fx', 'fb/./../fx'])],
        ['store/fb', 'l', 'fb'],
        ['store/fx', 'l', rng.choice(['../outside/dir', '../outside/canary.txt', 'k1', '../outside/new'])],
        ['store/lfilein', 'l', 'k1/data'],
        ['store/ldeep', 'l', 'k1/sub'],
    ]
    key_links = [
        ['store/k1/fo', 'l', rng.choice(['../../outside/canary.txt', SBTOKEN + '/outside/canary.txt'])],
        ['store/k1/fi', 'l', rng.choice(['data', absroot + '/k1/data', '../k2/data'])],
        ['store/k1/do', 'l', rng.choice(['../../outside/dir', SBTOKEN + '/outside/dir'])],
        ['store/k1/loop', 'l', rng.choice(['loop', './loop', absroot + '/k1/loop'])],
        ['store/k1/dn', 'l', rng.choice(['../../outside/newfile', 'newlocal', SBTOKEN + '/outside/dir/newfile'])],
        ['store/k1/x', 'l', rng.choice(['../../outside/canary.txt', 'loop/../y', 'loop/../data', '../../outside/newfile2'])],
        ['store/k1/y', 'l', rng.choice(['../../outside/canary.txt', '../../outside/dir/deep.txt'])],
        ['store/k1/ma', 'l', 'mb'], ['store/k1/mb', 'l', 'ma/../x'],
        ['store/k1/self', 'l', '.'],
        ['store/k1/up', 'l', '..'],
        ['store/k1/ds', 'l', 'loop//' + absroot + '/k1/x'],
        ['store/k1/ds2', 'l', 'loop///' + absroot + '/k1/data'],
    ]
    # chained names must exist together to make the interesting shapes likely
    p = rng.choice([0.25, 0.5, 0.8])
    for e in root_links + key_links:
        if rng.random() < p:
            L.append(e)
    names = {e[0] for e in L}
    if 'store/fa' in names:
        for e in root_links:
            if e[0] in ('store/fb', 'store/fx') and e[0] not in names:
                L.append(e)
    names = {e[0] for e in L}
    if 'store/k1/x' in names or 'store/k1/ds' in names or 'store/k1/mb' in names:
        for e in key_links:
            if e[0] in ('store/k1/loop', 'store/k1/y', 'store/k1/x') and e[0] not in names:
                L.append(e)
                names.add(e[0])
    return L


def layout_names(layout):
    """(names directly in the root, names directly in key dirs, names of symlinks)"""
    rootn, keyn, links = [], [], set()
    for rel, kind, _ in layout:
        parts = rel.split('/')
        if parts[0] != 'store':
            continue
        if len(parts) == 2:
            rootn.append(parts[1])
        elif len(parts) == 3:
            keyn.append(parts[2])
        if kind == 'l':
            links.add(parts[-1])
    return rootn, keyn, links


# ------------------------------------------------------------------------------------------ strings
ODD = ['', '.', '..', '/', '\\', '~', ' ', '\n', '\x00', '．', '／', '∕', '․', '‥',
       'x' * 300, 'é', '...', '. ', ' .', '-', '*', 'a\x00b', '..\x00', 'CON', '%2e%2e', '%2f']
PLAIN = ['a', 'b', 'newkey', 'f', 'metadata.json', 'data', 'data.pickle', 'sub', 'outside', 'canary.txt', 'store', 'w', 'x']


def limit_dotdot(s):
    """never more than four '..' components (keeps a broken implementation inside TOP)"""
    parts = s.split('/')
    n = 0
    for i, p in enumerate(parts):
        if p == '..':
            n += 1
            if n > 4:
                parts[i] = '.'
    return '/'.join(parts)


def gen_string(rng, names, adversarial):
    """a key or filename: an existing name, a fresh plain one, or a composition of path atoms"""
    r = rng.random()
    if r < (0.45 if not adversarial else 0.15) and names:
        return rng.choice(names)
    if r < (0.6 if not adversarial else 0.25):
        return rng.choice(PLAIN)
    atoms = names + PLAIN + ODD + ['..', '.', 'loop', 'k1', 'k2']
    k = rng.choice([1, 1, 2, 2, 3, 3, 4, 5])
    parts = [rng.choice(atoms) for _ in range(k)]
    sep = rng.choice(['/', '/', '/', '', '\\', '//', '/./', '/../'])
    s = sep.join(parts)
    q = rng.random()
    if q < 0.10:
        s = '/' + s
    elif q < 0.16:
        s = '//' + s
    elif q < 0.30:
        s = SBTOKEN + rng.choice(['/store/', '/store/k1/', '/outside/', '/store/k1/../k1/', '/outside/dir/', '/store/k2/', '/']) + s
    elif q < 0.34:
        s = '/nonexistent_c18/' + s
    q = rng.random()
    if q < 0.08:
        s += '/'
    elif q < 0.12:
        s += '/.'
    elif q < 0.15:
        s += '/..'
    return limit_dotdot(s)


def gen_op(rng, layout):
    rootn, keyn, _ = layout_names(layout)
    r = rng.random()
    if r < 0.02:
        return dict(op='find_keys', key='', fn='', mode='')
    key = gen_string(rng, rootn, adversarial=rng.random() < 0.3)
    if r < 0.20:
        return dict(op='exists', key=key, fn='', mode='')
    if r < 0.40:
        return dict(op='delete', key=key, fn='', mode='')
    # file_handle: mostly a key that is (or resolves to) a directory so that the filename matters
    if rng.random() < 0.7:
        key = rng.choice([n for n in rootn if n in ('k1', 'k2', 'lsib', 'c1', 'newkey', 'lroot', 'fa')] or ['k1'])
    fn = gen_string(rng, keyn, adversarial=rng.random() < 0.6)
    return dict(op='fh', key=key, fn=fn, mode=rng.choice(MODES))


def nontrivial(case, links=None):
    """a symlink of the layout is named by the key or by a filename component, or the key / filename
    contains a separator, a dot or a NUL (for a step of a sequence: `links` = the names that are symlinks
    at that step)"""
    if links is None:
        _, _, links = layout_names(case['layout'])
    key, fn = case['key'], case['fn']
    if any(ch in key or ch in fn for ch in ('/', '\\', '.', '\x00')):
        return True
    comps = [key] + fn.replace(SBTOKEN, '').split('/')
    return any(c in links for c in comps)


# ------------------------------------------------------------------------------------------ sequences
# A *sequence case* has, besides layout / via_link / gitignore, a list `steps`; a step is
# dict(mut=[[kind, relpath, arg], ...], op, key, fn, mode): the layout mutations are applied to the
# sandbox (by the harness, all inside SB), then the operation runs on the SAME LocalStorage instance.
# kinds: link (replace by a symlink to arg), remove, dir (replace by a directory, arg = name of a file
# to put inside or ''), file (replace by a regular file with content arg).
LINK_TARGETS_KEY = ['../outside/dir', SBTOKEN + '/outside/dir', '../outside', '../outside/canary.txt', '../nonexistent',
                    'k2', 'k1', '.', 'zb/../zx', SBTOKEN + '/outside/dir/sub']
LINK_TARGETS_FILE = ['../../outside/canary.txt', SBTOKEN + '/outside/canary.txt', '../../outside/newfile', 'zl/../zy',
                     '../../outside/dir/deep.txt', 'metadata.json', '../k2/data']


def gen_mutation(rng, K):
    """layout mutations around key K"""
    r = rng.random()
    if r < 0.40:
        t = rng.choice(LINK_TARGETS_KEY + [K])
        muts = [['link', f'store/{K}', t]]
        if t == 'zb/../zx':
            muts += [['link', 'store/zb', 'zb'], ['link', 'store/zx', rng.choice(['../outside/dir', '../outside/canary.txt'])]]
        return muts
    if r < 0.52:
        return [['remove', f'store/{K}', '']]
    if r < 0.64:
        return [['dir', f'store/{K}', rng.choice(['data', ''])]]
    if r < 0.70:
        return [['file', f'store/{K}', 'plain']]
    f = rng.choice(['data', 'metadata.json', 'f'])
    if r < 0.92:
        t = rng.choice(LINK_TARGETS_FILE)
        muts = [['link', f'store/{K}/{f}', t]]
        if t == 'zl/../zy':
            muts += [['link', f'store/{K}/zl', 'zl'], ['link', f'store/{K}/zy', '../../outside/canary.txt']]
        return muts
    return [['file', f'store/{K}/{f}', 'again']]


def gen_sequence(rng, layout):
    rootn, keyn, _ = layout_names(layout)
    simple = [n for n in rootn if n.isalnum()]
    K = rng.choice(['k1', 'k1', 'k2', 'newkey', 'newkey'] + simple)
    files = ['data', 'metadata.json', 'f'] + keyn[:4]
    steps = []
    for i in range(rng.choice([2, 3, 3, 4])):
        muts = []
        if rng.random() < (0.75 if i > 0 else 0.1):
            muts = gen_mutation(rng, K)
            if rng.random() < 0.15:
                muts = muts + gen_mutation(rng, K)
        key = K if rng.random() < 0.85 else gen_string(rng, rootn, adversarial=False)
        r = rng.random()
        if r < 0.25:
            step = dict(op='exists', key=key, fn='', mode='')
        elif r < 0.5:
            step = dict(op='delete', key=key, fn='', mode='')
        elif r < 0.53:
            step = dict(op='find_keys', key='', fn='', mode='')
        else:
            fn = rng.choice(files) if rng.random() < 0.8 else gen_string(rng, keyn, adversarial=True)
            step = dict(op='fh', key=key, fn=fn, mode=rng.choice(MODES))
        steps.append(dict(mut=muts, **step))
    return steps


def gen_rootgone_sequence(rng, layout):
    """ONE LocalStorage instance; a first ordinary operation, then the storage directory is removed ('rmroot') or removed
    together with its parent directory ('rmparent'), then exists / file_handle in EVERY mode / delete / find_keys on the
    same instance, on the key used before, on a fresh key and on other names of the layout. Whatever the operations
    answer, nothing may be created at or above the place where the storage directory was."""
    rootn, keyn, _ = layout_names(layout)
    K = rng.choice(['k1', 'k1', 'k2', 'newkey'])
    steps = [dict(mut=[], op='fh', key=K, fn=rng.choice(['data', 'f']), mode=rng.choice(['w', 'a', 'wb']))]
    kind = rng.choice(['rmparent', 'rmparent', 'rmroot'])
    ops = [dict(op='fh', fn=rng.choice(['data', 'f', 'metadata.json']), mode=m) for m in MODES]
    ops += [dict(op='exists', fn='', mode=''), dict(op='delete', fn='', mode='')]
    rng.shuffle(ops)
    ops = ops[:rng.choice([4, 6, len(ops)])]
    if rng.random() < 0.3:
        ops.append(dict(op='find_keys', fn='', mode=''))
    for i, o in enumerate(ops):
        r = rng.random()
        key = '' if o['op'] == 'find_keys' else K if r < 0.6 else 'fresh' if r < 0.8 else gen_string(rng, rootn, adversarial=False)
        steps.append(dict(mut=[[kind, '', '']] if i == 0 else [], key=key, **o))
    return steps


def apply_mutation(sbx, mut):
    kind, rel, arg = mut
    if kind in ('rmroot', 'rmparent'):
        # the storage directory goes away under a live LocalStorage object (unmounted disk, cleaned-up temporary
        # directory, a user deleting the output folder): 'rmroot' removes the storage directory alone, 'rmparent'
        # removes it together with its parent directory SB (the outside canaries go with it; TOP/w stays)
        shutil.rmtree(sbx.root if kind == 'rmroot' else sbx.sb, ignore_errors=True)
        return
    assert '..' not in rel.split('/') and not rel.startswith('/')
    p = os.path.join(sbx.sb, rel)
    parent = os.path.dirname(p)
    if not os.path.isdir(parent) or os.path.islink(parent):
        return  # only ever edit real directories of the sandbox
    if os.path.islink(p) or os.path.isfile(p):
        os.unlink(p)
    elif os.path.isdir(p):
        shutil.rmtree(p)
    if kind == 'link':
        os.symlink(sbx.sub(arg), p)
    elif kind == 'dir':
        os.mkdir(p)
        if arg:
            with open(os.path.join(p, arg), 'w') as f:
                f.write('re')
    elif kind == 'file':
        with open(p, 'w') as f:
            f.write(arg)


def snapshot_links(snap):
    return {os.path.basename(p) for p, v in snap.items() if v[0] == 'l'}


# ------------------------------------------------------------------------------------------ sandbox
class Sandbox:
    def __init__(self):
        self.top = os.path.realpath(tempfile.mkdtemp(prefix='c18_'))
        self.sb = os.path.join(self.top, 'w', 'x')
        self.root = os.path.join(self.sb, 'store')

    def sub(self, s):
        return s.replace(SBTOKEN, self.sb)

    def build(self, case):
        """(re)create the sandbox content; returns the LocalStorage object"""
        from labtech.storage import LocalStorage
        for n in os.listdir(self.top):
            p = os.path.join(self.top, n)
            if os.path.isdir(p) and not os.path.islink(p):
                shutil.rmtree(p)
            else:
                os.unlink(p)
        os.makedirs(self.sb)
        os.chdir(self.top)   # (the previous case's working directory may be gone)
        # ctor: how the directory is named to the constructor: abs_str | abs_path | rel_str | rel_path.
        # A relative name is given while SB is the working directory; the operations then run with
        # another working directory (SB/.., which gets a decoy copy of the store): the storage
        # directory is the one the object was constructed for.
        ctor = case.get('ctor', 'abs_str')
        name = 'rootlink' if case.get('via_link') else 'store'
        if case.get('via_link'):
            os.symlink('store', os.path.join(self.sb, 'rootlink'))
            os.mkdir(self.root)
        if ctor.startswith('rel'):
            os.chdir(self.sb)
            arg = name
        else:
            arg = os.path.join(self.sb, name)
        if ctor.endswith('path'):
            import pathlib
            arg = pathlib.Path(arg)
        st = LocalStorage(arg, with_gitignore=case.get('gitignore', True))
        for rel, kind, tgt in case['layout']:
            p = os.path.join(self.sb, rel)
            if kind == 'd':
                os.makedirs(p, exist_ok=True)
            elif kind == 'f':
                with open(p, 'w') as f:
                    f.write(tgt)
            else:
                os.symlink(self.sub(tgt), p)
        if ctor.startswith('rel'):
            up = os.path.dirname(self.sb)
            shutil.copytree(self.root, os.path.join(up, 'store'), symlinks=True)
            if case.get('via_link'):
                os.symlink('store', os.path.join(up, 'rootlink'))
            os.chdir(up)
        return st

    def snapshot(self):
        snap = {}
        for dp, dns, fns in os.walk(self.top, followlinks=False):
            for n in dns + fns:
                p = os.path.join(dp, n)
                s = os.lstat(p)
                if stat.S_ISLNK(s.st_mode):
                    snap[p] = ('l', os.readlink(p), s.st_mtime_ns)
                elif stat.S_ISDIR(s.st_mode):
                    snap[p] = ('d',)
                else:
                    with open(p, 'rb') as f:
                        snap[p] = ('f', f.read(), s.st_mtime_ns)
        return snap

    def close(self):
        shutil.rmtree(self.top, ignore_errors=True)


def diff_snap(before, after):
    """canonical list of node changes: mkdir:P write:P remove:P (top-most) link:P retype:P"""
    out = []
    removed = sorted(p for p in before if p not in after)
    for p in removed:
        if not any(p.startswith(q + '/') for q in removed):
            out.append('remove:' + p)
    for p in sorted(after):
        a = after[p]
        b = before.get(p)
        if b is None:
            out.append({'d': 'mkdir:', 'f': 'write:', 'l': 'link:'}[a[0]] + p)
        elif a != b:
            if a[0] != b[0]:
                out.append('retype:' + p)
            else:
                out.append({'f': 'write:', 'l': 'link:'}[a[0]] + p)
    return sorted(out)


ERRMAP = {'StorageError', 'ValueError', 'RuntimeError', 'RecursionError', 'FileNotFoundError',
          'NotADirectoryError', 'IsADirectoryError', 'FileExistsError'}


def err_class(e):
    n = type(e).__name__
    if n in ERRMAP:
        return n
    if isinstance(e, OSError):
        return 'OSError'
    return 'other:' + n


# ------------------------------------------------------------------------------------------ audit hook
# Python-level record of every path the operation hands to an opening / mutating / listing call
# (sys.addaudithook), with symlinks resolved at the moment of the call.
_AUD = dict(on=False, events=[], installed=False)
_AUD_EVENTS = {'open': 0, 'os.mkdir': 0, 'os.rmdir': 0, 'os.remove': 0, 'os.rename': None, 'os.symlink': 1, 'os.link': None,
               'os.truncate': 0, 'os.chmod': 0, 'os.chown': 0, 'os.utime': 0, 'os.scandir': 0, 'os.listdir': 0, 'shutil.rmtree': 0}
_FOLLOW = {'open', 'os.truncate', 'os.chmod', 'os.chown', 'os.utime', 'os.scandir', 'os.listdir'}


def _audit(event, args):
    if not _AUD['on'] or event not in _AUD_EVENTS:
        return
    _AUD['on'] = False
    try:
        idx = _AUD_EVENTS[event]
        paths = [args[0], args[1]] if idx is None else [args[idx]]
        for p in paths:
            if isinstance(p, bytes):
                p = os.fsdecode(p)
            if hasattr(p, '__fspath__'):
                p = os.fspath(p)
            if not isinstance(p, str) or not p.startswith('/') or '\x00' in p:
                continue  # dir_fd-relative names inside an opened directory
            d, b = os.path.split(p.rstrip('/') or '/')
            rp = os.path.join(os.path.realpath(d), b)
            follow = event in _FOLLOW
            flags = 0
            if event == 'open' and len(args) > 2 and isinstance(args[2], int):
                flags = args[2]
                if flags & os.O_NOFOLLOW or (flags & os.O_CREAT and flags & os.O_EXCL):
                    follow = False
            if follow and os.path.islink(rp):
                rp = os.path.realpath(rp)
            ro = event in ('os.scandir', 'os.listdir') or (event == 'open' and not flags & (os.O_WRONLY | os.O_RDWR | os.O_CREAT | os.O_TRUNC))
            _AUD['events'].append((event, rp, ro))
    except Exception:  # the hook must never interfere
        pass
    finally:
        _AUD['on'] = True


def audit_install():
    if not _AUD['installed']:
        import sys
        sys.addaudithook(_audit)
        _AUD['installed'] = True


def audit_alarms(sbx, case):
    """every audited call must be on the storage directory (listing only) or below it"""
    out = []
    for event, rp, ro in _AUD['events']:
        if rp.startswith(sbx.root + '/') or (rp == sbx.root and ro):
            continue
        out.append((f'{case["op"]} called {event} on a path outside the storage directory: {os.path.relpath(rp, sbx.sb)}',
                    event, ro))
    return out


def do_op(st, sbx, case, payload=b'W!'):
    """run the operation on the real code (audited); returns the status string"""
    audit_install()
    _AUD['events'] = []
    _AUD['on'] = True
    try:
        return _do_op(st, sbx, case, payload)
    finally:
        _AUD['on'] = False


def _do_op(st, sbx, case, payload=b'W!'):
    op = case['op']
    key, fn, mode = sbx.sub(case['key']), sbx.sub(case['fn']), case['mode']
    try:
        if op == 'exists':
            return 'ok:' + str(bool(st.exists(key)))
        if op == 'delete':
            st.delete(key)
            return 'ok:None'
        if op == 'find_keys':
            return 'ok:' + ','.join(st.find_keys())
        fh = st.file_handle(key, fn, mode=mode)
        with fh:
            if any(c in mode for c in 'wax+'):
                fh.write(payload if 'b' in mode else payload.decode())
            else:
                fh.read()
        return 'ok:handle'
    except BaseException as e:  # noqa: the class is the observation
        return 'err:' + err_class(e)


# ------------------------------------------------------------------------------------------ model line
def hx(s):
    return s.encode('utf-8', 'surrogatepass').hex()


def model_line(sbx, st, before, case, op_word=None):
    ents = []
    p = os.path.dirname(sbx.top)
    anc = []
    while p != '/':
        anc.append(p)
        p = os.path.dirname(p)
    for a in reversed(anc):
        ents.append(f'{hx(a)}:d:')
    ents.append(f'{hx(sbx.top)}:d:')
    for path in sorted(before):
        v = before[path]
        if v[0] == 'l':
            ents.append(f'{hx(path)}:l:{hx(v[1])}')
        else:
            ents.append(f'{hx(path)}:{v[0]}:')
    op = op_word or case['op']
    return (f"PATH fuel=100 root={hx(str(st._storage_path))} op={op} key={hx(sbx.sub(case['key']))} "
            f"fn={hx(sbx.sub(case['fn']))} mode={hx(case['mode'])} fs={';'.join(ents)}")


def parse_model(line):
    """-> (status, effects [(kind, path, mode)], touched [str])"""
    parts = line.split(' ')
    if len(parts) != 3 or not parts[1].startswith('E=') or not parts[2].startswith('T='):
        return line, [], []
    un = lambda h: bytes.fromhex(h).decode('utf-8', 'surrogatepass')
    eff = []
    for e in filter(None, parts[1][2:].split(',')):
        f = e.split(':')
        eff.append((f[0], un(f[1]), un(f[2]) if len(f) > 2 else ''))
    tou = []
    for t in filter(None, parts[2][2:].split(',')):
        k, h = t.split(':')
        tou.append(f'{k}:{un(h)}')
    return parts[0], eff, sorted(tou)


# ------------------------------------------------------------------------------------------ monitor
def monitor(sbx, case, before, after, changes):
    """model-independent: what the property literally forbids.  Returns a list of alarm strings."""
    alarms = []
    root = sbx.root  # the real storage directory (the harness created it there)
    inside = []
    for c in changes:
        kind, p = c.split(':', 1)
        if root not in before and kind in ('mkdir', 'write', 'link') and (p == root or root.startswith(p + '/')):
            alarms.append(f'{case["op"]} created a node at or above the place of the storage directory, which had been removed before the '
                          f'operation: {kind} {os.path.relpath(p, os.path.dirname(sbx.sb))} (the storage directory was '
                          f'{os.path.relpath(root, os.path.dirname(sbx.sb))}); nothing outside the storage directory may be created')
            continue
        if not (p == root or p.startswith(root + '/')) or p == root:
            alarms.append(f'{case["op"]} changed a node outside the storage directory: {kind} {os.path.relpath(p, sbx.sb)}')
            continue
        rel = p[len(root) + 1:].split('/')
        inside.append((kind, rel))
    childs = sorted({rel[0] for _, rel in inside})
    if len(childs) > 1:
        alarms.append(f'{case["op"]} changed more than one key directory: {childs}')
    op = case['op']
    for kind, rel in inside:
        if op in ('exists', 'find_keys'):
            alarms.append(f'{op} modified the storage: {kind} {"/".join(rel)}')
        elif op == 'fh':
            if len(rel) > 2 or kind in ('remove', 'link', 'retype') or (kind == 'mkdir' and len(rel) != 1) \
                    or (kind == 'write' and len(rel) != 2):
                alarms.append(f'file_handle changed something other than its key directory / a file directly inside: {kind} {"/".join(rel)}')
        elif op == 'delete':
            if kind != 'remove' or len(rel) != 1:
                alarms.append(f'delete did something other than removing one key directory: {kind} {"/".join(rel)}')
    # canaries (everything outside the root) byte- and mtime-identical: covered by the first rule, since
    # the snapshot holds content, type, link target and mtime of every node under TOP
    return alarms
