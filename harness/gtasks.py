"""Task types for the diagram property (C20): five types with different field layouts and type
hints (plain, Optional, list[...], dict[...], Union, forward-reference strings, Any, bare tuple),
with and without a run() return annotation.  Dataclasses do not check hints at run time, so any
field may hold a scalar, a task or a (nested) collection — the same (type, parameter) can hold a
single task in one object and a collection in another.

GM, GN, GO, GP, GQ are declared with `mlflow_run=True` (the option only says how a task of the type is EXECUTED; the
decorator does not need mlflow, which is imported when such a task runs - the diagram never runs one): annotated run()
return types incl. generic aliases (`float`, `dict[str, float]`, `Optional[list[int]]`, `list[GM]`) and an un-annotated run().

`DECLARED_RUN[name]` is the run function AS WRITTEN in the class body, captured by `@declared` before `labtech.task`
sees the class: the run signature the diagram has to show is the one of this function, whatever the decorator leaves
in the class."""
from typing import Any, Optional, Union

import labtech

DECLARED_RUN = {}


def declared(cls):
    DECLARED_RUN[cls.__name__] = cls.__dict__['run']
    return cls


@labtech.task(cache=None)
@declared
class GA:
    x: int
    a: Any = None

    def run(self) -> int:
        return self.x


@labtech.task(cache=None)
@declared
class GB:
    one: Optional[GA]
    many: list[GA] = ()

    def run(self) -> list[int]:
        return []


@labtech.task(cache=None)
@declared
class GC:
    m: dict[str, Any]
    p: 'forward hint'  # noqa: F722  (stays a string: format_type passes strings through)
    q: Union[int, GA, None] = None

    def run(self):
        return None


@labtech.task(cache=None)
@declared
class GD:
    def run(self) -> None:
        return None


@labtech.task(cache=None)
@declared
class GE:
    u: tuple
    v: Any
    w: Any = None
    s: str = ''

    def run(self) -> 'GA':
        return GA(x=0)


@labtech.task(cache=None, mlflow_run=True)
@declared
class GM:
    seed: int
    dep: Optional[GA] = None

    def run(self) -> float:
        return self.seed / 2


@labtech.task(cache=None, mlflow_run=True, max_parallel=1)
@declared
class GN:
    items: list[GM] = ()
    extra: Any = None

    def run(self) -> dict[str, float]:
        return {}


@labtech.task(mlflow_run=True)
@declared
class GO:
    a: Any = None

    def run(self) -> Optional[list[int]]:
        return None


@labtech.task(cache=None, mlflow_run=True)
@declared
class GP:
    one: Any = None
    two: tuple = ()

    def run(self):
        return 0


@labtech.task(cache=None, mlflow_run=True)
@declared
class GQ:
    t: Any = None

    def run(self) -> list[GM]:
        return []


BASE_TYPES = [GA, GB, GC, GD, GE]
MLFLOW_TYPES = [GM, GN, GO, GP, GQ]
TYPES = BASE_TYPES + MLFLOW_TYPES
BY_NAME = {t.__name__: t for t in TYPES}
