"""Task types for the diagram property (C20): five types with different field layouts and type
hints (plain, Optional, list[...], dict[...], Union, forward-reference strings, Any, bare tuple),
with and without a run() return annotation.  Dataclasses do not check hints at run time, so any
field may hold a scalar, a task or a (nested) collection — the same (type, parameter) can hold a
single task in one object and a collection in another."""
from typing import Any, Optional, Union

import labtech


@labtech.task(cache=None)
class GA:
    x: int
    a: Any = None

    def run(self) -> int:
        return self.x


@labtech.task(cache=None)
class GB:
    one: Optional[GA]
    many: list[GA] = ()

    def run(self) -> list[int]:
        return []


@labtech.task(cache=None)
class GC:
    m: dict[str, Any]
    p: 'forward hint'  # noqa: F722  (stays a string: format_type passes strings through)
    q: Union[int, GA, None] = None

    def run(self):
        return None


@labtech.task(cache=None)
class GD:
    def run(self) -> None:
        return None


@labtech.task(cache=None)
class GE:
    u: tuple
    v: Any
    w: Any = None
    s: str = ''

    def run(self) -> 'GA':
        return GA(x=0)


TYPES = [GA, GB, GC, GD, GE]
BY_NAME = {t.__name__: t for t in TYPES}
