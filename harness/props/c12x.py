"""C12, extra scenario: the failing save happens in a WORKER for task classes defined in the executed
`__main__` script (under the spawn backend the worker sees them as `__mp_main__.…`). A generated script
runs tasks whose results cannot be pickled (at depth 0, and after several 70 kB frames were written)
next to a good one, on the spawn and fork backends; afterwards — same process, then a fresh
interpreter — no failed task may be reported cached unless it loads."""
import json
import os
import shutil
import signal
import subprocess
import sys
import tempfile
import time

HERE = os.path.dirname(os.path.dirname(os.path.abspath(__file__)))

SCRIPT = r'''
import json
import logging
import os
import sys

import labtech


@labtech.task
class Res:
    idx: int

    def run(self):
        if self.idx == 0:
            return {'ok': 1}
        if self.idx == 1:
            return lambda: 1
        return ['x' * 70000, 'y' * 70000, (lambda: 2)]


def main():
    backend, storage, out = sys.argv[1], sys.argv[2], sys.argv[3]
    labtech.logger.setLevel(logging.CRITICAL)
    tasks = [Res(idx=i) for i in range(3)]
    lab = labtech.Lab(storage=storage, runner_backend=('serial' if backend == 'check' else backend), max_workers=2,
                      continue_on_failure=True)
    rec = dict(before=[bool(lab.is_cached(t)) for t in tasks])
    if backend != 'check':
        try:
            res = lab.run_tasks(tasks, disable_progress=True, disable_top=True)
            rec['returned'] = [t in res for t in tasks]
        except BaseException as e:
            rec['returned'] = 'raised ' + type(e).__name__
    rec['cached'] = [bool(lab.is_cached(t)) for t in tasks]
    try:
        listed = lab.cached_tasks([Res])
        rec['listed'] = [t in listed for t in tasks]
    except BaseException as e:
        rec['listed'] = 'raised ' + type(e).__name__
    loads = []
    for t in tasks:
        try:
            loads.append(repr(t._lt.cache.load_result_with_meta(lab._storage, t).value)[:30] if lab.is_cached(t) else None)
        except BaseException as e:
            loads.append('load raised ' + type(e).__name__)
    rec['loads'] = loads
    rec['dirs'] = sorted(p for p in os.listdir(storage) if not p.startswith('.'))
    json.dump(rec, open(out, 'w'))


if __name__ == '__main__':
    main()
'''


def run_scripts(backends=('spawn', 'fork'), timeout=45):
    root = tempfile.mkdtemp(prefix='verif-c12s-')
    try:
        recs = []
        for i, b in enumerate(backends):
            d = os.path.join(root, f's{i}')
            os.makedirs(d)
            open(os.path.join(d, 'experiment.py'), 'w').write(SCRIPT)
            recs.append(dict(backend=b, dir=d))
        for phase, arg in ((1, None), (2, 'check')):
            procs = []
            for i, r in enumerate(recs):
                lf = open(os.path.join(r['dir'], f'log{phase}.txt'), 'w')
                env = dict(os.environ, PYTHONPATH=HERE + os.pathsep + os.environ.get('VERIF_REPO', '/repo'),
                           PYTHONHASHSEED=str(40 * phase + i))
                procs.append((subprocess.Popen([sys.executable, os.path.join(r['dir'], 'experiment.py'), arg or r['backend'],
                                                os.path.join(r['dir'], 'store'), os.path.join(r['dir'], f'out{phase}.json')],
                                               stdout=lf, stderr=lf, stdin=subprocess.DEVNULL, start_new_session=True, env=env), lf))
            deadline = time.time() + timeout
            for p, lf in procs:
                try:
                    p.wait(timeout=max(0.1, deadline - time.time()))
                except subprocess.TimeoutExpired:
                    pass
                try:
                    os.killpg(p.pid, signal.SIGKILL)
                except (ProcessLookupError, PermissionError):
                    pass
                p.wait()
                lf.close()
            for r in recs:
                op = os.path.join(r['dir'], f'out{phase}.json')
                if os.path.exists(op):
                    r[f'run{phase}'] = json.load(open(op))
                else:
                    r['infra'] = f'script phase {phase} produced no output: ' + open(os.path.join(r['dir'], f'log{phase}.txt')).read()[-400:]
        for r in recs:
            r.pop('dir')
        return recs
    finally:
        shutil.rmtree(root, ignore_errors=True)


def monitor(r):
    out = []
    tag = f"task classes defined in the __main__ script, '{r['backend']}' workers"
    for phase, where in (('run1', 'in the same process'), ('run2', 'in a fresh interpreter')):
        o = r[phase]
        for i in (1, 2):
            if o['cached'][i] and (o['loads'][i] is None or str(o['loads'][i]).startswith('load raised')):
                out.append(f"{tag}: the save of Res({i}) failed (unpicklable result{' after two 70 kB frames' if i == 2 else ''}) but {where} it is reported as cached and cannot be loaded ({o['loads'][i]}); directories left: {o['dirs']}")
            if isinstance(o['listed'], str) or (o['listed'][i] and not o['cached'][i]):
                out.append(f"{tag}: cached_tasks {where}: {o['listed']} after the failed save of Res({i})")
    if r['run1'].get('returned') not in ([True, False, False],):
        out.append(f"{tag}: the tasks whose save failed were not reported as failed: returned={r['run1'].get('returned')}")
    return out
