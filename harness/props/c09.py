"""C09 — cached_tasks reconstructs every cached task faithfully.

(Enum parameters include members of classes nested in holder classes - dotted qualified names, paramgen.ENUM_TYPES; the
repaired defect D26 is replayed by `d26_regression` on every run.)

Stores: real LocalStorage directories filled through the real caches (`PickleCache`, a second BaseCache
format `JsonCache`, `NullCache`) with generated tasks of 10 types (same-named types of two modules, the
prefix pair Exp/Experiment), plus entries written for a type by a cache format that is not the type's own.
Monitor (model-independent): for several requests per store, `Lab.cached_tasks(types)` is, as a multiset,
exactly the saved tasks whose type is requested and whose entry was written by the type's own cache —
each once, equal (Python == and type-exactly at every depth), same cache_key, the stored result_meta,
no results map / context — and running the returned tasks loads the stored results without executing.
Correspondence: the same store and request through the Lean model of cached_tasks (`CTASKS`), compared
in order (find_keys order) on normal form, result meta and key.
Class / enum-member resolution phase (harness/clsres.py): generated package trees (nested classes, Flag enums, shadowing
submodules, missing dependencies), each imported in a fresh interpreter; the real deserialize_class / serialize_enum /
deserialize_enum against the Lean model of the resolution (`CLSRES`); monitor: a class whose holder path no module
shadows, and every enum value, comes back from its serialisation.
Task types include one with a non-ASCII identifier (ptasks.Étude, also in ptasks2, also as nested-task parameter) and one
cached by a third format whose KEY_PREFIX has a hyphen, a space and a non-ASCII letter (ptasks.Archive / DashCache): every
saved entry must be listed by the storage and returned by cached_tasks exactly once.
Parameters include instances of scalar subclasses (Celsius(float), str / int subclasses, numpy.float64 / numpy.str_) and
str-subclass dict keys: the serialiser writes them as the base scalar / plain str, so what comes back is the ==-equal task
holding the base values (the Lean model is given the base values; the equality with the original is monitor-only).
Relative storage directories (monitor-only, in a child interpreter, `rel` in the case): `Lab(storage='relative/dir')` or a
relative Path, entries saved, then os.chdir() to a directory where a decoy directory of the same relative name holds a
foreign entry: is_cached / find_keys / cached_tasks / run_tasks must still see exactly the original store."""
import collections
import hashlib
import json
import os
import random
import shutil
import tempfile
import time
from datetime import datetime, timedelta

import clsres
import paramgen as pg
import paramrun as pr

REL_PATHS = ['store', 'rel/dir', './store', 'lab cache/é']


RULE = ('distinct (store, request) pairs in which the store holds at least one entry with a nested task or a list/dict below the top level, '
        'and at least one entry that the request must NOT return although its key passes the startswith test or its qualname equals a requested '
        "type's (prefix-named type, same-named type of the other module, foreign cache format)")

ALL_TYPES = sorted(pg.TASK_TYPES)


def rm_token(meta):
    return '%s|%r' % (meta.start.isoformat() if meta.start else None, meta.duration.total_seconds() if meta.duration is not None else None)


def gen_store(rnd, depth, size):
    """a store case: list of [spec, foreign(bool), start_minute, duration_s]"""
    entries = []
    # make the interesting neighbourhoods likely: Exp / Experiment / ptasks2.Exp with related parameters
    for i in range(size):
        g = pg.Gen(rnd, max_depth=rnd.randrange(1, depth + 1), malformed=0.0)
        if rnd.random() < 0.5:
            types = [(k, v) for k, v in sorted(pg.TASK_TYPES.items()) if k[1] in ('Exp', 'Experiment')]
        else:
            types = None
        spec = g.task(0, types=types)
        if entries and rnd.random() < 0.2:
            # the same parameters on a neighbouring type
            base = rnd.choice(entries)[0]
            mu = None
            for _ in range(5):
                cand = pr.mutate(base, rnd)
                if cand and (cand[0].startswith('type') or cand[0] == 'enum-mixin'):
                    mu = cand
                    break
            if mu:
                spec = mu[1]
        entries.append([spec, rnd.random() < 0.12, rnd.randrange(0, 100000), rnd.choice([0.0, 1.5, 0.000001, 3600.25, rnd.random() * 100])])
    if rnd.random() < 0.4:
        # a mixin enum member, its bare value and a same-valued member of another mixin enum, side by side
        for spec in rnd.choice(pr.mixin_groups()):
            entries.insert(rnd.randrange(len(entries) + 1), [spec, False, rnd.randrange(0, 100000), 1.5])
    return entries


def gen_rel(rnd):
    """how a store is opened through a RELATIVE path: [path, given as pathlib.Path?, decoy directory at the new cwd?]"""
    return dict(path=rnd.choice(REL_PATHS), as_path=rnd.random() < 0.5, decoy=rnd.random() < 0.7)


def gen_requests(rnd):
    reqs = [[('ptasks', 'Exp')], [('ptasks', 'Experiment'), ('ptasks', 'Exp')], list(ALL_TYPES)]
    k = rnd.randrange(1, 5)
    r = [rnd.choice(ALL_TYPES) for _ in range(k)]   # duplicates allowed
    reqs.append(r)
    reqs.append([rnd.choice([('ptasks2', 'Exp'), ('ptasks2', 'Leaf'), ('ptasks', 'AltT'), ('ptasks', 'NoCache')])])
    return [[list(x) for x in r] for r in reqs]


def has_flagged(spec):
    """F07's input class: a dict parameter with a truthy _is_task/_is_enum entry"""
    t = spec[0]
    if t in ('dict', 'fdict'):
        for k, v in spec[1]:
            if k[0] != 'x' and pg.key_str(k) in ('_is_task', '_is_enum') and (v[0] in ('task', 'enum') or bool(pg.build(v))):
                return True
    return any(has_flagged(c) for c in pg.children(spec))


def ctasks_line(keys_sorted, by_key, request, extra_types=None):
    tcs = []
    all_types = dict(pg.TASK_TYPES)
    all_types.update(extra_types or {})
    for (m, q) in sorted(all_types):
        null, prefix, cname = pr.cache_parts(pg.cls_of(m, q))
        tcs.append(':'.join([pg.hx(m), pg.hx(q), pg.hx(cname), pg.hx(prefix), '1' if null else '0', ','.join(pg.hx(f) for f in all_types[(m, q)])]))
    ecs = [':'.join([pg.hx(x) for x in pg.model_ref(m, q)] + [','.join(pg.hx(x) for x in ms)]) for (m, q), ms in sorted(pg.ENUM_TYPES.items())]
    words = ['CTASKS', str(len(tcs))] + tcs + [str(len(ecs))] + ecs + [str(len(request))] + [pg.hx(m) + ':' + pg.hx(q) for m, q in request]
    words.append(str(len(keys_sorted)))
    for k in keys_sorted:
        e = by_key[k]
        words += [pg.hx(k), pg.hx(e['cache_name']), pg.hx(e['rm'])] + pg.words(e['spec'])
    return ' '.join(words)


def parse_ctasks(line):
    if not line.startswith('ok'):
        return line
    out = []
    for w in line.split(' ')[1:]:
        nf, rm, key = w.split('|')
        key = bytes.fromhex(key).decode()
        if '#' in key:
            head, pre, _ = key.split('#')
            key = head + hashlib.sha1(bytes.fromhex(pre)).hexdigest()
        out.append((nf, bytes.fromhex(rm).decode() if rm != '-' else None, key))
    return out


def start_rel_worker(cases):
    """store cases with a relative storage directory run in a child interpreter (they change the working directory)"""
    import subprocess
    import sys
    tmp = tempfile.mkdtemp(prefix='verif-c09w-')
    inp, outp, log = (os.path.join(tmp, n) for n in ('in.json', 'out.json', 'log.txt'))
    json.dump(cases, open(inp, 'w'))
    repo = os.environ.get('VERIF_REPO', '/repo')
    env = dict(os.environ, PYTHONPATH=pr.HERE + os.pathsep + repo)
    lf = open(log, 'w')
    p = subprocess.Popen([sys.executable, os.path.join(pr.HERE, 'paramworker.py'), '--relstore', inp, outp], stdout=lf, stderr=lf,
                         stdin=subprocess.DEVNULL, start_new_session=True, env=env, cwd=tmp)
    return dict(tmp=tmp, outp=outp, log=log, lf=lf, p=p)


def finish_rel_worker(h, timeout=240):
    """[(violations, facts)] per case"""
    return [(v, collections.Counter(f)) for v, f in pr.finish_worker(h, timeout=timeout)]


def run_store(case, want_model=True, in_child=False):
    """one store case through the real code (+ the model); returns (violations, disagreements, facts)"""
    import labtech
    import ptasks
    from labtech.types import ResultMeta, TaskResult
    rel = case.get('rel')
    if rel and not in_child:
        (v, facts), = finish_rel_worker(start_rel_worker([case]))
        return v, [], facts
    viol, dis = [], []
    facts = collections.Counter()
    base = tempfile.mkdtemp(prefix='verif-c09-')
    cwd0 = os.getcwd() if rel else None
    try:
        if rel:
            # <base>/work is the working directory while the store is filled, <base>/elsewhere afterwards
            work, other = os.path.join(os.path.realpath(base), 'work'), os.path.join(os.path.realpath(base), 'elsewhere')
            for w in (work, other):
                os.makedirs(os.path.dirname(os.path.normpath(os.path.join(w, rel['path']))))
            decoy_task = ptasks.Exp(p='decoy-entry-of-another-project')
            if rel['decoy']:
                decoy = labtech.Lab(storage=os.path.join(other, rel['path']), runner_backend='serial')
                for t in (decoy_task, getattr(ptasks, 'Étude')(p=[decoy_task])):
                    type(t)._lt.cache.save(decoy._storage, t, TaskResult(value='decoy', meta=ResultMeta(start=datetime(2020, 1, 1), duration=timedelta(seconds=9))))
            os.chdir(work)
            from pathlib import Path
            lab = labtech.Lab(storage=Path(rel['path']) if rel['as_path'] else rel['path'], runner_backend='serial')
            d = os.path.normpath(os.path.join(work, rel['path']))
        else:
            d = base
            lab = labtech.Lab(storage=d, runner_backend='serial')
        by_key = {}
        for i, (spec, foreign, minute, dur) in enumerate(case['entries']):
            t = pg.build(spec)
            cls = type(t)
            null, prefix, cname = pr.cache_parts(cls)
            meta = ResultMeta(start=datetime(2024, 1, 1) + timedelta(minutes=minute), duration=timedelta(seconds=dur))
            cache = cls._lt.cache
            if foreign and not null:
                # the same type under another cache format wrote this entry (e.g. the type's cache was changed since)
                cache = ptasks.JsonCache() if cname == 'PickleCache' else labtech.cache.PickleCache()
            cache.save(lab._storage, t, TaskResult(value='stored-%d' % i, meta=meta))
            if null:
                facts['nullcache_saves'] += 1
                continue
            # a later save under the same key overwrites
            by_key[t.cache_key] = dict(spec=spec, task=t, own=not (foreign and not null), cache_name=type(cache).__qualname__, rm=rm_token(meta),
                                       value='stored-%d' % i, nf=pg.strip_marks(pg.show(t)))   # (what comes back holds the base scalars)
        keys_sorted = sorted(by_key)
        if rel:
            # the program moves on to another working directory
            tag = f"Lab(storage={'Path(' if rel['as_path'] else ''}{rel['path']!r}{')' if rel['as_path'] else ''}), entries saved, then os.chdir(): "
            os.chdir(other)
            facts['relative_storage_cases'] += 1
            try:
                lost = [k for k, e in sorted(by_key.items()) if not lab.is_cached(e['task'])]
                if lost:
                    viol.append(dict(what=tag + f'is_cached is False for {len(lost)} of the {len(by_key)} cached tasks (first: {lost[0]})', replay=dict(kind='store', case=case)))
                if lab.is_cached(decoy_task):
                    viol.append(dict(what=tag + 'is_cached is True for a task that only a directory of the same relative name under the NEW working directory holds',
                                     replay=dict(kind='store', case=case)))
            except BaseException as e:
                viol.append(dict(what=tag + f'is_cached raised {type(e).__name__}: {e}'[:200], replay=dict(kind='store', case=case)))
        try:
            listed = list(lab._storage.find_keys())
        except BaseException as e:
            listed = None
            viol.append(dict(what=f'listing the storage raised {type(e).__name__}: {e}'[:200], replay=dict(kind='store', case=case)))
        if listed is not None and listed != keys_sorted:
            cw, cl = collections.Counter(keys_sorted), collections.Counter(listed)
            viol.append(dict(what='storage lists other keys than the ones saved: %d saved entries are not listed, %d listed keys were not saved or are repeated (first: %s)'
                                  % (sum((cw - cl).values()), sum((cl - cw).values()), (sorted((cw - cl).elements()) + sorted((cl - cw).elements()))[0]),
                             replay=dict(kind='store', case=case)))
        # the stored documents are what the model's serialiser says (type-exactly)
        lines = []
        for req in case['requests']:
            types = [pg.cls_of(m, q) for m, q in req]
            try:
                got = lab.cached_tasks(types)
            except BaseException as e:
                viol.append(dict(what=f'cached_tasks raised {type(e).__name__}: {e}'[:200], replay=dict(kind='store', case=dict(case, requests=[req]))))
                continue
            want = [e for k, e in sorted(by_key.items()) if e['own'] and any(type(e['task']) is ty for ty in types)]
            facts['requests'] += 1
            facts['returned'] += len(got)
            must_not = [e for k, e in by_key.items() if e not in want and any(
                type(e['task']).__qualname__.startswith(ty.__qualname__) for ty in types)]
            facts['tempting_entries'] += len(must_not)
            got_rows = sorted((pg.show(u), u.cache_key, rm_token(u.result_meta) if u.result_meta is not None else None) for u in got)
            want_rows = sorted((e['nf'], k, e['rm']) for e in want for k in [e['task'].cache_key])
            if got_rows != want_rows:
                cw, cg = collections.Counter(want_rows), collections.Counter(got_rows)
                missing = sorted((cw - cg).elements())
                extra = sorted((cg - cw).elements())
                what = ('cached_tasks result differs from the saved set: %d missing, %d unexpected or repeated (first: %s)'
                        % (len(missing), len(extra), (missing + extra)[0][1]))
                if missing and extra and missing[0][1] == extra[0][1]:
                    what = 'cached_tasks rebuilt a different task / key / result_meta for entry ' + missing[0][1]
                viol.append(dict(what=what, replay=dict(kind='store', case=dict(case, requests=[req]))))
            for u in got:
                e = by_key.get(u.cache_key)
                if e is not None and not (u == e['task'] and hash(u) == hash(e['task'])):
                    viol.append(dict(what='returned task is not equal to the saved one', replay=dict(kind='store', case=dict(case, requests=[req]))))
                if u._results_map is not None or u.context is not None:
                    viol.append(dict(what='returned task carries a results map or context', replay=dict(kind='store', case=dict(case, requests=[req]))))
            if want_model:
                lines.append((req, ctasks_line(keys_sorted, by_key, req), [(pg.show(u), rm_token(u.result_meta) if u.result_meta is not None else None, u.cache_key) for u in got]))
            nt = any(pr.nontrivial(e['spec']) for e in by_key.values()) and bool(must_not)
            facts['nontrivial'] += int(nt)
        # running the returned tasks loads the stored results
        types = [pg.cls_of(m, q) for m, q in ALL_TYPES]
        try:
            got = lab.cached_tasks(types)
            if rel:
                # ... and so does running the ORIGINAL task objects after the change of directory
                got = list(got) + [e['task'] for _, e in sorted(by_key.items()) if e['own']]
            # run_tasks keys its result dict by Python equality, which identifies e.g. Exp(p=1) and Exp(p=True)
            # (an observation, not a finding): such tasks are run in separate calls
            batches = [[]]
            for u in got:
                for b in batches:
                    if not any(pr.maybe_eq(u, x) for x in b):
                        b.append(u)
                        break
                else:
                    batches.append([u])
            for b in batches:
                if not b:
                    continue
                res = lab.run_tasks(b, disable_progress=True, disable_top=True)
                for u in b:
                    e = by_key.get(u.cache_key)
                    if e is not None and e['own'] and res.get(u) != e['value']:
                        viol.append(dict(what=f'running a returned task gave {res.get(u)!r}, stored was {e["value"]!r}',
                                         replay=dict(kind='store', case=dict(case, requests=[[list(x) for x in ALL_TYPES]]))))
                facts['run_loaded'] += len(b)
        except BaseException as e:
            viol.append(dict(what=f'running the returned tasks raised {type(e).__name__}: {e}'[:200], replay=dict(kind='store', case=case)))
        if want_model and lines:
            import driver
            outs = driver.run_lines([l for _, l, _ in lines])
            for (req, _, real_rows), o in zip(lines, outs):
                model_rows = parse_ctasks(o)
                if model_rows != real_rows:
                    dis.append(dict(case=dict(case, requests=[req]), diff='cached_tasks: model %s vs real %s' % (str(model_rows)[:300], str(real_rows)[:300])))
            # stored metadata document == model serialisation
            ms = pr.model_lines([e['spec'] for e in by_key.values()])
            for (k, e), ml in zip(by_key.items(), ms):
                m = pr.parse_model(ml)
                doc = json.load(open(os.path.join(d, k, 'metadata.json')))
                if not pg.json_exact(doc['task'], json.loads(m['pre'])):
                    dis.append(dict(case=case, diff='stored metadata task document differs from the model serialisation for ' + k))
                if doc.get('cache') != e['cache_name']:
                    dis.append(dict(case=case, diff='stored cache class name differs'))
        facts['entries'] += len(by_key)
        facts['foreign_entries'] += sum(1 for e in by_key.values() if not e['own'])
    finally:
        if rel:
            os.chdir(cwd0)
        shutil.rmtree(base, ignore_errors=True)
    return viol, dis, facts


def run_store_safe(case, want_model=True):
    """run_store; an exception out of building / saving / listing is a finding about the code under test"""
    try:
        return run_store(case, want_model=want_model)
    except RuntimeError as e:
        if str(e).startswith('parameter worker failed'):
            raise
        return [dict(what=f'building / saving the store raised {type(e).__name__}: {e}'[:200], replay=dict(kind='store', case=case))], [], collections.Counter()
    except Exception as e:
        return [dict(what=f'building / saving the store raised {type(e).__name__}: {e}'[:200], replay=dict(kind='store', case=case))], [], collections.Counter()


def shrink_store(case, want):
    """drop entries / requests while the same alarm persists"""
    def bad(c):
        try:
            v, _, _ = run_store_safe(c, want_model=False)
            return any(x['what'].startswith(want) for x in v)
        except Exception:
            return False
    cur = case
    changed = True
    steps = 0
    while changed and steps < 60:
        changed = False
        for i in range(len(cur['entries'])):
            steps += 1
            c = dict(cur, entries=cur['entries'][:i] + cur['entries'][i + 1:])
            if c['entries'] and bad(c):
                cur = c
                changed = True
                break
        if changed:
            continue
        for i, (spec, foreign, minute, dur) in enumerate(cur['entries']):
            for cand in pg.shrink_candidates(spec)[:12]:
                steps += 1
                c = dict(cur, entries=cur['entries'][:i] + [[cand, foreign, minute, dur]] + cur['entries'][i + 1:])
                if bad(c):
                    cur = c
                    changed = True
                    break
            if changed:
                break
    return cur


# =================================================================== failed overwrites

def gen_overwrite_case(rnd, depth):
    n = rnd.randrange(2, 7)
    specs = []
    seen = set()
    while len(specs) < n:
        g = pg.Gen(rnd, max_depth=rnd.randrange(1, depth), malformed=0.0)
        s = ['task', 'ptasks', 'Flaky', [['p', g.value(1)]]]
        k = json.dumps(s)
        if k in seen or has_flagged(s):
            continue
        seen.add(k)
        specs.append(s)
    fail = sorted(rnd.sample(range(n), rnd.randrange(1, n)))
    return dict(specs=specs, fail=fail)


def disk_meta(d, key):
    doc = json.load(open(os.path.join(d, key, 'metadata.json')))
    return '%s|%r' % (doc.get('start_timestamp'), doc.get('duration_seconds'))


def run_overwrite(case):
    """entries that went through a failed overwrite: run once, then a bust_cache re-run in which the tasks of
    `case['fail']` return a result that fails to pickle after some frames.  Afterwards whatever cached_tasks
    returns must load (without executing) the stored result, with the result_meta stored next to it."""
    import labtech
    import ptasks
    viol, dis = [], []
    facts = collections.Counter()
    rp = dict(kind='overwrite', case=case)
    d = tempfile.mkdtemp(prefix='verif-c09o-')
    try:
        kw = dict(disable_progress=True, disable_top=True)
        lab = labtech.Lab(storage=d, runner_backend='serial', continue_on_failure=True)
        tasks = [pg.build(s) for s in case['specs']]
        if len({t.cache_key for t in tasks}) != len(tasks) or any(pr.maybe_eq(a, b) for i, a in enumerate(tasks) for b in tasks[:i]):
            return viol, dis, facts   # Python-equal parameters (1 / True): run_tasks would merge them; not this scenario
        ptasks.OVERWRITE_FAIL.clear()
        res1 = lab.run_tasks(tasks, **kw)
        if len(res1) != len(tasks):
            return [dict(what='first run of the Flaky tasks did not return every result', replay=rp)], dis, facts
        first = {t.cache_key: (rm_token(t.result_meta), res1[t]) for t in tasks}
        failing = {tasks[i].cache_key for i in case['fail']}
        ptasks.OVERWRITE_FAIL.update(failing)
        try:
            res2 = lab.run_tasks(tasks, bust_cache=True, **kw)
        finally:
            ptasks.OVERWRITE_FAIL.clear()
        facts['overwrites_failed'] += sum(1 for t in tasks if t.cache_key in failing and t not in res2)
        facts['overwrites_ok'] += sum(1 for t in tasks if t in res2)
        second = {t.cache_key: (rm_token(t.result_meta), res2[t]) for t in tasks if t in res2}
        by_task_key = {t.cache_key: (t, s) for t, s in zip(tasks, case['specs'])}
        lab2 = labtech.Lab(storage=d, runner_backend='serial', continue_on_failure=True)
        got = lab2.cached_tasks([ptasks.Flaky])
        facts['requests'] += 1
        facts['returned'] += len(got)
        got_keys = collections.Counter(u.cache_key for u in got)
        for k in second:
            if got_keys[k] != 1:
                viol.append(dict(what=f'a task whose overwrite succeeded came back {got_keys[k]} times from cached_tasks', replay=rp))
        runs_before = ptasks.RUNS[0]
        loaded = lab2.run_tasks(got, **kw) if got else {}
        for u in got:
            k = u.cache_key
            if k not in by_task_key:
                viol.append(dict(what='cached_tasks returned a task under a key nothing was saved under', replay=rp))
                continue
            t, _ = by_task_key[k]
            state = 'after a failed overwrite' if k in failing and k not in second else 'after an overwrite'
            facts['returned_after_failed_overwrite'] += int(k in failing and k not in second)
            if not (u == t and pg.show(u) == pg.strip_marks(pg.show(t))):
                viol.append(dict(what=f'task returned {state} is not equal to the cached one', replay=rp))
            if u not in loaded:
                viol.append(dict(what=f'task returned by cached_tasks {state} cannot load its stored result', replay=rp))
                continue
            want_rm, want_val = second.get(k) or first[k]   # the whole new entry, or the whole old one
            if loaded[u] != want_val:
                viol.append(dict(what=f'running a task returned {state} gave {str(loaded[u])[:60]!r}, not the stored result of the run that wrote the entry', replay=rp))
            on_disk = disk_meta(d, k) if os.path.exists(os.path.join(d, k, 'metadata.json')) else None
            got_rm = rm_token(u.result_meta) if u.result_meta is not None else None
            if got_rm != want_rm or on_disk != want_rm:
                viol.append(dict(what=f'result_meta of a task returned {state} is not the meta of the stored result '
                                      f'(returned {got_rm}, on disk {on_disk}, run that produced the result {want_rm})', replay=rp))
        if ptasks.RUNS[0] != runs_before:
            viol.append(dict(what='running the tasks returned by cached_tasks executed them instead of loading the stored results', replay=rp))
        # the model on what is on disk now
        import driver
        keys_sorted = list(lab2._storage.find_keys())
        by_key = {}
        for k in keys_sorted:
            if k in by_task_key:
                doc = json.load(open(os.path.join(d, k, 'metadata.json')))
                by_key[k] = dict(spec=by_task_key[k][1], cache_name=doc.get('cache'), rm=disk_meta(d, k))
        if sorted(by_key) == keys_sorted:
            line = ctasks_line(keys_sorted, by_key, [['ptasks', 'Flaky']], extra_types={('ptasks', 'Flaky'): ['p']})
            model_rows = parse_ctasks(driver.run_lines([line])[0])
            real_rows = [(pg.show(u), rm_token(u.result_meta) if u.result_meta is not None else None, u.cache_key) for u in got]
            if model_rows != real_rows:
                dis.append(dict(case=case, diff='cached_tasks after overwrites: model %s vs real %s' % (str(model_rows)[:300], str(real_rows)[:300])))
    finally:
        shutil.rmtree(d, ignore_errors=True)
    return viol, dis, facts


# =================================================================== re-imported modules

MOD_A = '''"""generated by the C09 check: the outer task type"""
from typing import Any
import labtech


@labtech.task
class Outer:
    parts: Any
    mode: Any

    def run(self):
        return 'outer'
'''
MOD_B = '''"""generated by the C09 check: nested task type and enum, re-imported during the scenario"""
from enum import Enum
from typing import Any
import labtech


class Color(Enum):
    X = 1
    Y = 2


@labtech.task
class Nested:
    x: Any

    def run(self):
        return 'nested'
'''


def reload_scenario(seed):
    """outer type in module A, nested task type and enum in module B; B is re-imported (importlib.reload)
    between two cached_tasks calls: the second must rebuild the tasks with B's current classes"""
    import importlib
    import sys
    import labtech
    from labtech.types import ResultMeta, TaskResult
    viol = []
    rp = dict(kind='reload')
    d = tempfile.mkdtemp(prefix='verif-c09r-')
    na, nb = 'vc09_a_%d_%d' % (os.getpid(), seed), 'vc09_b_%d_%d' % (os.getpid(), seed)
    sys.path.insert(0, d)
    try:
        open(os.path.join(d, na + '.py'), 'w').write(MOD_A)
        open(os.path.join(d, nb + '.py'), 'w').write(MOD_B)
        importlib.invalidate_caches()
        A, B = importlib.import_module(na), importlib.import_module(nb)

        def originals():
            return [A.Outer(parts=[B.Nested(x=1), {'k': B.Nested(x=B.Color.Y)}], mode=B.Color.X),
                    A.Outer(parts=(), mode={'m': [B.Color.Y, B.Nested(x=None)]})]
        lab = labtech.Lab(storage=os.path.join(d, 'store'), runner_backend='serial')
        for i, t in enumerate(originals()):
            type(t)._lt.cache.save(lab._storage, t, TaskResult(value=i, meta=ResultMeta(start=datetime(2024, 1, 1), duration=timedelta(seconds=1))))

        def check(phase):
            want = sorted(originals(), key=lambda t: t.cache_key)
            got = sorted(lab.cached_tasks([A.Outer]), key=lambda t: t.cache_key)
            if got != want:
                viol.append(dict(what=f'cached_tasks {phase}: returned tasks are not equal to the originals built from the current classes', replay=rp))
            for u in got:
                from labtech.tasks import find_tasks_in_param
                for f in ('parts', 'mode'):
                    for nested in find_tasks_in_param(getattr(u, f)):
                        if type(nested) is not B.Nested:
                            viol.append(dict(what=f'cached_tasks {phase}: a nested task is an instance of a stale class object, not of the module\'s current class', replay=rp))
                if isinstance(u.mode, Enum) and u.mode is not B.Color[u.mode.name]:
                    viol.append(dict(what=f'cached_tasks {phase}: an enum parameter is a member of a stale enum class', replay=rp))
        from enum import Enum
        check('before the re-import')
        old_nested = B.Nested
        importlib.reload(B)
        if B.Nested is old_nested:
            return [], 'importlib.reload did not rebind the class'
        check('after importlib.reload of the module defining the nested types')
        # a fresh Lab too
        lab = labtech.Lab(storage=os.path.join(d, 'store'), runner_backend='serial')
        check('after the re-import, fresh Lab')
    finally:
        sys.path.remove(d)
        sys.modules.pop(na, None)
        sys.modules.pop(nb, None)
        shutil.rmtree(d, ignore_errors=True)
    return viol, None


def f07_probe():
    """C09 on the input class of known finding F07 (a dict parameter with a truthy `_is_task`): reported, see run()"""
    import labtech
    import ptasks
    from labtech.types import ResultMeta, TaskResult
    d = tempfile.mkdtemp(prefix='verif-c09-')
    try:
        lab = labtech.Lab(storage=d, runner_backend='serial')
        t = ptasks.Exp(p={'_is_task': True, '__class__': 'ptasks.Leaf', 'x': 1})
        type(t)._lt.cache.save(lab._storage, t, TaskResult(value=1, meta=ResultMeta(start=datetime(2024, 1, 1), duration=timedelta(seconds=1))))
        try:
            got = lab.cached_tasks([ptasks.Exp])
            return 'returned equal task' if got == [t] and pg.show(got[0]) == pg.show(t) else 'returned a different task: ' + repr(got)[:120]
        except BaseException as e:
            return f'raised {type(e).__name__}'
    finally:
        shutil.rmtree(d, ignore_errors=True)


def d26_regression():
    """corpus-style regression for the repaired defect D26 (labtech 8be0759): a cached task with a parameter that is a
    member of an Enum class NESTED in another class (qualified name with a dot; one and two levels deep, an int-mixin
    one, directly / inside a list / a dict / a nested task) comes back from cached_tasks exactly once, equal, with the
    same cache_key; same-named enum classes of different holders stay different.  Returns a list of findings (empty =
    repaired)."""
    import labtech
    import ptasks
    import ptasks2
    from labtech.types import ResultMeta, TaskResult
    d = tempfile.mkdtemp(prefix='verif-c09-d26-')
    try:
        lab = labtech.Lab(storage=d, runner_backend='serial')
        tasks = [ptasks.Exp(p=ptasks.ModelA.Variant.SMALL), ptasks.Exp(p=ptasks.ModelB.Variant.SMALL), ptasks.Exp(p=ptasks.Variant.SMALL),
                 ptasks.Exp(p=ptasks2.ModelA.Variant.SMALL), ptasks.Exp(p=ptasks.Outer.Inner.Kind.OTHER),
                 ptasks.AltT(p=[ptasks.ModelA.Level.HIGH, {'k': ptasks.ModelB.Variant.LARGE}]),
                 ptasks.Box(a=ptasks.Leaf(x=ptasks.ModelA.Variant.LARGE), b={'m': (ptasks.Outer.Inner.Kind.SMALL,)})]
        if len({t.cache_key for t in tasks}) != len(tasks):
            return ['tasks whose parameters are members of different nested enum classes share a cache key']
        for i, t in enumerate(tasks):
            type(t)._lt.cache.save(lab._storage, t, TaskResult(value=i, meta=ResultMeta(start=datetime(2024, 1, 1), duration=timedelta(seconds=1))))
        try:
            got = lab.cached_tasks([ptasks.Exp, ptasks.AltT, ptasks.Box, ptasks.Leaf])
        except BaseException as e:
            return [f'cached_tasks raised {type(e).__name__}: {e}'[:160] + ' for stored tasks with nested-class Enum parameters']
        out = []
        want = sorted((t.cache_key, pg.show(t)) for t in tasks)
        have = sorted((u.cache_key, pg.show(u)) for u in got)
        if have != want:
            out.append(f'cached_tasks over tasks with nested-class Enum parameters returned {len(got)} tasks; {len([x for x in want if x not in have])} of the {len(want)} stored ones are missing or rebuilt differently')
        for u in got:
            if not any(u == t and hash(u) == hash(t) for t in tasks):
                out.append('a task rebuilt from an entry with a nested-class Enum parameter is not equal to the stored task')
                break
        return out
    except BaseException as e:
        return [f'storing tasks with nested-class Enum parameters raised {type(e).__name__}: {e}'[:200]]
    finally:
        shutil.rmtree(d, ignore_errors=True)


def f07c_probe():
    """C09 on the input class of known finding F07c (a str parameter that spells an astral character as two
    surrogate code points): reported, see run()"""
    import labtech
    import ptasks
    from labtech.types import ResultMeta, TaskResult
    d = tempfile.mkdtemp(prefix='verif-c09-')
    try:
        lab = labtech.Lab(storage=d, runner_backend='serial')
        t = ptasks.Exp(p=chr(0xD800) + chr(0xDC00))
        type(t)._lt.cache.save(lab._storage, t, TaskResult(value=1, meta=ResultMeta(start=datetime(2024, 1, 1), duration=timedelta(seconds=1))))
        try:
            got = lab.cached_tasks([ptasks.Exp])
            return 'returned equal task' if got == [t] else 'returned a different task: ' + ascii(got)[:120]
        except BaseException as e:
            return f'raised {type(e).__name__}'
    finally:
        shutil.rmtree(d, ignore_errors=True)


def run(ctx):
    import repro
    pr.quiet()
    t0 = time.time()
    rnd = random.Random(ctx['seed'])
    viol, dis = [], []
    dist = collections.Counter()
    if ctx.get('replay'):
        rp = json.load(open(ctx['replay']))['replay']
        if rp.get('kind') == 'overwrite':
            v, d, _ = run_overwrite(rp['case'])
            return dict(evaluations=1, distinct_nontrivial=0, rule=RULE, samples=[], violations=v, disagreements=d,
                        distribution={}, assumptions=[], explanation='replay of one failed-overwrite store')
        if rp.get('kind') == 'corpus-D26':
            v = [dict(what='D26 reproduction: ' + w, replay=dict(kind='corpus-D26')) for w in d26_regression()]
            return dict(evaluations=1, distinct_nontrivial=0, rule=RULE, samples=[], violations=v, disagreements=[],
                        distribution={}, assumptions=[], explanation='replay of the D26 regression (nested-class Enum parameters)')
        if rp.get('kind') == 'clsres':
            v, d, n = clsres.replay(rp)
            return dict(evaluations=n, distinct_nontrivial=0, rule=RULE, samples=[], violations=v, disagreements=d,
                        distribution={}, assumptions=[], explanation='replay of one class / enum-member resolution query on one package tree')
        if rp.get('kind') == 'reload':
            v, infra = reload_scenario(0)
            if infra:
                return dict(infra_error=infra)
            return dict(evaluations=1, distinct_nontrivial=0, rule=RULE, samples=[], violations=v, disagreements=[],
                        distribution={}, assumptions=[], explanation='replay of the re-import scenario')
        try:
            v, d, _ = run_store_safe(rp['case'])
        except RuntimeError as e:
            return dict(infra_error=str(e))
        return dict(evaluations=len(rp['case']['requests']), distinct_nontrivial=0, rule=RULE, samples=[], violations=v, disagreements=d,
                    distribution={}, assumptions=[], explanation='replay of one store')
    for rec in repro.run_many(['D6']):
        dist['corpus_D6_violated'] = int(bool(rec['violated']))
        if rec['violated'] is None:
            return dict(infra_error='repro D6: ' + str(rec['detail']))
        if rec['violated']:
            viol.append(dict(what='D6 reproduction: ' + str(rec['detail']), replay=dict(kind='corpus', id='D6')))
    d26 = d26_regression()
    dist['corpus_D26_violated'] = int(bool(d26))
    for w in d26:
        viol.append(dict(what='D26 reproduction: ' + w, replay=dict(kind='corpus-D26')))
    # class / enum-member resolution against its model (CLSRES), fresh interpreter per generated package tree
    cr = clsres.phase(ctx['seed'], ctx['tier'], proof_ok=ctx['proof_ok'])
    viol += cr['violations']
    dis += cr['disagreements']
    dist.update(cr['distribution'])
    dist['clsres:wall_s'] = round(cr['wall'], 1)
    probe = f07_probe()
    dist['f07_input_class_probe: ' + probe] = 1
    known_here = any(k.get('property') == 'C09' and k.get('match') == pr.KNOWN_F07
                     for k in json.load(open(os.path.join(os.path.dirname(pr.HERE), 'known_findings.json')))['known'])
    if probe != 'returned equal task' and known_here:
        viol.append(dict(what='dict parameter with a truthy _is_task key: cached_tasks ' + probe, replay=dict(kind='probe'), known_match=pr.KNOWN_F07))

    probe_c = f07c_probe()
    dist['f07c_input_class_probe: ' + probe_c] = 1
    if probe_c != 'returned equal task':
        viol.append(dict(what='str parameter that spells an astral character as two surrogate code points: cached_tasks ' + probe_c,
                         replay=dict(kind='probe'), known_match=pr.KNOWN_F07C))

    n_stores = 100 if ctx['tier'] == 'quick' else 800
    depth = 4 if ctx['tier'] == 'quick' else 6
    enlarged = False
    evaluations = cr['evaluations']
    nontrivial = 0
    samples = []
    # stores opened through a relative path, with a change of working directory: in child interpreters, meanwhile
    rel_rnd = random.Random(ctx['seed'] * 7919 + 5)
    rel_cases = []
    for i in range(24 if ctx['tier'] == 'quick' else 200):
        entries = [e for e in gen_store(rel_rnd, 3, rel_rnd.randrange(2, 9)) if not has_flagged(e[0])]
        rel_cases.append(dict(entries=entries, requests=gen_requests(rel_rnd)[2:4], rel=gen_rel(rel_rnd)))
    rel_workers = [start_rel_worker(rel_cases[i::2]) for i in range(2)]
    while True:
        for i in range(n_stores):
            entries = [e for e in gen_store(rnd, depth, rnd.randrange(5, 21)) if not has_flagged(e[0])]
            if i == 0 and pg.numpy_probes():
                # a store of the fixed constructor calls with numpy.float64 / numpy.str_ parameters (paramgen.numpy_probes)
                entries = [[s, False, 10 * j, 1.5] for j, s in enumerate(pg.numpy_probes())]
                dist['numpy_scalar_probe_entries'] = len(entries)
            case = dict(entries=entries, requests=gen_requests(rnd))
            v, d, facts = run_store_safe(case)
            evaluations += facts['requests']
            nontrivial += facts['nontrivial']
            for k, x in facts.items():
                dist[k] += x
            dist['store_size:%s' % ('1-8' if facts['entries'] <= 8 else '9-14' if facts['entries'] <= 14 else '15+')] += 1
            viol += v
            dis += d
            if len(samples) < 3 and facts['nontrivial']:
                samples.append(dict(entries=[pr.trim(e[0], 160) + (' [foreign format]' if e[1] else '') for e in entries[:6]], requests=case['requests'][:2]))
        for i in range(max(10, n_stores // 5)):
            case = gen_overwrite_case(rnd, depth)
            try:
                v, d, facts = run_overwrite(case)
            except Exception as e:
                v, d, facts = [dict(what=f'failed-overwrite store raised {type(e).__name__}: {e}'[:200], replay=dict(kind='overwrite', case=case))], [], collections.Counter()
            evaluations += facts['requests']
            for k, x in facts.items():
                dist['overwrite:' + k] += x
            viol += v
            dis += d
        if not enlarged:
            v, infra = reload_scenario(ctx['seed'])
            if infra:
                return dict(infra_error=infra)
            dist['reload_scenarios'] += 1
            evaluations += 3
            viol += v
        if (not ctx['proof_ok'] or dis) and not viol and not enlarged:
            enlarged = True
            n_stores *= 3
            continue
        break
    for w in rel_workers:
        try:
            for v, facts in finish_rel_worker(w):
                viol += v
                evaluations += facts['requests']
                for k, x in facts.items():
                    dist['relative_storage:' + k] += x
        except RuntimeError as e:
            return dict(infra_error=str(e))
    # shrink the first new alarms
    done = set()
    for v in viol:
        if v.get('known_match') or v['replay'].get('kind') != 'store' or v['what'][:40] in done or len(done) >= 2:
            continue
        done.add(v['what'][:40])
        v['replay'] = dict(kind='store', case=shrink_store(v['replay']['case'], v['what'][:30]))
    for v in viol:
        if v['replay'].get('kind') == 'overwrite' and not v.get('_shrunk'):
            want = v['what'][:40]
            cur = v['replay']['case']
            changed = True
            while changed and len(cur['specs']) > 1:
                changed = False
                for i in range(len(cur['specs'])):
                    c = dict(specs=cur['specs'][:i] + cur['specs'][i + 1:], fail=[j - (j > i) for j in cur['fail'] if j != i])
                    try:
                        if c['fail'] and any(x['what'][:40] == want for x in run_overwrite(c)[0]):
                            cur, changed = c, True
                            break
                    except Exception:
                        pass
            v['replay'] = dict(kind='overwrite', case=cur)
            break
    viol.sort(key=lambda v: 0 if (v['what'][:40] in done or v['replay'].get('kind') == 'clsres') else 1)
    return dict(
        evaluations=evaluations, distinct_nontrivial=nontrivial, rule=RULE, samples=samples + [dict(clsres=x) for x in cr['samples'][:1]],
        violations=viol, disagreements=dis[:50],
        distribution=dict(dist),
        assumptions=['types are used without inheritance (isinstance = same class)',
                     'entries are written by BaseCache.save with a start time and a duration (as run_tasks always does)',
                     'NaN and lone surrogates are not generated',
                     'stores opened through a relative path (with os.chdir between saving and listing) are checked by the monitors only, in a child interpreter; '
                     'the Lean model of cached_tasks has no notion of a working directory',
                     'instances of scalar subclasses / str-subclass dict keys are given to the Lean model as their base scalar / plain str',
                     'class resolution (CLSRES): import state is fresh (nothing of the package tree imported, no __init__ that binds a submodule '
                     'over a class name); class strings with an empty first component, enum name parts other than member names / plain ASCII '
                     'decimal numerals / letter words, Flag boundaries CONFORM and EJECT, negative flag values and multi-bit members with a bit '
                     'that no single-bit member names are not generated',
                     'the input class of known finding F07 (a dict parameter with a truthy _is_task/_is_enum entry) is excluded from the generated stores, '
                     f'it is outside wfValue; probed separately: cached_tasks {probe}. It is reported as KNOWN-FINDING only if known_findings.json lists it for C09'],
        explanation=f'{evaluations - cr["evaluations"]} cached_tasks calls over {dist["entries"]} stored entries in {time.time() - t0:.1f}s; every call also through the Lean model (CTASKS); {cr["evaluations"]} class / enum-member resolution queries on {dist.get("clsres:trees", 0)} generated package trees (CLSRES) in {cr["wall"]:.1f}s.')
