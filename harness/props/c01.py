"""C01 — run_tasks returns exactly each requested task's own computed result.

The scheduler part is `dagprop.run` (generated DAG cases, Lean run model, reference evaluator).  "That value never
depends on ... which results happened to be cached beforehand" also quantifies over cache pre-states that an earlier
run_tasks call left in a real storage: the history families of props/c06x.py (confusable tasks - ==-equal parameters of
different types, same-named enum classes, same-qualname task classes of two modules - run one after the other over one
storage; the __main__ script run twice; round trips through cached_tasks) are run alongside, and every violation they
label with C01 (a run_tasks return value that is not the task's own value) is reported here.

"Keys are exactly the requested tasks, in request order, each once" rests on `labtech.utils.OrderedSet`, which the run model
abbreviates as `dedup`: an extra phase (harness/osetrun.py) drives the real class and its own Lean model (Model/OSet.lean,
theorems `oset_*` of Props/C01.lean) on generated operation sequences; a difference is a correspondence break of C01."""
import threading

import osetrun
from props import c06x, dagprop

FAMILIES = ('confusable', 'round-trip')
NOTE = ('history families of props/c06x.py over a real storage (confusable-task sequences incl. same-named enum classes and '
        'same-qualname task classes of two modules; round trips through cached_tasks): a returned value must be the '
        "task's own value whatever an earlier call stored")


def run(ctx):
    if osetrun.replay_ops(ctx) is not None:
        return osetrun.replay_result(ctx)
    if c06x.replay_kind(ctx) in c06x.KINDS:
        return c06x.replay_result(c06x.run_for(ctx, 'C01', c06x.FAMILIES, 101))
    if ctx.get('replay') or not ctx['driver_ok']:
        return dagprop.run(ctx, 'C01')
    oset = osetrun.phase(ctx)
    if oset.get('disagreements'):
        # OrderedSet no longer is what the theorems are about: the scheduler search below runs enlarged
        ctx = dict(ctx, proof_ok=False)
    box = {}
    th = threading.Thread(target=c06x.run_for_thread, args=(ctx, 'C01', FAMILIES, 101, box))
    th.start()
    res = dagprop.run(ctx, 'C01')
    th.join()
    if 'x' not in box:
        return dict(infra_error='the history families did not finish')
    return osetrun.merge_into(c06x.merge_into(res, box['x'], NOTE), oset)
