"""C15 — tasks are immutable values with consistent equality, hashing and copying.

Correspondence: raw-value stream incl. malformed values (sets, bytes, objects, non-string keys at every
depth): real construction accept/reject + error class, normal form (exact types at every depth) and
get_direct_dependencies vs the Lean model (`normalize`, `directDeps`).
Monitors on the real objects: rejection iff (and with TaskError) the call has an unsupported value or a
non-string key somewhere; no list / dict left at any depth; frozen (FrozenInstanceError); equal and
equal-hash to a second build from equal parameters; unequal to the same parameters on another type; for
every pickle protocol the copy is equal, has the same hash, cache_key and dependencies, has
`_results_map`/`context`/`result_meta` = None although the original carried some, and has again what
`post_init` derives (also on nested tasks); the dependency search accepts the normal form.
Scalar-subclass instances (`class Celsius(float)`, str / int subclasses, numpy.float64 / numpy.str_) and str-subclass dict
keys ((str, Enum) / StrEnum members, a plain str subclass, numpy.str_) are part of the value grammar (paramgen 'sub', 'ks',
'ke') at every depth: they are supported values (immutable_param_value accepts them), so construction must succeed and
everything above holds for them; in addition (monitor-only, the model is given the base scalar / the plain str): the
normalised dict still answers d[key] for every key it was given, and the task is equal to - same hash, same cache_key, also
after pickling - the task built from the plain values they are == to.
Copies and the type's configuration (`limits_scenario`, task types of harness/cptasks.py that DECLARE max_parallel / cache /
mlflow_run / post_init): every task inside a copy made by pickle (every protocol, also a copy of a copy), copy.copy or
copy.deepcopy is of the same type and still reports, through `_lt`, what its type declares - the same max_parallel, a cache
of the same class and state, the same mlflow_run, the same post_init."""
import collections
import copy
import dataclasses
import json
import pickle
import random
import time

import paramgen as pg
import paramrun as pr

RULE = ('distinct generated constructor calls that either contain a list or dict to normalise below the top level or a nested task '
        '(accepted calls, depth >= 2), or are malformed at depth >= 1 (rejected calls)')

OTHER_TYPE = {('ptasks', 'Leaf'): ('ptasks2', 'Leaf'), ('ptasks2', 'Leaf'): ('ptasks', 'Leaf'), ('ptasks', 'Box'): ('ptasks2', 'Box'),
              ('ptasks2', 'Box'): ('ptasks', 'Box'), ('ptasks', 'Exp'): ('ptasks', 'Experiment'), ('ptasks', 'Experiment'): ('ptasks', 'Exp'),
              ('ptasks2', 'Exp'): ('ptasks', 'Exp'), ('ptasks', 'WithPost'): ('ptasks', 'NoCache'), ('ptasks', 'NoCache'): ('ptasks', 'AltT'),
              ('ptasks', 'AltT'): ('ptasks', 'WithPost'), ('ptasks', 'Étude'): ('ptasks2', 'Étude'),
              ('ptasks2', 'Étude'): ('ptasks', 'Étude'), ('ptasks', 'Archive'): ('ptasks', 'Exp')}


def key_lookup_alarms(spec, value, where='parameter'):
    """normalisation changes container types only: every dict of the constructor call is, at the same position of the
    constructed task, a mapping of the same size that answers d[key] for each key OBJECT it was given"""
    out = []
    t = spec[0]
    try:
        if t in ('list', 'tuple'):
            if len(value) == len(spec[1]):
                for i, s in enumerate(spec[1]):
                    out += key_lookup_alarms(s, value[i], where + '[%d]' % i)
        elif t in ('dict', 'fdict'):
            if len(value) != len(spec[1]):
                out.append(f'normalised dict {where} has {len(value)} entries, {len(spec[1])} were given')
            for k, s in spec[1]:
                ko = pg.key_obj(k)
                if ko not in value:
                    out.append(f'normalised dict no longer answers d[key] for a key it was given: {ko!r} at {where}; its keys are now {list(value)!r}'[:300])
                else:
                    out += key_lookup_alarms(s, value[ko], where + '[%r]' % (pg.key_str(k),))
        elif t == 'task':
            for f, s in spec[3]:
                out += key_lookup_alarms(s, getattr(value, f), where + '.' + f if where != 'parameter' else f)
    except Exception as e:
        out.append(f'reading the normalised parameter at {where} raised {type(e).__name__}: {e}'[:200])
    return out


def all_tasks_inside(t):
    from labtech.tasks import get_direct_dependency_instances
    out = [t]
    for d in get_direct_dependency_instances(t):
        out += all_tasks_inside(d)
    return out


_LAB = []


def null_lab():
    """a serial lab without storage (nothing is cached whatever the task type's cache is)"""
    if not _LAB:
        import labtech
        _LAB.append(labtech.Lab(storage=None, runner_backend='serial'))
    return _LAB[0]


def alarms(spec, real, protos, full=False):
    """monitors of one constructor call; returns list of strings (`full`: also the run_tasks monitor, which
    the generated stream applies to a fifth of the calls)"""
    try:
        return _alarms(spec, real, protos, full)
    except Exception as e:
        return [f'exercising the constructed task (==, hash, set/dict use, pickling) raised {type(e).__name__}: {e}'[:200]]


def _alarms(spec, real, protos, full):
    from labtech.exceptions import TaskError
    from labtech.tasks import get_direct_dependencies, find_tasks_in_param
    from labtech.types import ResultMeta
    out = []
    bad = pr.spec_bad(spec)
    if bad:
        if real['status'] == 'ok':
            out.append('an unsupported parameter value or non-string dict key was accepted')
        elif real['status'] != 'err TaskError':
            out.append(f"unsupported value rejected with {real['status'][4:]} instead of TaskError")
        return out
    if real['status'] != 'ok':
        out.append(f"a supported parameter tree was rejected: {real['status']}")
        return out
    t = real['task']
    fs = dataclasses.fields(t)
    for f in fs:
        if not pr.only_allowed_types(getattr(t, f.name)):
            out.append(f'field {f.name} still holds a list, dict or unsupported value after construction: {pg.show(getattr(t, f.name))[:80]}')
    out += key_lookup_alarms(spec, t)
    # frozen
    for name, val in ((fs[0].name, 1), ('brand_new_attribute', 1)):
        try:
            setattr(t, name, val)
            out.append(f'assignment to {name} did not raise')
        except dataclasses.FrozenInstanceError:
            pass
        except Exception as e:
            out.append(f'assignment to {name} raised {type(e).__name__}, not FrozenInstanceError')
    try:
        delattr(t, fs[0].name)
        out.append('deleting a field did not raise')
    except dataclasses.FrozenInstanceError:
        pass
    # equality / hash with an independently built copy, also from respelled parameters
    try:
        h = hash(t)
    except Exception as e:
        return out + [f'task is not hashable: {type(e).__name__}']
    for other_spec in (spec, pr.respell(spec, random.Random(len(real['nf'])))):
        u = pg.build(other_spec)
        if not (u == t and t == u and not (u != t)):
            out.append('task built from equal parameters is not equal')
        elif hash(u) != h:
            out.append('equal tasks have different hashes')
        if len({t, u}) != 1 or {t: 1}.get(u) != 1:
            out.append('equal tasks are not interchangeable as set/dict keys')
    # the same call with every scalar-subclass instance / str-subclass dict key replaced by the plain value it is == to
    plain = None
    if pr.has_subs(spec):
        tag = 'built from the plain values that its scalar-subclass parameters / str-subclass dict keys are == to'
        plain = pg.build(pr.respell(spec, random.Random(len(real['nf']) + 2), subs=True))
        if not (plain == t and t == plain and not (plain != t)):
            out.append('task is not equal to the task ' + tag)
        elif hash(plain) != h:
            out.append('task has another hash than the (equal) task ' + tag)
        elif len({t, plain}) != 1 or {t: 1}.get(plain) != 1 or {plain: 1}.get(t) != 1:
            out.append('task is not interchangeable as set member / dict key with the (equal) task ' + tag)
        if plain.cache_key != t.cache_key:
            out.append('task has another cache_key than the task ' + tag)
    # parameters that are == in Python but spelled differently for JSON (and get another cache key): dict items
    # in another insertion order at any depth; numerically equal scalars of another type; mixin enum member vs value
    rl = random.Random(len(real['nf']) + 1)
    alts = []
    for order_only in (True, False, False):
        alt = pr.pyeq_respell(spec, rl, order_only=order_only)
        if alt != spec and alt not in [a for a, _ in alts]:
            alts.append((alt, order_only))
    for alt, order_only in alts:
        u = pg.build(alt)
        if not (u == t and t == u):
            if order_only:
                out.append('tasks whose dict parameters differ only in key insertion order are not equal')
            continue   # whether 1 == True == 1.0 makes tasks equal is Python's business; only the consequences of == are checked
        if hash(u) != h:
            out.append('tasks that are == (parameters equal up to dict key order / numeric type) have different hashes')
        if len({t, u}) != 1 or {t: 1}.get(u) != 1 or {u: 1}.get(t) != 1:
            out.append('tasks that are == are not interchangeable as set members / dict keys')
        if full or len(real['nf']) % 5 == 0:
            res = null_lab().run_tasks([t, u], disable_progress=True, disable_top=True)
            if len(res) != 1 or t not in res or u not in res:
                out.append(f'run_tasks([a, b]) with a == b returned {len(res)} entries / not reachable through both')
            res = null_lab().run_tasks([t], disable_progress=True, disable_top=True)
            if u not in res:
                out.append('the result of run_tasks([a]) is not found under b although a == b')
    om = OTHER_TYPE.get((spec[1], spec[2]))
    if om and pg.TASK_TYPES[om] == [f for f, _ in spec[3]]:
        v = pg.build(['task', om[0], om[1], spec[3]])
        if v == t or t == v:
            out.append(f'task equals a task of another type ({om[0]}.{om[1]}) with the same parameters')
    # dependency search accepts the normal form
    try:
        deps = list(get_direct_dependencies(t))
        for f in fs:
            find_tasks_in_param(getattr(t, f.name))
    except Exception as e:
        return out + [f'dependency search rejects a constructed task: {type(e).__name__}']
    # pickling: give the original (and every nested task) runtime state first
    inside = all_tasks_inside(t)
    for x in inside:
        # (the context holds something that cannot be pickled, as a Lab context legally may under serial/fork)
        x.set_context({'big': 'CTX-MARKER-9f3', 'fn': (lambda: 0)})
        x._set_results_map({'some': 'MAP-MARKER-5c1'})
        x._set_result_meta(ResultMeta(start=None, duration=None))
    try:
        for proto in pr.usable_protos(spec, protos):
            try:
                blob = pickle.dumps(t, protocol=proto)
                u = pickle.loads(blob)
            except Exception as e:
                out.append(f'pickle round trip (protocol {proto}) of a task that carries a context raised {type(e).__name__}: {e}')
                continue
            if b'CTX-MARKER-9f3' in blob:
                out.append(f'the pickle (protocol {proto}) of a task carries its context with it')
            if b'MAP-MARKER-5c1' in blob:
                out.append(f'the pickle (protocol {proto}) of a task carries its results map with it')
            if not (u == t and hash(u) == h):
                out.append(f'pickled copy (protocol {proto}) is not equal / has another hash')
            if plain is not None and not (u == plain and plain == u and hash(u) == hash(plain)):
                out.append(f'pickled copy (protocol {proto}) is not equal to / hashes unlike the task built from the plain values '
                           'that the scalar-subclass parameters / str-subclass dict keys are == to')
            for a in key_lookup_alarms(spec, u):
                out.append(f'pickled copy (protocol {proto}): ' + a)
            if pg.show(u) != real['nf']:
                out.append(f'pickled copy (protocol {proto}) has another normal form (types changed)')
            if getattr(u, 'cache_key', None) != t.cache_key:
                out.append(f'pickled copy (protocol {proto}) has another cache_key')
            try:
                if [pg.show(d) for d in get_direct_dependencies(u)] != [pg.show(d) for d in deps]:
                    out.append(f'pickled copy (protocol {proto}) finds other dependencies')
            except Exception as e:
                out.append(f'dependency search on the pickled copy raised {type(e).__name__}')
            for x, y in zip(inside, all_tasks_inside(u)):
                where = 'copy' if x is t else 'nested task of the copy'
                out += lt_diffs(x, y, f'{where} (protocol {proto})')
                for attr in ('_results_map', 'context', 'result_meta'):
                    if not hasattr(y, attr):
                        out.append(f'{where} (protocol {proto}) has no attribute {attr}')
                    elif getattr(y, attr) is not None:
                        out.append(f'{where} (protocol {proto}) carries {attr} with it')
                if type(x).__qualname__ == 'WithPost':
                    if not hasattr(y, 'derived'):
                        out.append(f'{where} (protocol {proto}) lost what post_init derives')
                    elif y.derived != x.derived or pg.show(y.derived[1]) != pg.show(x.derived[1]):
                        out.append(f'{where} (protocol {proto}) derives something else in post_init')
    finally:
        for x in inside:
            x.set_context(None)
            x._set_results_map(None)
            x._set_result_meta(None)
    return out


def shape(v, depth=0):
    """canonical description of a configuration object: class names and plain attribute values, never addresses"""
    if isinstance(v, (str, int, float, bool, bytes, type(None))):
        return v
    if isinstance(v, (list, tuple)):
        return [shape(i, depth + 1) for i in v]
    if isinstance(v, dict):
        return {str(k): shape(i, depth + 1) for k, i in sorted(v.items(), key=lambda kv: str(kv[0]))}
    if depth >= 4 or not hasattr(v, '__dict__') or isinstance(v, type) or callable(v):
        return 'a ' + type(v).__qualname__ if not isinstance(v, type) else v.__qualname__
    return {'class': type(v).__qualname__, 'state': shape(dict(vars(v)), depth + 1)}


def plain_state(cache):
    return {k: v for k, v in vars(cache).items() if isinstance(v, (str, int, float, bool, type(None)))}


def lt_diffs(x, y, where, declared=None):
    """x: a task (original), y: the task at the same position of a copy. What the copy reports as its type's
    configuration (`_lt`: what the scheduler, the runners and the caches consult) must be what the type declares."""
    out = []
    if type(y) is not type(x):
        return [f'{where} is of type {type(y).__qualname__}, the original of type {type(x).__qualname__}']
    want = type(x)._lt
    try:
        got = y._lt
        got_mp, got_ml, got_cache, got_post = got.max_parallel, got.mlflow_run, got.cache, got.orig_post_init
    except Exception as e:
        return [f'{where}: reading its _lt raised {type(e).__name__}']
    tn = type(x).__qualname__
    if declared is not None:
        mp, cache_cls, cache_state, ml, post = declared
        have = plain_state(want.cache)
        if (want.max_parallel, type(want.cache).__name__, {k: have.get(k) for k in cache_state}, want.mlflow_run,
                want.orig_post_init is not None) != (mp, cache_cls, cache_state, ml, post):
            out.append(f'task type {tn} does not report what its decorator declares: max_parallel={want.max_parallel}, '
                       f'cache={type(want.cache).__name__}{plain_state(want.cache)}, mlflow_run={want.mlflow_run}')
    if got_mp != want.max_parallel:
        out.append(f'{where} (a {tn} task) reports max_parallel={got_mp} although its task type declares max_parallel={want.max_parallel}: '
                   "whoever is handed the copy no longer sees the type's limit")
    if type(got_cache) is not type(want.cache) or shape(got_cache) != shape(want.cache):
        out.append(f'{where} (a {tn} task) reports the cache {shape(got_cache)}, its task type declares {shape(want.cache)}')
    if got_ml != want.mlflow_run:
        out.append(f'{where} (a {tn} task) reports mlflow_run={got_ml}, its task type declares {want.mlflow_run}')
    if got_post != want.orig_post_init:
        out.append(f'{where} (a {tn} task) reports another post_init than its task type')
    return out


# =================================================================== copies and the type's declared configuration

def gen_limit_spec(rnd, depth):
    import cptasks
    kids = []
    if depth > 0:
        kids = [gen_limit_spec(rnd, depth - 1) for _ in range(rnd.choice([0, 1, 1, 2, 3]))]
    return [rnd.choice(cptasks.NAMES), rnd.choice([0, 1, 'a', None, 2.5, True]), kids]


def copy_ways(protos):
    ways = [('pickle protocol %d' % p, (lambda t, p=p: pickle.loads(pickle.dumps(t, protocol=p)))) for p in protos]
    ways.append(('pickle of a pickled copy', lambda t: pickle.loads(pickle.dumps(pickle.loads(pickle.dumps(t))))))
    ways.append(('copy.copy', copy.copy))
    ways.append(('copy.deepcopy', copy.deepcopy))
    ways.append(('copy.deepcopy of a pickled copy', lambda t: copy.deepcopy(pickle.loads(pickle.dumps(t)))))
    return ways


def limit_alarms(spec, protos):
    """monitors of one task graph over the declared-configuration types; list of strings"""
    import cptasks
    out = []
    try:
        t = cptasks.build(spec)
        inside = all_tasks_inside(t)
        h = hash(t)
    except Exception as e:
        return [f'building a task graph over the declared-configuration types raised {type(e).__name__}: {e}'[:200]]
    for x in inside:
        out += lt_diffs(x, x, 'a constructed task', cptasks.DECLARED[type(x).__qualname__])
    for how, fn in copy_ways(protos):
        try:
            u = fn(t)
            inside_u = all_tasks_inside(u)
            same = (u == t and hash(u) == h and u.cache_key == t.cache_key)
        except Exception as e:
            out.append(f'{how}: copying a task (or comparing / hashing / searching the copy) raised {type(e).__name__}: {e}'[:200])
            continue
        if not same:
            out.append(f'{how}: the copy is not equal to the original / has another hash or cache_key')
        if len(inside_u) != len(inside):
            out.append(f'{how}: the copy holds {len(inside_u)} tasks, the original {len(inside)}')
            continue
        for x, y in zip(inside, inside_u):
            where = f'{how}: the copy' if x is t else f'{how}: a nested task of the copy'
            out += lt_diffs(x, y, where, None)
            if type(x).__qualname__ == 'Lim3Post' and getattr(y, 'derived', None) != x.derived:
                out.append(f'{where} lost what post_init derives')
    return out


def limits_scenario(seed, protos, n):
    """returns (violations, number of graphs, number of copies checked)"""
    import cptasks
    rnd = random.Random(seed * 977 + 15)
    specs = [[name, 1, []] for name in cptasks.NAMES]
    specs += [gen_limit_spec(rnd, rnd.randrange(1, 4)) for _ in range(n)]
    viol, seen = [], set()
    for s in specs:
        for a in limit_alarms(s, protos):
            key = a[:70]
            if key in seen:
                continue
            seen.add(key)
            want = a[:40]
            small = shrink_limit_spec(s, lambda c: any(b[:40] == want for b in limit_alarms(c, protos)))
            viol.append(dict(what=a, replay=dict(kind='limits', spec=small)))
    return viol, len(specs), len(specs) * len(copy_ways(protos))


def shrink_limit_spec(spec, still, budget=40):
    cur = spec
    steps = 0
    changed = True
    while changed and steps < budget:
        changed = False
        cands = list(cur[2]) + [[cur[0], cur[1], cur[2][:i] + cur[2][i + 1:]] for i in range(len(cur[2]))]
        for c in cands:
            steps += 1
            if steps > budget:
                break
            try:
                ok = still(c)
            except Exception:
                ok = False
            if ok:
                cur = c
                changed = True
                break
    return cur


# =================================================================== pickle across interpreters

def xproc_items(specs, protos):
    """build, HASH (also every nested task), give runtime state, pickle with every protocol"""
    from labtech.tasks import get_direct_dependencies
    from labtech.types import ResultMeta
    items = []
    for s in specs:
        try:
            t = pg.build(s)
            inside = pr.tasks_inside(t)
            for x in inside:
                hash(x)
                {x: 1}
                x.set_context({'big': 'context'})
                x._set_results_map({'some': 'map'})
                x._set_result_meta(ResultMeta(start=None, duration=None))
            items.append(dict(spec=s, key=t.cache_key, deps=[pg.show(d) for d in get_direct_dependencies(t)],
                              blobs=[(p, pickle.dumps(t, protocol=p)) for p in pr.usable_protos(s, protos)]))
        except Exception as e:
            # the harness must not crash on what the code under test does: an accepted constructor call whose task
            # cannot be hashed / searched for dependencies / pickled is a finding about the code, not about the harness
            items.append(dict(spec=s, error=f'{type(e).__name__}: {e}'[:200]))
    return items


def xproc_round_trip(specs, protos, hashseeds):
    """returns (violations, infra_error)"""
    items = xproc_items(specs, protos)
    viol = [dict(what='hashing / dependency search / pickling of an accepted task raised ' + it['error'],
                 replay=dict(kind='xproc', spec=it['spec'], hashseed=hashseeds[0])) for it in items if 'error' in it]
    specs = [it['spec'] for it in items if 'error' not in it]
    items = [it for it in items if 'error' not in it]
    hs = [pr.start_unpickle_worker(items, h) for h in hashseeds]
    for h, seed in zip(hs, hashseeds):
        try:
            res = pr.finish_worker(h)
        except RuntimeError as e:
            return viol, str(e)
        for s, al in zip(specs, res):
            for a in al:
                viol.append(dict(what=a, replay=dict(kind='xproc', spec=s, hashseed=seed)))
    return viol, None


# =================================================================== a task type defined again under the same name

MOD_V1 = '''"""generated by the C15 check: first definition"""
from typing import Any
import labtech


@labtech.task(cache=None)
class Leaf:
    x: Any

    def run(self):
        return self.x * 10


@labtech.task(cache=None)
class T:
    a: Any

    def run(self):
        return self.a
'''
MOD_V2 = '''"""generated by the C15 check: second definition, T has a new task-valued parameter"""
from typing import Any
import labtech


@labtech.task(cache=None)
class Leaf:
    x: Any

    def run(self):
        return self.x * 10


@labtech.task(cache=None)
class T:
    a: Any
    dep: Any = None
    more: Any = ()

    def run(self):
        return self.a + self.dep.result + self.more[0].result + self.more[1]['k'].result
'''


def redefine_scenario(seed):
    """type T(a) is used (dependency search, run), then defined again under the same module and name with
    task-valued parameters (importlib.reload of an edited module): the dependency search must see them"""
    import importlib
    import os
    import shutil
    import sys
    import tempfile
    import labtech
    from labtech.tasks import get_direct_dependencies, get_direct_dependency_instances
    viol, dis = [], []
    rp = dict(kind='redefine')
    d = tempfile.mkdtemp(prefix='verif-c15r-')
    name = 'vc15_t_%d_%d' % (os.getpid(), seed)
    path = os.path.join(d, name + '.py')
    sys.path.insert(0, d)
    try:
        open(path, 'w').write(MOD_V1)
        importlib.invalidate_caches()
        M = importlib.import_module(name)
        lab = labtech.Lab(storage=None, runner_backend='serial')
        kw = dict(disable_progress=True, disable_top=True)
        t1 = M.T(a=1)
        if list(get_direct_dependencies(t1)) != [] or lab.run_tasks([t1], **kw).get(t1) != 1:
            return [], [], 'redefinition scenario: first definition does not behave as written'
        open(path, 'w').write(MOD_V2)
        importlib.invalidate_caches()
        old_T = M.T
        importlib.reload(M)
        if M.T is old_T:
            return [], [], 'importlib.reload did not rebind the class'
        spec = ['task', name, 'T', [['a', ['int', 2]], ['dep', ['task', name, 'Leaf', [['x', ['int', 3]]]]],
                                    ['more', ['list', [['task', name, 'Leaf', [['x', ['int', 4]]]], ['dict', [[['k', 'k'], ['task', name, 'Leaf', [['x', ['int', 3]]]]]]]]]]]]
        real = pr.observe(spec)
        m = pr.parse_model(pr.model_lines([spec])[0])
        for diff in pr.compare(spec, real, m):
            dis.append(dict(spec=spec, diff='after re-definition of the type: ' + diff))
        t2 = real['task']
        want = [M.Leaf(x=3), M.Leaf(x=4)]
        if list(get_direct_dependencies(t2)) != want:
            viol.append(dict(what='after the task type was defined again with task-valued parameters, get_direct_dependencies misses them '
                                  f'(found {list(get_direct_dependencies(t2))})', replay=rp))
        if get_direct_dependency_instances(t2) != [M.Leaf(x=3), M.Leaf(x=4), M.Leaf(x=3)]:
            viol.append(dict(what='after the task type was defined again, get_direct_dependency_instances misses task-valued parameters', replay=rp))
        u = pickle.loads(pickle.dumps(t2))
        if list(get_direct_dependencies(u)) != list(get_direct_dependencies(t2)):
            viol.append(dict(what='after the task type was defined again, a pickled copy and the original find different dependencies', replay=rp))
        try:
            res = lab.run_tasks([t2], **kw)
            if res.get(t2) != 2 + 30 + 40 + 30:
                viol.append(dict(what=f'running a task of the re-defined type returned {res.get(t2)!r} (its dependencies were not run first)', replay=rp))
        except BaseException as e:
            viol.append(dict(what=f'running a task of the re-defined type raised {type(e).__name__}: {e}'[:200], replay=rp))
    finally:
        sys.path.remove(d)
        sys.modules.pop(name, None)
        shutil.rmtree(d, ignore_errors=True)
    return viol, dis, None


def run_one(spec, protos):
    real = pr.observe(spec)
    m = pr.parse_model(pr.model_lines([spec])[0])
    return real, m, alarms(spec, real, protos, full=True), pr.compare(spec, real, m)


def run(ctx):
    import repro
    pr.quiet()
    t0 = time.time()
    rnd = random.Random(ctx['seed'])
    protos = list(range(0, pickle.HIGHEST_PROTOCOL + 1))
    viol, dis = [], []
    dist = collections.Counter()
    if ctx.get('replay'):
        rp = json.load(open(ctx['replay']))['replay']
        if rp.get('kind') == 'xproc':
            v, infra = xproc_round_trip([rp['spec']], protos, [rp.get('hashseed', 101), 202])
            if infra:
                return dict(infra_error=infra)
            return dict(evaluations=1, distinct_nontrivial=0, rule=RULE, samples=[rp], violations=v, disagreements=[],
                        distribution={}, assumptions=[], explanation='replay of one cross-interpreter pickle round trip')
        if rp.get('kind') == 'limits':
            return dict(evaluations=1, distinct_nontrivial=0, rule=RULE, samples=[rp],
                        violations=[dict(what=a, replay=rp) for a in limit_alarms(rp['spec'], protos)], disagreements=[],
                        distribution={}, assumptions=[], explanation='replay of one task graph over the declared-configuration types (copies)')
        if rp.get('kind') == 'redefine':
            v, d, infra = redefine_scenario(0)
            if infra:
                return dict(infra_error=infra)
            return dict(evaluations=1, distinct_nontrivial=0, rule=RULE, samples=[rp], violations=v, disagreements=d,
                        distribution={}, assumptions=[], explanation='replay of the type re-definition scenario')
        real, m, al, diffs = run_one(rp['spec'], protos)
        return dict(evaluations=1, distinct_nontrivial=0, rule=RULE, samples=[rp],
                    violations=[dict(what=a, replay=rp) for a in al], disagreements=[dict(spec=rp['spec'], diff=d) for d in diffs],
                    distribution={}, assumptions=[], explanation='replay of one constructor call')
    for rec in repro.run_many(['D13']):
        dist['corpus_D13_violated'] = int(bool(rec['violated']))
        if rec['violated'] is None:
            return dict(infra_error='repro D13: ' + str(rec['detail']))
        if rec['violated']:
            viol.append(dict(what='D13 reproduction: ' + str(rec['detail']), replay=dict(kind='corpus', id='D13')))
    n = 6000 if ctx["tier"] == "quick" else 60000
    depth = 4 if ctx['tier'] == 'quick' else 6
    enlarged = False
    evaluations = 0
    nontrivial = set()
    samples = []
    while True:
        specs = list(pg.numpy_probes())     # fixed constructor calls with numpy.float64 / numpy.str_ parameters
        dist['numpy_scalar_probes'] = len(specs)
        for i in range(n):
            mal = rnd.choice([0.0, 0.0, 0.03, 0.1])
            g = pg.Gen(rnd, max_depth=rnd.randrange(1, depth + 1), malformed=mal)
            types = None
            if rnd.random() < 0.25:
                types = [(k, v) for k, v in sorted(pg.TASK_TYPES.items()) if k[1] == 'WithPost']
            specs.append(g.task(0, types=types))
        reals = [pr.observe(s) for s in specs]
        models = [pr.parse_model(l) for l in pr.model_lines(specs)]
        evaluations += len(specs)
        for s, r, m in zip(specs, reals, models):
            st = pg.spec_stats(s)
            dist['status:' + r['status']] += 1
            dist['depth:%d' % st['depth']] += 1
            dist['malformed:%s' % ('none' if not (st['bad'] or st['xkeys']) else 'value' if not st['xkeys'] else 'key' if not st['bad'] else 'both')] += 1
            dist['nodes:%s' % ('1-5' if st['nodes'] <= 5 else '6-20' if st['nodes'] <= 20 else '21+')] += 1
            if st['lists'] or st['dicts']:
                dist['needs_normalising'] += 1
            if st['subs']:
                dist['with_scalar_subclass_instance'] += 1
            if st['skeys']:
                dist['with_str_subclass_dict_key'] += 1
            for d in pr.compare(s, r, m):
                dis.append(dict(spec=s, diff=d))
            for a in alarms(s, r, protos):
                viol.append(dict(what=a, replay=dict(kind='tree', spec=s)))
            if r['status'] == 'ok':
                dist['pickle_round_trips'] += len(pr.usable_protos(s, protos))
                if r['pyeq_collapse']:
                    dist['deps_python_equal_but_type_distinct'] += 1
                if st['depth'] >= 2 and (st['tasks'] >= 2 or st['lists'] + st['dicts'] >= 1):
                    nontrivial.add(r['nf'])
                    if len(samples) < 2:
                        samples.append(dict(call=pr.trim(s), normal_form=r['nf'][:300], deps=len(r['deps'])))
            elif st['depth'] >= 1:
                nontrivial.add(json.dumps(s))
                if len(samples) < 4 and st['depth'] >= 2:
                    samples.append(dict(call=pr.trim(s), real=r['status'], model=m['status']))
        if (not ctx['proof_ok'] or dis) and not viol and not enlarged:
            enlarged = True
            n, depth = n * 3, depth + 1
            continue
        break
    # pickled copies in other interpreters (other str-hash seeds): tasks hashed before pickling
    xs = [s for s, r in zip(specs, reals) if r['status'] == 'ok' and (lambda st: st['tasks'] >= 2 or st['enums'] or st['nodes'] >= 3)(pg.spec_stats(s))]
    xs = xs[:400 if ctx['tier'] == 'quick' else 4000]
    v, infra = xproc_round_trip(xs, protos, [101, 202])
    if infra:
        return dict(infra_error=infra)
    dist['cross_interpreter_round_trips'] += len(xs) * len(protos) * 2
    evaluations += len(xs)
    viol += v
    v, n_graphs, n_copies = limits_scenario(ctx['seed'], protos, 150 if ctx['tier'] == 'quick' else 1500)
    dist['declared_configuration_graphs'] += n_graphs
    dist['declared_configuration_copies_checked'] += n_copies
    evaluations += n_graphs
    viol += v
    v, d, infra = redefine_scenario(ctx['seed'])
    if infra:
        return dict(infra_error=infra)
    dist['redefinition_scenarios'] += 1
    evaluations += 1
    viol += v
    dis += d
    for xv in viol:
        if xv['replay'].get('kind') == 'xproc':
            want = xv['what'][:40]
            seed_x = xv['replay']['hashseed']
            xv['replay'] = dict(kind='xproc', hashseed=seed_x, spec=pg.shrink(
                xv['replay']['spec'], lambda c: any(w['what'][:40] == want for w in xproc_round_trip([c], protos, [seed_x])[0]), budget=25))
            break
    # shrink
    shrunk = []
    seen = set()
    for v in viol:
        if v['what'][:60] in seen or v['replay'].get('kind') != 'tree' or len(shrunk) >= 3:
            continue
        seen.add(v['what'][:60])
        want = v['what'][:30]

        def still(c, want=want):
            return any(a.startswith(want) for a in alarms(c, pr.observe(c), protos, full=True))
        v['replay'] = dict(kind='tree', spec=pg.shrink(v['replay']['spec'], still))
        shrunk.append(v)
    viol = shrunk + [v for v in viol if v not in shrunk]
    for rec in dis[:3]:
        def still(c, want=rec['diff'][:25]):
            r = pr.observe(c)
            m = pr.parse_model(pr.model_lines([c])[0])
            return any(d.startswith(want) for d in pr.compare(c, r, m))
        rec['spec'] = pg.shrink(rec['spec'], still)
    return dict(
        evaluations=evaluations, distinct_nontrivial=len(nontrivial), rule=RULE, samples=samples, violations=viol,
        disagreements=dis[:50], distribution=dict(dist),
        assumptions=['NaN is not generated', 'ordering (<) between tasks is not part of the property and is not checked',
                     'pickle is the identity on parameter values (checked here for every protocol by type-exact comparison of the copy)',
                     "post_init is a deterministic function of the task's fields (ptasks.WithPost)",
                     'tasks of (or holding a task of) a type whose name has a non-ASCII letter are pickled with protocols >= 3 only (CPython cannot '
                     'write a non-ASCII class reference with protocols 0-2)',
                     'numpy scalars (numpy.float64, numpy.str_) are exercised in fixed constructor calls only (paramgen.numpy_probes), never where a task of '
                     'the same type holds a tuple in the same field: numpy scalars compare element-wise with sequences, so == between two such tasks (e.g. in '
                     "run_tasks' cycle check) raises ValueError or is true for a 1-tuple - numpy's semantics; numpy.str_ values do not end in NUL (numpy strips "
                     'trailing NULs when it unpickles its own scalar)'],
        explanation=f'{evaluations} constructor calls ({dist["status:err TaskError"]} rejected) in {time.time() - t0:.1f}s; '
                    f'{dist["pickle_round_trips"]} pickle round trips over protocols {protos}.')
