"""Shared runner for the scheduler properties (C01-C05, C10, C11, C17): all of them explore generated DAG
cases on the real code under the fake-process layer, compare the property's projection of the
observation with the Lean run model, and apply the property's own monitor."""
import copy
import json
import os
import shutil
import tempfile

import dagrun
import realmon

PROJECTION = {
    # which parts of the observation the property's theorems talk about
    'C01': ('Y', 'status', 'execs'),
    'C02': ('S', 'B', 'Y', 'execs'),
    'C03': ('P', 'S', 'execs', 'marked'),
    'C04': ('S', 'B', 'W', 'Y'),
    'C05': ('P', 'S', 'B', 'W', 'Y'),
    'C10': ('B', 'Y', 'status', 'store'),
    'C11': ('S', 'W', 'Y', 'status', 'pending', 'active'),
    'C17': ('Y', 'R', 'results'),
}

CORPUS = {'C01': ['D9'], 'C02': ['D2', 'D9'], 'C03': ['D9'], 'C10': ['D1', 'D2', 'D16', 'D23'], 'C11': ['D24'], 'C17': ['D3']}

RULES = {
    'C01': 'distinct generated DAG cases in which every task of the closure succeeds, the pre-cached entries are sound and the closure has >= 2 tasks',
    'C02': 'distinct cases in which at least one executed task has a dependency',
    'C03': 'distinct cases with duplicated equal task objects in the request graph or a warm cache entry inside the closure',
    'C04': 'distinct cases with a wait at which a per-type limit or the worker limit actually held back a dependency-free task',
    'C05': 'distinct cases with a wait at which a per-type limit or the worker limit actually held back a dependency-free task',
    'C10': 'distinct cases in which some task of the closure fails, dies or cannot read a failed dependency',
    'C11': 'distinct cases whose closure has >= 2 tasks',
    'C17': 'distinct cases with a release step that keeps a still-needed result or releases >= 2 results',
}


def project(obs, kinds):
    out = []
    for seg in obs.split('; '):
        head = seg.split('=')[0] if (seg[:1].islower()) else seg.split(' ')[0]
        if head in kinds:
            out.append(seg)
    return '; '.join(out)


def run_single(case):
    import dagcase
    import dagmon
    import driver
    wd = tempfile.mkdtemp(prefix='verif-dag1-')
    try:
        obs, recs = dagcase.run_real(case, wd)
        viol = {}
        if case.get('ext'):
            return obs, obs, {'C03': dagmon.monitor_ext(case, recs[0])}
        if case.get('extdel') is not None:
            return obs, obs, dagmon.monitor_extdel(case, recs[0])[0]
        if case.get('poison'):
            return obs, obs, {'C03': dagmon.monitor_poison(case, recs[0]), 'C02': dagmon.monitor_poison_c02(case, recs[0])}
        for r in recs:
            v, _ = dagmon.monitor(dagmon.phase_case(case, r), r)
            for pid, vs in v.items():
                viol.setdefault(pid, []).extend(vs)
        model = driver.run_lines([dagcase.encode(case)])[0]
        return obs, model, viol
    finally:
        shutil.rmtree(wd, ignore_errors=True)


def shrink(case, pid, budget=60):
    """greedy: keep a smaller case while the same property's monitor still fires"""
    def bad(c):
        try:
            _, _, viol = run_single(c)
            return bool(viol.get(pid))
        except Exception:
            return False
    cur = case
    steps = 0
    changed = True
    while changed and steps < budget:
        changed = False
        cands = []
        for i in range(len(cur['req'])):
            if len(cur['req']) > 1:
                c = copy.deepcopy(cur); del c['req'][i]; cands.append(c)
        if cur['sched']:
            c = copy.deepcopy(cur); c['sched'] = []; cands.append(c)
            c = copy.deepcopy(cur); c['sched'] = cur['sched'][:len(cur['sched']) // 2]; cands.append(c)
        for t in list(cur['pre']):
            c = copy.deepcopy(cur); del c['pre'][t]; cands.append(c)
        for t, f in enumerate(cur['fl']):
            if f:
                c = copy.deepcopy(cur); c['fl'][t] = 0; cands.append(c)
        if cur.get('second'):
            c = copy.deepcopy(cur); del c['second']; cands.append(c)
        if cur['ctx']:
            c = copy.deepcopy(cur); c['ctx'] = 0; cands.append(c)
        if cur['bust']:
            c = copy.deepcopy(cur); c['bust'] = 0; cands.append(c)
        if cur.get('sub'):
            c = copy.deepcopy(cur); del c['sub']; cands.append(c)
        if cur.get('pk'):
            c = copy.deepcopy(cur); del c['pk']; cands.append(c)
            if cur['pk'] != 1:
                c = copy.deepcopy(cur); c['pk'] = 1; cands.append(c)
        for c in cands:
            steps += 1
            if steps > budget:
                break
            if bad(c):
                cur = c
                changed = True
                break
    return cur


def corpus_cases():
    path = os.path.join(os.path.dirname(os.path.dirname(os.path.abspath(__file__))), 'corpus', 'dag.json')
    if os.path.exists(path):
        return json.load(open(path))
    return []


def run(ctx, pid):
    tier, seed = ctx['tier'], ctx['seed']
    kinds = PROJECTION[pid]
    if ctx.get('replay'):
        rp = json.load(open(ctx['replay']))
        case = (rp.get('replay') or {}).get('case')
        if case is None:
            return dict(infra_error='replay file holds no DAG case (it names a broken theorem/correspondence)')
        if (rp.get('replay') or {}).get('kind') == 'real-dag':
            recs, errs = realmon.run_jobs([dict(index=0, case=case, top=rp['replay'].get('top', False))], 1, 120)
            if not recs:
                return dict(infra_error='; '.join(errs))
            vs = realmon.monitor(dagrun.normalise(case), recs[0]).get(pid, [])
            return dict(evaluations=1, distinct_nontrivial=1, rule='replay of one recorded real-backend case',
                        samples=[recs[0]['status']], violations=[dict(what=w, replay=rp['replay']) for w in vs], disagreements=[])
        dagrun_case = dagrun.normalise(case)
        obs, model, viol = run_single(dagrun_case)
        res = dict(evaluations=1, distinct_nontrivial=1, rule='replay of one recorded case', samples=[obs[:500]],
                   violations=[dict(what=v, replay=dict(kind='dag', case=case)) for v in viol.get(pid, [])],
                   disagreements=[] if project(obs, kinds) == project(model, kinds) else [dict(real=obs, model=model)])
        return res
    if not ctx['driver_ok']:
        return dict(infra_error=None, evaluations=0, disagreements=[dict(diff='driver does not build')], violations=[])
    n_cases = 3000 if tier == "quick" else 40000
    max_tids = 8 if tier == 'quick' else 14
    workers = 12 if tier == 'quick' else 16
    rep = dagrun.explore(seed=seed, n_cases=n_cases, max_tids=max_tids, workers=workers, corpus=corpus_cases())
    if rep['worker_errors'] and rep['evaluations'] == 0:
        return dict(infra_error='; '.join(rep['worker_errors']))
    # real fork / spawn / serial workers (no schedule control, task monitor on and off)
    real = realmon.explore(seed, 48 if tier == 'quick' else 800, workers=12 if tier == 'quick' else 16,
                           timeout=300 if tier == 'quick' else 1500)
    rep['evaluations'] += real['evaluations']
    rep['dist'].update(real['dist'])
    rep['worker_errors'] += real['errors']
    real_kinds = {'C01': ('status', 'execs', 'store'), 'C02': ('execs',), 'C03': ('execs', 'marked'),
                  'C10': ('status', 'store'), 'C11': ('status',), 'C17': (), 'C04': (), 'C05': ()}[pid]
    dis = [d for d in rep['disagreements'] if project(d['real'], kinds) != project(d['model'], kinds)]
    dis += [d for d in real['disagreements'] if project(d['real'], real_kinds) != project(d['model'], real_kinds)]
    viol = [v for v in rep['violations'] if v['property'] == pid]
    viol += [v for v in real['violations'] if v['property'] == pid]
    if (dis or not ctx['proof_ok']) and not viol:
        # enlarged failing-input search: more cases, larger sizes, another seed stream
        rep2 = dagrun.explore(seed=seed + 7919, n_cases=n_cases * 3, max_tids=max_tids + 2, workers=16)
        viol = [v for v in rep2['violations'] if v['property'] == pid]
        rep['evaluations'] += rep2['evaluations']
    out_v = []
    # regression corpus: the minimised defects that were repaired must stay repaired
    if CORPUS.get(pid):
        import repro
        for r in repro.run_many(CORPUS[pid]):
            if r.get('violated'):
                out_v.append(dict(what=f"corpus {r['id']}: {r['detail']}", replay=dict(kind='corpus', id=r['id'])))
        rep['dist']['corpus_replayed'] = CORPUS[pid]
    if viol and 'top' in viol[0]:
        # found on a real backend: the recorded case is the replay (re-run with: ./check <ID> --replay)
        out_v.append(dict(what=viol[0]['what'], replay=dict(kind='real-dag', case=viol[0]['case'], top=viol[0]['top'],
                                                            line=viol[0]['line'], real=viol[0]['real'])))
    elif viol:
        small = shrink(dagrun.normalise(viol[0]['case']), pid)
        obs, model, vs = run_single(small)
        what = (vs.get(pid) or [viol[0]['what']])[0]
        out_v.append(dict(what=what, replay=dict(kind='dag', case=small, line=__import__('dagcase').encode(small),
                                                  real=obs, model=model)))
    return dict(
        evaluations=rep['evaluations'], distinct_nontrivial=rep['nontrivial'].get(pid, 0), rule=RULES[pid],
        samples=rep['samples'][:3], violations=out_v,
        disagreements=[dict(line=d['line'], diff=d['diff'], real=project(d['real'], kinds), model=project(d['model'], kinds)) for d in dis[:5]],
        distribution=dict(rep['dist'], hash_seeds=rep['hashseeds'], worker_errors=rep['worker_errors'],
                          projection=list(kinds)),
        assumptions=['fake-process layer: a worker runs at process start in a forked helper and its outcome is released by the schedule; real fork/spawn workers are exercised by C16',
                     'task bodies are the deterministic family in harness/dagtasks.py'],
        explanation='real TaskState/TaskCoordinator/ProcessExecutor/ProcessRunner/SerialRunner/caches/LocalStorage driven through a schedule-controlling spy; observation projected to ' + ','.join(kinds) + ' and compared with the Lean run model; monitors check the property directly on the real trace',
    )
