"""C16 — each task runs in the environment its backend and context promise.
Real serial / fork / spawn workers only (no fake layer): run() records pid, parent pid, thread, start
method, a parent-mutated module global and self.context; compared with the Env model (driver word ENV)
and checked directly by the monitor. Context non-interference: the same tasks under two different
contexts must have the same cache keys and the same stored metadata."""
import json
import os
import random
import shutil
import signal
import subprocess
import sys
import tempfile
import time

HERE = os.path.dirname(os.path.dirname(os.path.abspath(__file__)))
REPO = os.environ.get('VERIF_REPO', '/repo')


def gen_job(rng, backend):
    n = rng.randint(1, 4)
    deps, kinds, keys = [], [], []
    ctx_keys = ['a', 'b', 'c'][:rng.choice([0, 1, 2, 3, 3])]   # 0: the Lab's context is empty ({} or None)
    for k in range(n):
        d = sorted(set(rng.randrange(k) for _ in range(rng.randint(0, 2)))) if k else []
        deps.append(d)
        kind = rng.choice(['leaf', 'sub', 'sub', 'cached', 'count'])
        if kind == 'leaf' and d:
            kind = 'sub'
        kinds.append(kind)
        keys.append(sorted(rng.sample(ctx_keys + ['zz'], rng.randint(0, len(ctx_keys)))))
    return dict(n=n, deps=deps, kinds=kinds, keys=keys, req=list(range(n)), backend=backend,
                mw=rng.choice([1, 2, None]), context=[[k, rng.randint(1, 9)] for k in ctx_keys],
                mark=rng.randint(1, 99), ctx_none=(not ctx_keys and rng.random() < 0.5))


def run_workers(jobs_per_worker, timeout):
    tmp = tempfile.mkdtemp(prefix='verif-c16run-')
    procs = []
    out = []
    errors = []
    try:
        for w, jobs in enumerate(jobs_per_worker):
            jp, op = os.path.join(tmp, f'j{w}.json'), os.path.join(tmp, f'o{w}.json')
            json.dump(jobs, open(jp, 'w'))
            lf = open(os.path.join(tmp, f'l{w}.txt'), 'w')
            env = dict(os.environ, PYTHONPATH=REPO + os.pathsep + HERE, PYTHONHASHSEED=str(w + 1))
            procs.append((w, op, lf, subprocess.Popen(
                [sys.executable, os.path.join(HERE, 'c16_worker.py'), jp, op], stdout=lf, stderr=subprocess.STDOUT,
                stdin=subprocess.DEVNULL, start_new_session=True, env=env, cwd=HERE)))
        deadline = time.time() + timeout
        for w, op, lf, p in procs:
            try:
                p.wait(timeout=max(1, deadline - time.time()))
            except subprocess.TimeoutExpired:
                errors.append(f'worker {w} timed out')
            try:
                os.killpg(p.pid, signal.SIGKILL)
            except ProcessLookupError:
                pass
            p.wait()
            lf.close()
            if os.path.exists(op):
                out += json.load(open(op))
            else:
                errors.append(f'worker {w}: no output: ' + open(lf.name).read()[-600:])
        return out, errors
    finally:
        shutil.rmtree(tmp, ignore_errors=True)


def expected_context(job, k):
    ctx = {a: b for a, b in job['context']}
    if job['kinds'][k] in ('leaf', 'cached'):
        return ctx
    if job['kinds'][k] == 'count':
        return dict(ctx, depth=1)
    return {key: ctx[key] for key in job['keys'][k] if key in ctx}


def monitor(rec):
    """direct check of the property on one real run"""
    job = rec['job']
    v = []
    if job.get('two_labs'):
        for k, o in rec.get('two_labs_seen', {}).items():
            if o['saw'] != o['lab']:
                v.append(f"{job['backend']}: two Labs alive at once: task {k} of Lab {o['lab']} saw the context of Lab {o['saw']}")
        for tag, e in rec.get('two_labs_errors', {}).items():
            v.append(f"{job['backend']}: two Labs alive at once: Lab {tag} failed with {e}")
        if len(rec.get('two_labs_seen', {})) != 4 and not rec.get('two_labs_errors'):
            v.append(f"{job['backend']}: two Labs alive at once: only {len(rec.get('two_labs_seen', {}))} of 4 tasks returned")
        return v
    if rec['status'] != 'returned':
        return ['run_tasks ' + rec['status']]
    caller = rec['caller']
    pids = []
    for ks, o in rec['results'].items():
        k = int(ks)
        if job['kinds'][k] == 'cached':
            continue
        want = expected_context(job, k)
        if o['context'] != want:
            v.append(f"{job['backend']}: task {k} saw context {o['context']}, its filter_context gives {want}")
        b = job['backend']
        if b == 'serial':
            if o['pid'] != caller['pid'] or not o['main_thread'] or o['thread_id'] != caller['thread_id']:
                v.append(f'serial: task {k} did not run in the caller\'s process and thread')
        else:
            pids.append(o['pid'])
            if o['pid'] == caller['pid']:
                v.append(f'{b}: task {k} ran inside the caller process')
            if o['ppid'] != caller['pid']:
                v.append(f'{b}: task {k} worker is not a child of the caller')
            if b == 'fork' and o['mark'] != job['mark']:
                v.append(f'fork: task {k} does not see the caller\'s memory (global={o["mark"]}, caller has {job["mark"]})')
            if b == 'spawn' and (o['mark'] != 0 or o['start_method'] != 'spawn'):
                v.append(f'spawn: task {k} is not a fresh interpreter (global={o["mark"]}, start method {o["start_method"]})')
    if len(set(pids)) != len(pids):
        v.append(f"{job['backend']}: two tasks shared one worker process")
    if rec['keys'] != rec['keys_after']:
        v.append('cache_key changed during the run')
    return v


def model_line(job):
    return f"ENV view {job['backend']} 0 {job['mark']} {job['mark']} 0"


def observed_line(rec, k):
    o = rec['results'][str(k)]
    job = rec['job']
    where = 'caller' if o['pid'] == rec['caller']['pid'] else 'child'
    start = '-' if job['backend'] == 'serial' else (o['start_method'] or 'fork')
    ctx = 'filtered' if o['context'] == expected_context(job, k) else 'WRONG'
    return f"where={where} start={start} view={o['mark']} ctx={ctx}"


def selection_cases():
    """Lab.__init__ backend selection vs the model's decision table (in-process, cheap)"""
    import labtech
    import labtech.lab as L
    from labtech.exceptions import LabError
    import driver
    cases = []
    for arg in [None, 'fork', 'spawn', 'serial', 'bogus', 'FORK', 'thread']:
        for methods in (['fork', 'spawn', 'forkserver'], ['spawn'], ['forkserver'], ['spawn', 'fork']):
            cases.append((arg, methods))
    orig = L.get_all_start_methods
    dis = []
    lines = [f"ENV sel {arg if arg is not None else '-'} {','.join(m)}" for arg, m in cases]
    model = driver.run_lines(lines)
    try:
        for (arg, methods), line, mo in zip(cases, lines, model):
            L.get_all_start_methods = lambda methods=methods: list(methods)
            try:
                lab = labtech.Lab(storage=None, runner_backend=arg)
                name = type(lab.runner_backend).__name__
                real = 'ok ' + {'ForkRunnerBackend': 'fork', 'SpawnRunnerBackend': 'spawn', 'SerialRunnerBackend': 'serial'}.get(name, name)
            except LabError as e:
                real = 'LabError ' + ('unrecognised' if 'Unrecognised' in str(e) else 'unsupported-default')
            if real != mo:
                dis.append(dict(line=line, real=real, model=mo))
    finally:
        L.get_all_start_methods = orig
    return len(cases), dis


def run(ctx):
    import driver
    tier, seed = ctx['tier'], ctx['seed']
    if ctx.get('replay'):
        job = json.load(open(ctx['replay'])).get('replay', {}).get('job')
        if job is None:
            return dict(infra_error='replay file holds no C16 job')
        recs, errs = run_workers([[job]], 120)
        if errs:
            return dict(infra_error='; '.join(errs))
        vs = monitor(recs[0])
        return dict(evaluations=1, distinct_nontrivial=1, rule='replay', samples=[recs[0]['job']],
                    violations=[dict(what=w, replay=dict(job=job)) for w in vs], disagreements=[])
    if not ctx['driver_ok']:
        return dict(evaluations=0, violations=[], disagreements=[dict(diff='driver does not build')])
    rng = random.Random(seed)
    n_jobs = 36 if tier == 'quick' else 400
    nworkers = 12 if tier == 'quick' else 16
    jobs = []
    for i in range(n_jobs):
        be = ['serial', 'fork', 'spawn'][i % 3]
        j = gen_job(rng, be)
        jobs.append(j)
        if i % 4 == 0:  # same tasks under another context and another global value
            j2 = json.loads(json.dumps(j))
            j2['context'] = [[k, v + 10] for k, v in j['context']]
            j2['mark'] = j['mark'] + 100
            j2['pair_of'] = len(jobs) - 1
            jobs.append(j2)
    for be in ('fork', 'spawn', 'serial'):
        jobs.append(dict(two_labs=True, backend=be, n=4, deps=[], kinds=[], keys=[], req=[], mw=1, context=[], mark=0))
    per = [[] for _ in range(nworkers)]
    for i, j in enumerate(jobs):
        j['index'] = i
        per[i % nworkers].append(j)
    recs, errs = run_workers(per, 240 if tier == 'quick' else 1500)
    if errs and not recs:
        return dict(infra_error='; '.join(errs))
    by_index = {r['job']['index']: r for r in recs}
    violations, disagreements, samples = [], [], []
    nontrivial = set()
    dist = {}
    lines, where = [], []
    for r in recs:
        job = r['job']
        if job.get('two_labs'):
            dist['two_labs_alive_at_once'] = dist.get('two_labs_alive_at_once', 0) + 1
            for w in monitor(r):
                violations.append(dict(what=w, replay=dict(job=job)))
            continue
        dist['backend=' + job['backend']] = dist.get('backend=' + job['backend'], 0) + 1
        dist['tasks=%d' % job['n']] = dist.get('tasks=%d' % job['n'], 0) + 1
        dist['max_workers=%s' % job['mw']] = dist.get('max_workers=%s' % job['mw'], 0) + 1
        for w in monitor(r):
            violations.append(dict(what=w, replay=dict(job=job)))
        if job['n'] >= 2 or any(k in ('sub', 'count') for k in job['kinds']):
            nontrivial.add(json.dumps([job['backend'], job['n'], job['deps'], job['kinds'], job['keys'], job['mw']]))
        if r['status'] == 'returned':
            for ks in r['results']:
                if job['kinds'][int(ks)] != 'cached':
                    lines.append(model_line(job))
                    where.append((r, int(ks)))
        if 'pair_of' in job and job['pair_of'] in by_index:
            a = by_index[job['pair_of']]
            if a['keys'] != r['keys']:
                violations.append(dict(what='cache keys differ between two contexts', replay=dict(job=job)))
            if a['stored'] != r['stored']:
                violations.append(dict(what='stored cache entries (keys / metadata documents) differ between two contexts',
                                       replay=dict(job=job)))
            dist['context_pairs'] = dist.get('context_pairs', 0) + 1
        if len(samples) < 3:
            samples.append(dict(job={k: job[k] for k in ('backend', 'n', 'deps', 'kinds', 'keys', 'mw', 'context', 'mark')},
                                observed={ks: {a: o[a] for a in ('context', 'mark', 'start_method', 'main_thread')}
                                          for ks, o in r['results'].items() if isinstance(o, dict) and 'mark' in o}))
    model = driver.run_lines(lines)
    for (r, k), mo in zip(where, model):
        ob = observed_line(r, k)
        if ob != mo:
            disagreements.append(dict(job=r['job'], task=k, real=ob, model=mo))
    nsel, seldis = selection_cases()
    disagreements += seldis
    # regression corpus
    import repro
    for rec in repro.run_many(['D4']):
        if rec.get('violated'):
            violations.append(dict(what='corpus D4: ' + str(rec['detail']), replay=dict(corpus='D4')))
    dist['worker_errors'] = errs
    dist['backend_selection_cases'] = nsel
    return dict(
        evaluations=len(recs) + nsel, distinct_nontrivial=len(nontrivial),
        rule='real runs (serial, really forked, really spawned workers) of generated 1-4 task DAGs x max_workers x context filters; non-trivial = distinct (backend, DAG, filters, workers) with >= 2 tasks or a per-parameter context filter',
        samples=samples, violations=violations[:5], disagreements=disagreements[:5], distribution=dist,
        assumptions=['which start method CPython really uses and what a child really shares is observed, not proved: this property is partial by nature',
                     'pid/ppid/thread identity and a parent-mutated module global are taken as the observable of "own process", "inherits memory", "fresh interpreter"'],
        explanation='real backends only; observation per task (where it ran, start method, view of a parent-mutated global, context) compared with the Env model and checked by the monitor; pairs of runs under different contexts compare cache keys and stored metadata',
    )
