"""C16 — each task runs in the environment its backend and context promise.
Real serial / fork / spawn workers only (no fake layer): run() records pid, parent pid, thread, start
method, a parent-mutated module global and self.context; compared with the Env model (driver word ENV)
and checked directly by the monitor. Context non-interference: the same tasks under two different
contexts must have the same cache keys and the same stored metadata."""
import json
import os
import random
import shutil
import signal
import subprocess
import sys
import tempfile
import time

HERE = os.path.dirname(os.path.dirname(os.path.abspath(__file__)))
REPO = os.environ.get('VERIF_REPO', '/repo')


def gen_job(rng, backend):
    n = rng.randint(1, 4)
    deps, kinds, keys = [], [], []
    ctx_keys = ['a', 'b', 'c'][:rng.choice([0, 1, 2, 3, 3])]   # 0: the Lab's context is empty ({} or None)
    for k in range(n):
        d = sorted(set(rng.randrange(k) for _ in range(rng.randint(0, 2)))) if k else []
        deps.append(d)
        kind = rng.choice(['leaf', 'sub', 'sub', 'cached', 'count'])
        if kind == 'leaf' and d:
            kind = 'sub'
        kinds.append(kind)
        keys.append(sorted(rng.sample(ctx_keys + ['zz'], rng.randint(0, len(ctx_keys)))))
    return dict(n=n, deps=deps, kinds=kinds, keys=keys, req=list(range(n)), backend=backend,
                mw=rng.choice([1, 2, None]), context=[[k, rng.randint(1, 9)] for k in ctx_keys],
                mark=rng.randint(1, 99), ctx_none=(not ctx_keys and rng.random() < 0.5))


def run_workers(jobs_per_worker, timeout):
    tmp = tempfile.mkdtemp(prefix='verif-c16run-')
    procs = []
    out = []
    errors = []
    try:
        for w, jobs in enumerate(jobs_per_worker):
            jp, op = os.path.join(tmp, f'j{w}.json'), os.path.join(tmp, f'o{w}.json')
            json.dump(jobs, open(jp, 'w'))
            lf = open(os.path.join(tmp, f'l{w}.txt'), 'w')
            env = dict(os.environ, PYTHONPATH=REPO + os.pathsep + HERE, PYTHONHASHSEED=str(w + 1))
            procs.append((w, op, lf, subprocess.Popen(
                [sys.executable, os.path.join(HERE, 'c16_worker.py'), jp, op], stdout=lf, stderr=subprocess.STDOUT,
                stdin=subprocess.DEVNULL, start_new_session=True, env=env, cwd=HERE)))
        deadline = time.time() + timeout
        for w, op, lf, p in procs:
            try:
                p.wait(timeout=max(1, deadline - time.time()))
            except subprocess.TimeoutExpired:
                errors.append(f'worker {w} timed out')
            try:
                os.killpg(p.pid, signal.SIGKILL)
            except ProcessLookupError:
                pass
            p.wait()
            lf.close()
            if os.path.exists(op):
                out += json.load(open(op))
            else:
                errors.append(f'worker {w}: no output: ' + open(lf.name).read()[-600:])
        return out, errors
    finally:
        shutil.rmtree(tmp, ignore_errors=True)


# The checker's OWN model of the context filter every generated task kind is written with (the filter that normal
# Python attribute lookup gives the class as written in etasks.py: own body, else first base in the MRO that has one,
# else identity).  Never obtained by calling the decorated class's filter_context.
#   identity   : the Lab's context unchanged            subset     : {key: ctx[key] for key in keys if key in ctx}
#   complement : every entry whose key is NOT in keys   depth1/10  : ctx plus depth = ctx.get('depth', 0) + 1 / + 10
FILTER_MODEL = {
    # filter defined in the decorated class's own body, or nowhere (the kinds that existed before)
    'leaf': 'identity', 'cached': 'identity', 'sub': 'subset', 'count': 'depth1',
    # (a) inherited from a plain mixin: listed before / after another base, two plain levels up, non-idempotent one
    'mix_first': 'subset', 'mix_last': 'subset', 'mix_grand': 'subset', 'mix_depth': 'depth1',
    # (b) inherited from a parent task type (re-decorated subclass)
    'sub_child': 'subset', 'count_child': 'depth1',
    # (c) inherited from a grandparent: task type <- task type <- task type; task type <- plain class <- task type;
    #     task type <- task type <- plain mixin
    'sub_grandchild': 'subset', 'sub_mid_child': 'subset', 'mix_child': 'subset',
    # a subclass that OVERRIDES the inherited filter, and a subclass that inherits the override
    'sub_override': 'complement', 'count_override': 'depth10', 'override_child': 'complement',
    # subclasses of types that define no filter at all: identity
    'leaf_child': 'identity', 'leaf_grandchild': 'identity', 'plain_child': 'identity',
}
# where the class as written gets its filter from (measured distribution only)
FILTER_ORIGIN = {
    'leaf': 'none', 'cached': 'none', 'sub': 'own', 'count': 'own',
    'mix_first': 'mixin', 'mix_last': 'mixin', 'mix_grand': 'grandparent', 'mix_depth': 'mixin',
    'sub_child': 'parent_task_type', 'count_child': 'parent_task_type',
    'sub_grandchild': 'grandparent', 'sub_mid_child': 'grandparent', 'mix_child': 'grandparent',
    'sub_override': 'own_overriding_inherited', 'count_override': 'own_overriding_inherited',
    'override_child': 'parent_task_type',
    'leaf_child': 'none_inherited', 'leaf_grandchild': 'none_inherited', 'plain_child': 'none_inherited',
}
# kinds a generated direct kind may be replaced by (same constructor arguments)
INHERITED_VARIANTS = {
    'sub': ['mix_first', 'mix_last', 'mix_grand', 'sub_child', 'sub_grandchild', 'sub_mid_child', 'mix_child',
            'sub_override', 'override_child'],
    'count': ['mix_depth', 'count_child', 'count_override'],
    'leaf': ['leaf_child', 'leaf_grandchild', 'plain_child'],
}


def vary_inheritance(rng, job):
    """replace about half of the direct kinds by a kind that gets the same sort of filter by inheritance"""
    for k, kind in enumerate(job['kinds']):
        if kind in INHERITED_VARIANTS and rng.random() < 0.5:
            job['kinds'][k] = rng.choice(INHERITED_VARIANTS[kind])


def gen_matrix_job(rng, backend, empty):
    """one task of EVERY kind (except cached) in one DAG; with a non-empty context every key list selects a strict
    subset, so the inherited / overriding / absent filters all give different contexts"""
    kinds = [k for k in FILTER_MODEL if k != 'cached']
    rng.shuffle(kinds)
    ctx_keys = [] if empty else ['a', 'b', 'c']
    deps, keys = [], []
    for k, kind in enumerate(kinds):
        d = sorted(set(rng.randrange(k) for _ in range(rng.randint(0, 2)))) if k and kind != 'leaf' else []
        deps.append(d)
        keys.append(sorted(rng.sample(['a', 'b', 'c', 'zz'], rng.randint(1, 2))))
    return dict(n=len(kinds), deps=deps, kinds=kinds, keys=keys, req=list(range(len(kinds))), backend=backend,
                mw=rng.choice([2, None]), context=[[k, rng.randint(1, 9)] for k in ctx_keys],
                mark=rng.randint(1, 99), ctx_none=(empty and rng.random() < 0.5), matrix=True)


def expected_context(job, k):
    ctx = {a: b for a, b in job['context']}
    model = FILTER_MODEL[job['kinds'][k]]
    if model == 'identity':
        return ctx
    if model == 'depth1':
        return dict(ctx, depth=ctx.get('depth', 0) + 1)
    if model == 'depth10':
        return dict(ctx, depth=ctx.get('depth', 0) + 10)
    if model == 'complement':
        return {key: value for key, value in ctx.items() if key not in job['keys'][k]}
    assert model == 'subset'
    return {key: ctx[key] for key in job['keys'][k] if key in ctx}


def wrong_context_tasks(rec):
    job = rec['job']
    if job.get('two_labs') or rec.get('status') != 'returned':
        return []
    return [int(ks) for ks, o in rec['results'].items()
            if job['kinds'][int(ks)] != 'cached' and o['context'] != expected_context(job, int(ks))]


def sub_job(job, keep):
    """the job restricted to the tasks in `keep` (dependencies outside it dropped), renumbered"""
    keep = sorted(keep)
    new = {old: i for i, old in enumerate(keep)}
    red = {a: b for a, b in job.items() if a not in ('index', 'pair_of', 'matrix')}
    kinds = [job['kinds'][o] for o in keep]
    deps = [[new[d] for d in job['deps'][o] if d in new] for o in keep]
    red.update(n=len(keep), deps=deps, kinds=kinds, keys=[job['keys'][o] for o in keep], req=list(range(len(keep))))
    return red


def shrink_context_violation(rec):
    """smaller jobs that still show a wrong context: the offending task alone, else with its dependency closure;
    each candidate is RE-RUN on the real backend and kept only if the monitor still raises the alarm"""
    job = rec['job']
    bad = wrong_context_tasks(rec)
    if not bad or job['n'] == 1:
        return None
    k = bad[0]
    closure, todo = set(), [k]
    while todo:
        t = todo.pop()
        if t not in closure:
            closure.add(t)
            todo += job['deps'][t]
    cands = [sub_job(job, [k])] + ([sub_job(job, closure)] if 1 < len(closure) < job['n'] else [])
    recs, _errs = run_workers([[c] for c in cands], 120)
    for c in cands:   # smallest first
        for r in recs:
            if r['job'] == c:
                ws = [w for w in monitor(r) if 'saw context' in w]
                if ws:
                    return dict(what=ws[0], replay=dict(job=c))
    return None


def monitor(rec):
    """direct check of the property on one real run"""
    job = rec['job']
    v = []
    if job.get('two_labs'):
        for k, o in rec.get('two_labs_seen', {}).items():
            if o['saw'] != o['lab']:
                v.append(f"{job['backend']}: two Labs alive at once: task {k} of Lab {o['lab']} saw the context of Lab {o['saw']}")
        for tag, e in rec.get('two_labs_errors', {}).items():
            v.append(f"{job['backend']}: two Labs alive at once: Lab {tag} failed with {e}")
        if len(rec.get('two_labs_seen', {})) != 4 and not rec.get('two_labs_errors'):
            v.append(f"{job['backend']}: two Labs alive at once: only {len(rec.get('two_labs_seen', {}))} of 4 tasks returned")
        return v
    if rec['status'] != 'returned':
        return ['run_tasks ' + rec['status']]
    caller = rec['caller']
    pids = []
    for ks, o in rec['results'].items():
        k = int(ks)
        if job['kinds'][k] == 'cached':
            continue
        want = expected_context(job, k)
        if o['context'] != want:
            v.append(f"{job['backend']}: task {k} saw context {o['context']}, its filter_context gives {want}")
        b = job['backend']
        if b == 'serial':
            if o['pid'] != caller['pid'] or not o['main_thread'] or o['thread_id'] != caller['thread_id']:
                v.append(f'serial: task {k} did not run in the caller\'s process and thread')
        else:
            pids.append(o['pid'])
            if o['pid'] == caller['pid']:
                v.append(f'{b}: task {k} ran inside the caller process')
            if o['ppid'] != caller['pid']:
                v.append(f'{b}: task {k} worker is not a child of the caller')
            if b == 'fork' and o['mark'] != job['mark']:
                v.append(f'fork: task {k} does not see the caller\'s memory (global={o["mark"]}, caller has {job["mark"]})')
            if b == 'spawn' and (o['mark'] != 0 or o['start_method'] != 'spawn'):
                v.append(f'spawn: task {k} is not a fresh interpreter (global={o["mark"]}, start method {o["start_method"]})')
    if len(set(pids)) != len(pids):
        v.append(f"{job['backend']}: two tasks shared one worker process")
    if rec['keys'] != rec['keys_after']:
        v.append('cache_key changed during the run')
    return v


def model_line(job):
    return f"ENV view {job['backend']} 0 {job['mark']} {job['mark']} 0"


def observed_line(rec, k):
    o = rec['results'][str(k)]
    job = rec['job']
    where = 'caller' if o['pid'] == rec['caller']['pid'] else 'child'
    start = '-' if job['backend'] == 'serial' else (o['start_method'] or 'fork')
    ctx = 'filtered' if o['context'] == expected_context(job, k) else 'WRONG'
    return f"where={where} start={start} view={o['mark']} ctx={ctx}"


def selection_cases():
    """Lab.__init__ backend selection vs the model's decision table (in-process, cheap)"""
    import labtech
    import labtech.lab as L
    from labtech.exceptions import LabError
    import driver
    cases = []
    for arg in [None, 'fork', 'spawn', 'serial', 'bogus', 'FORK', 'thread']:
        for methods in (['fork', 'spawn', 'forkserver'], ['spawn'], ['forkserver'], ['spawn', 'fork']):
            cases.append((arg, methods))
    orig = L.get_all_start_methods
    dis = []
    lines = [f"ENV sel {arg if arg is not None else '-'} {','.join(m)}" for arg, m in cases]
    model = driver.run_lines(lines)
    try:
        for (arg, methods), line, mo in zip(cases, lines, model):
            L.get_all_start_methods = lambda methods=methods: list(methods)
            try:
                lab = labtech.Lab(storage=None, runner_backend=arg)
                name = type(lab.runner_backend).__name__
                real = 'ok ' + {'ForkRunnerBackend': 'fork', 'SpawnRunnerBackend': 'spawn', 'SerialRunnerBackend': 'serial'}.get(name, name)
            except LabError as e:
                real = 'LabError ' + ('unrecognised' if 'Unrecognised' in str(e) else 'unsupported-default')
            if real != mo:
                dis.append(dict(line=line, real=real, model=mo))
    finally:
        L.get_all_start_methods = orig
    return len(cases), dis


def run(ctx):
    import driver
    tier, seed = ctx['tier'], ctx['seed']
    if ctx.get('replay'):
        job = json.load(open(ctx['replay'])).get('replay', {}).get('job')
        if job is None:
            return dict(infra_error='replay file holds no C16 job')
        recs, errs = run_workers([[job]], 120)
        if errs:
            return dict(infra_error='; '.join(errs))
        vs = monitor(recs[0])
        return dict(evaluations=1, distinct_nontrivial=1, rule='replay', samples=[recs[0]['job']],
                    violations=[dict(what=w, replay=dict(job=job)) for w in vs], disagreements=[])
    if not ctx['driver_ok']:
        return dict(evaluations=0, violations=[], disagreements=[dict(diff='driver does not build')])
    rng = random.Random(seed)
    # second stream (derived from the seed) for the inheritance variants, so the DAG / context stream above is the
    # same as it was before those kinds existed
    rng_inh = random.Random(random.Random(seed).getrandbits(64) ^ 0xC16)
    n_jobs = 36 if tier == 'quick' else 400
    nworkers = 12 if tier == 'quick' else 16
    jobs = []
    for i in range(n_jobs):
        be = ['serial', 'fork', 'spawn'][i % 3]
        j = gen_job(rng, be)
        vary_inheritance(rng_inh, j)
        jobs.append(j)
        if i % 4 == 0:  # same tasks under another context and another global value
            j2 = json.loads(json.dumps(j))
            j2['context'] = [[k, v + 10] for k, v in j['context']]
            j2['mark'] = j['mark'] + 100
            j2['pair_of'] = len(jobs) - 1
            jobs.append(j2)
    for be in ('fork', 'spawn', 'serial'):
        jobs.append(dict(two_labs=True, backend=be, n=4, deps=[], kinds=[], keys=[], req=[], mw=1, context=[], mark=0))
    # every kind of filter origin on every backend in every run: non-empty and empty ({} / None) Lab context
    for rounds in range(1 if tier == 'quick' else 6):
        for be in ('spawn', 'fork', 'serial'):
            jobs.append(gen_matrix_job(rng_inh, be, empty=False))
            jobs.append(gen_matrix_job(rng_inh, be, empty=True))
    per = [[] for _ in range(nworkers)]
    for i, j in enumerate(jobs):
        j['index'] = i
        per[i % nworkers].append(j)
    recs, errs = run_workers(per, 240 if tier == 'quick' else 1500)
    if errs and not recs:
        return dict(infra_error='; '.join(errs))
    by_index = {r['job']['index']: r for r in recs}
    violations, disagreements, samples = [], [], []
    nontrivial = set()
    dist = {}
    shrinkable = []
    lines, where = [], []
    for r in recs:
        job = r['job']
        if job.get('two_labs'):
            dist['two_labs_alive_at_once'] = dist.get('two_labs_alive_at_once', 0) + 1
            for w in monitor(r):
                violations.append(dict(what=w, replay=dict(job=job)))
            continue
        dist['backend=' + job['backend']] = dist.get('backend=' + job['backend'], 0) + 1
        dist['tasks=%d' % job['n']] = dist.get('tasks=%d' % job['n'], 0) + 1
        dist['max_workers=%s' % job['mw']] = dist.get('max_workers=%s' % job['mw'], 0) + 1
        for w in monitor(r):
            violations.append(dict(what=w, replay=dict(job=job)))
        if wrong_context_tasks(r):
            shrinkable.append(r)
        if job.get('matrix'):
            dist['all_kinds_in_one_run'] = dist.get('all_kinds_in_one_run', 0) + 1
        tag = 'lab_context=' + ('none' if job.get('ctx_none') else 'empty' if not job['context'] else 'nonempty')
        dist[tag] = dist.get(tag, 0) + 1
        if r['status'] == 'returned':
            for ks in r['results']:
                kind = job['kinds'][int(ks)]
                for tag in ('filter_from=' + FILTER_ORIGIN[kind], 'filter=' + FILTER_MODEL[kind]):
                    dist[tag] = dist.get(tag, 0) + 1
                if FILTER_ORIGIN[kind] not in ('none', 'own') and kind != 'cached':
                    ctx = {a: b for a, b in job['context']}
                    if expected_context(job, int(ks)) != ctx:
                        tag = 'inherited_filter_differs_from_identity/' + job['backend']
                        dist[tag] = dist.get(tag, 0) + 1
        if job['n'] >= 2 or any(FILTER_MODEL[k] != 'identity' for k in job['kinds']):
            nontrivial.add(json.dumps([job['backend'], job['n'], job['deps'], job['kinds'], job['keys'], job['mw']]))
        if r['status'] == 'returned':
            for ks in r['results']:
                if job['kinds'][int(ks)] != 'cached':
                    lines.append(model_line(job))
                    where.append((r, int(ks)))
        if 'pair_of' in job and job['pair_of'] in by_index:
            a = by_index[job['pair_of']]
            if a['keys'] != r['keys']:
                violations.append(dict(what='cache keys differ between two contexts', replay=dict(job=job)))
            if a['stored'] != r['stored']:
                violations.append(dict(what='stored cache entries (keys / metadata documents) differ between two contexts',
                                       replay=dict(job=job)))
            dist['context_pairs'] = dist.get('context_pairs', 0) + 1
        if len(samples) < 3:
            samples.append(dict(job={k: job[k] for k in ('backend', 'n', 'deps', 'kinds', 'keys', 'mw', 'context', 'mark')},
                                observed={ks: {a: o[a] for a in ('context', 'mark', 'start_method', 'main_thread')}
                                          for ks, o in r['results'].items() if isinstance(o, dict) and 'mark' in o}))
    # shrunk failing inputs first (re-run on the real backend; kept only if the alarm is still raised)
    shrunk = []
    for r in sorted(shrinkable, key=lambda r: r['job']['n'])[:2]:
        if r['job']['n'] == 1:     # already minimal
            shrunk += [dict(what=w, replay=dict(job=r['job'])) for w in monitor(r) if 'saw context' in w][:1]
        else:
            sv = shrink_context_violation(r)
            if sv:
                shrunk.append(sv)
    violations = shrunk + [v for v in violations if v not in shrunk]
    model = driver.run_lines(lines)
    for (r, k), mo in zip(where, model):
        ob = observed_line(r, k)
        if ob != mo:
            disagreements.append(dict(job=r['job'], task=k, real=ob, model=mo))
    nsel, seldis = selection_cases()
    disagreements += seldis
    # regression corpus
    import repro
    for rec in repro.run_many(['D4']):
        if rec.get('violated'):
            violations.append(dict(what='corpus D4: ' + str(rec['detail']), replay=dict(corpus='D4')))
    dist['worker_errors'] = errs
    dist['backend_selection_cases'] = nsel
    return dict(
        evaluations=len(recs) + nsel, distinct_nontrivial=len(nontrivial),
        rule='real runs (serial, really forked, really spawned workers) of generated 1-4 task DAGs (plus one DAG per backend and per empty/non-empty context holding every task kind) x max_workers x context filters (identity / per-parameter subset / complement / non-idempotent; defined in the class body, inherited from a plain mixin, a parent task type or a grandparent, overriding an inherited one, or absent); non-trivial = distinct (backend, DAG, filters, workers) with >= 2 tasks or a non-identity context filter',
        samples=samples, violations=violations[:5], disagreements=disagreements[:5], distribution=dist,
        assumptions=['which start method CPython really uses and what a child really shares is observed, not proved: this property is partial by nature',
                     'pid/ppid/thread identity and a parent-mutated module global are taken as the observable of "own process", "inherits memory", "fresh interpreter"'],
        explanation='real backends only; observation per task (where it ran, start method, view of a parent-mutated global, context) compared with the Env model and checked by the monitor; the expected context is computed from the checker\'s own table of the filter each task kind is written with (own / inherited / overridden / none), never by calling the decorated class; pairs of runs under different contexts compare cache keys and stored metadata',
    )
