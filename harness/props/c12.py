"""C12 — a save that fails leaves no entry that looks cached.

ENUMERATED, not sampled. For every (cache format, result, first save | overwrite) of the corpus in
harness/savetasks.py the real `Lab.run_tasks` (serial runner, real run_or_load_task, real
BaseCache.save, real LocalStorage) runs through `savewrap.WrapStorage`, and a single fault is
injected at
  * every storage-operation point of the save (file_handle enter/exit, every write call before/after
    it reached the real file, close before/after) for both files, and
  * every executed line of cache.py / storage.py inside BaseCache.save (sys.settrace),
plus the naturally failing saves (results that cannot be pickled / JSON-encoded at depth 0/1/3 and
after several frames were already written). After each: real `is_cached`, `cached_tasks`, a second
`run_tasks` from a fresh Lab; compared with the Lean model's observation (`SAVE … kind=fault`), and
checked directly against the property (monitor).

Alongside (`external_uncache`): the entry whose save is in question can also vanish because ANOTHER actor on the same
storage removes it during the call - the clean-up of somebody else's failed overwrite does exactly that. A few cases of the
DAG harness (dagcase.gen_extdel_case: a task cached when the run was planned loses its entry before it is submitted / after
it was loaded) are run through the DAG machinery; monitor only: afterwards no entry is reported by is_cached, or breaks
cached_tasks, that cannot be loaded.
"""
import json
import logging
import os
import shutil
import signal
import subprocess
import sys
import tempfile
import time

HERE = os.path.dirname(os.path.dirname(os.path.abspath(__file__)))
if HERE not in sys.path:
    sys.path.insert(0, HERE)


class InjectedOSError(OSError):
    pass


class InjectedBase(BaseException):
    pass


EXC = {'os': InjectedOSError, 'base': InjectedBase, 'kbd': KeyboardInterrupt, 'storage': None, 'cache': None}


def exc_class(kind):
    # labtech's own exception classes are faults too (a Storage may raise StorageError at any point)
    if kind == 'storage':
        from labtech.exceptions import StorageError
        return StorageError
    if kind == 'cache':
        from labtech.exceptions import CacheError
        return CacheError
    return EXC[kind]


# ------------------------------------------------------------------ one case on the real code
def classify_value(v, idx, T):
    for g, name in ((0, 'old'), (1, 'new')):
        try:
            if v == T.make_result(idx, g):
                return name
        except Exception:
            pass
    return 'WRONG'


def observe_entry(storage_dir, kind, idx, old_start, T, labtech):
    """what a *fresh* Lab over the plain LocalStorage sees: (cached, load, listed) + raw details"""
    Type = T.KINDS[kind]
    lab = labtech.Lab(storage=storage_dir, runner_backend='serial', continue_on_failure=True)
    t = Type(idx)
    cached = bool(lab.is_cached(t))
    try:
        lst = lab.cached_tasks([Type])
        listed_raw = 'yes' if t in lst else 'no'
        for x in lst:
            if x == t and x.result_meta is not None and old_start is not None:
                listed_raw = 'yes:' + ('old' if x.result_meta.start == old_start else 'new')
            elif x == t:
                listed_raw = 'yes:new'
    except BaseException as e:
        listed_raw = 'raises'
    before = _exec_count(T)
    try:
        r = lab.run_tasks([t], disable_progress=True, disable_top=True)
        err = None
    except BaseException as e:
        r, err = {}, type(e).__name__
    executed = _exec_count(T) - before
    if t in r:
        vclass = classify_value(r[t], idx, T)
        if executed:
            load = 'ran:' + vclass
        else:
            mclass = 'old' if (old_start is not None and t.result_meta.start == old_start) else 'new'
            load = f'ok:{vclass}:{mclass}'
    else:
        load = 'fails'
    return dict(cached=cached, listed=listed_raw, load=load, executed=executed, err=err)


def _exec_count(T):
    try:
        return sum(1 for _ in open(T.EXEC_LOG))
    except OSError:
        return 0


def run_case(case):
    """case = dict(kind, idx, mode, inj (None | point list | ['line', e]), exc, cof)"""
    import labtech
    from labtech.exceptions import LabError
    from labtech.storage import LocalStorage
    import savetasks as T
    import savewrap as W
    labtech.logger.setLevel(logging.CRITICAL)
    kind, idx, mode = case['kind'], case['idx'], case['mode']
    inj = case.get('inj')
    inj = tuple(inj) if inj is not None else None
    exc_cls = exc_class(case.get('exc', 'os'))
    Type = T.KINDS[kind]
    d = tempfile.mkdtemp(prefix='verif-c12-')
    try:
        sd = os.path.join(d, 'store')
        T.EXEC_LOG = os.path.join(d, 'exec.log')
        old_start = None
        if mode == 'over':
            T.GEN = 0
            t0 = Type(idx)
            lab0 = labtech.Lab(storage=sd, runner_backend='serial')
            r0 = lab0.run_tasks([t0], disable_progress=True, disable_top=True)
            if t0 not in r0:
                return dict(case=case, infra='the preparing save of an overwrite case failed')
            old_start = t0.result_meta.start
        T.GEN = 1
        info = {}

        def strike_point(st, point):
            raise exc_cls(f'injected at {point}')

        def strike_line(i):
            info.update(i)
            raise exc_cls(f"injected at line event {i['e']} {i['func']}:{i['lineno']}")

        trig = inj if (inj is not None and inj[0] != 'line') else None
        st = W.WrapStorage(LocalStorage(sd), trigger=trig, action=strike_point, root=sd)
        lab = labtech.Lab(storage=st, runner_backend='serial', continue_on_failure=bool(case.get('cof', True)))
        t1 = Type(idx)
        tracer = W.LineTracer(st, target=(inj[1] if (inj is not None and inj[0] == 'line') else None), action=strike_line)
        raised = None
        r = {}
        sys.settrace(tracer)
        try:
            try:
                r = lab.run_tasks([t1], bust_cache=(mode == 'over'), disable_progress=True, disable_top=True)
            finally:
                sys.settrace(None)
        except LabError:
            raised = 'LabError'
        except BaseException as e:
            raised = type(e).__name__
        reported_failed = (t1 not in r)
        n1, m1 = W.counts_from_log(st.log)
        struck = (not st.armed) if trig is not None else bool(info) if inj is not None else None
        obs = observe_entry(sd, kind, idx, old_start, T, labtech)
        return dict(case=case, reported_failed=reported_failed, raised=raised, struck=struck, n1=n1, m1=m1,
                    lines=tracer.count, line_info=info, log_tail=[list(p) for p in st.log[-4:]],
                    deleted=('delete',) in st.log, **obs)
    finally:
        T.EXEC_LOG = None
        shutil.rmtree(d, ignore_errors=True)


# ------------------------------------------------------------------ model side
def model_line(case, rec, dry):
    """the SAVE command that predicts the observation of this case"""
    import savewrap as W
    n1, m1 = dry['n1'], dry['m1']
    inj = case.get('inj')
    mode = case['mode']
    if inj is None:
        # natural failure: the encoder raises where the next write call would be; the save has
        # rec['m1'] completed data writes at that moment
        j = rec['m1']
        return f"SAVE mode={mode} n={n1} m={j + 1} kind=fault k={8 + n1 + j} eff=0 del=ok"
    if inj[0] == 'line':
        li = rec['line_info']
        if not li or W.line_after_region(li):
            return None     # (after the guarded region: outside the model; the monitor still judges the case)
        if not W.line_in_try(li):
            k = 0
        else:
            k = max(1, W.line_k(li, n1, m1))
        if li.get('fh_started') == 0 and k <= 1:
            # nothing of the entry has been opened yet: whether this instant already counts as inside the guarded
            # region (a fault then deletes a pre-existing entry) or not (it leaves it) is a freedom of the
            # implementation that the property does not constrain - both model answers are accepted
            rec['alt_line'] = f"SAVE mode={mode} n={n1} m={m1} kind=fault k={1 - k} eff=0 del=ok"
        return f"SAVE mode={mode} n={n1} m={m1} kind=fault k={k} eff=0 del=ok"
    k, eff = W.fault_k(tuple(inj), n1, m1)
    return f"SAVE mode={mode} n={n1} m={m1} kind=fault k={k} eff={eff} del=ok"


def real_obs(rec):
    load = rec['load']
    if load.startswith('ran:'):
        load = 'fails'   # not cached: the model's `load` of an absent entry
    return f"cached={int(rec['cached'])} load={load} listed={rec['listed']} raised={int(rec['reported_failed'])}"


def monitor(rec):
    """the property itself, on what the real code did"""
    out = []
    c = rec['case']
    if rec.get('struck') is False:
        return out
    if not rec['reported_failed']:
        out.append('a save that failed part-way did not report the task as failed')
    if rec['cached'] and rec['load'] == 'fails':
        out.append('after a failed save the task is reported as cached (is_cached) but cannot be loaded')
    if rec['listed'] != 'no' and rec['load'] == 'fails':
        out.append('after a failed save cached_tasks reports the entry (or raises on it) but it cannot be loaded')
    if rec['load'].startswith('ok:') and 'WRONG' in rec['load']:
        out.append('after a failed save a later run_tasks loaded a wrong value from the cache: ' + rec['load'])
    if rec['load'].startswith('ran:') and c['idx'] < 10 and rec['load'] != 'ran:new':
        out.append('after a failed save a later run_tasks returned a wrong value: ' + rec['load'])
    if rec['cached'] and rec['load'].startswith('ok:'):
        _, v, m = rec['load'].split(':')
        if v != m:
            out.append(f'after a failed save the entry loads value of the {v} save with meta of the {m} save')
        if c['mode'] == 'first' and v == 'old':
            out.append('after a failed first save an entry loads a value that was never saved')
    return out


# ------------------------------------------------------------------ enumeration
def enumerate_cases(tier, dry_of):
    """every injection point of every save of the corpus"""
    import savetasks as T
    cases = []
    excs = ['os', 'base', 'kbd', 'storage', 'cache']
    c = 0
    for kind in ('pickle', 'json', 'norm'):
        for mode in ('first', 'over'):
            for idx in (sorted(T.GOOD) if (kind != 'norm' or tier == 'thorough') else [0, 2]):
                dry = dry_of[(kind, idx, mode)]
                n1, m1 = dry['n1'], dry['m1']
                pts = []
                for fidx, cnt in ((0, n1), (1, m1)):
                    pts += [('fh_enter', fidx), ('fh_exit', fidx)]
                    for i in range(cnt):
                        pts += [('write_pre', fidx, i), ('write_post', fidx, i)]
                    pts += [('close_pre', fidx), ('close_post', fidx)]
                pts += [('line', e) for e in range(dry['lines'])]
                for p in pts:
                    c += 1
                    cases.append(dict(kind=kind, idx=idx, mode=mode, inj=list(p), exc=excs[c % 5],
                                      cof=(c % 7 != 0)))
            for idx in sorted(T.BAD):
                cases.append(dict(kind=kind, idx=idx, mode=mode, inj=None, exc='os', cof=True))
                if tier == 'thorough':
                    cases.append(dict(kind=kind, idx=idx, mode=mode, inj=None, exc='os', cof=False))
    return cases


def dry_runs(kinds=('pickle', 'json', 'norm')):
    import savetasks as T
    out = {}
    for kind in kinds:
        for mode in ('first', 'over'):
            for idx in sorted(T.GOOD):
                rec = run_case(dict(kind=kind, idx=idx, mode=mode, inj=['line', -1], exc='os', cof=True))
                if rec.get('infra'):
                    raise RuntimeError(rec['infra'])
                out[(kind, idx, mode)] = dict(n1=rec['n1'], m1=rec['m1'], lines=rec['lines'],
                                              ok=(not rec['reported_failed']) and rec['cached'])
    return out


def worker_main(spec_path, out_path):
    spec = json.load(open(spec_path))
    out = []
    for case in spec['cases']:
        try:
            out.append(run_case(case))
        except BaseException as e:  # harness failure on this case
            import traceback
            out.append(dict(case=case, infra=traceback.format_exc()[-800:]))
    json.dump(out, open(out_path, 'w'), default=str)


def run_parallel(cases, workers, timeout):
    tmp = tempfile.mkdtemp(prefix='verif-c12w-')
    try:
        chunks = [cases[i::workers] for i in range(workers)]
        procs = []
        for i, ch in enumerate(chunks):
            if not ch:
                continue
            sp, op, lp = (os.path.join(tmp, f'{x}{i}.json') for x in ('spec', 'out', 'log'))
            json.dump(dict(cases=ch), open(sp, 'w'))
            lf = open(lp, 'w')
            env = dict(os.environ, PYTHONPATH=HERE + os.pathsep + os.environ.get('VERIF_REPO', '/repo'))
            procs.append((subprocess.Popen([sys.executable, os.path.abspath(__file__), '--worker', sp, op],
                                           stdout=lf, stderr=lf, stdin=subprocess.DEVNULL,
                                           start_new_session=True, env=env), op, lp, lf))
        recs, errors = [], []
        deadline = time.time() + timeout
        for p, op, lp, lf in procs:
            try:
                p.wait(timeout=max(0.1, deadline - time.time()))
            except subprocess.TimeoutExpired:
                errors.append('worker timeout')
            try:
                os.killpg(p.pid, signal.SIGKILL)
            except (ProcessLookupError, PermissionError):
                pass
            p.wait()
            lf.close()
            if os.path.exists(op):
                recs += json.load(open(op))
            else:
                errors.append('worker produced no output: ' + open(lp).read()[-400:])
        return recs, errors
    finally:
        shutil.rmtree(tmp, ignore_errors=True)


def repro_d7():
    import repro
    v, detail = repro.D7()
    return bool(v), detail


def evaluate(recs, dry_of):
    import driver
    lines, idxs = [], []
    for i, rec in enumerate(recs):
        if rec.get('infra'):
            continue
        c = rec['case']
        key = (c['kind'], c['idx'] if c['idx'] < 10 else c['idx'] % 10 % 4, c['mode'])
        dry = dry_of[key] if c.get('inj') is not None else dict(n1=rec['n1'], m1=rec['m1'])
        ml = model_line(c, rec, dry)
        if ml is not None:
            lines.append(ml)
            idxs.append(i)
    outs = driver.run_lines(lines) if lines else []
    alt_idx = [i for i in idxs if recs[i].get('alt_line')]
    alt_out = dict(zip(alt_idx, driver.run_lines([recs[i]['alt_line'] for i in alt_idx]))) if alt_idx else {}
    violations, disagreements = [], []
    strip = lambda mo: ' '.join(w for w in mo.split() if not w.startswith('safe='))
    for i, ml, mo in zip(idxs, lines, outs):
        rec = recs[i]
        rec['model_line'] = ml
        rec['model'] = mo
        ro = real_obs(rec)
        rec['real'] = ro
        mo_cmp = strip(mo)
        if rec.get('struck') is not False and ro != mo_cmp and not (i in alt_out and ro == strip(alt_out[i])):
            disagreements.append(dict(case=rec['case'], real=ro, model=mo_cmp, line=ml))
    for rec in recs:
        if rec.get('infra'):
            continue
        for what in monitor(rec):
            violations.append(dict(what=what, replay=dict(kind='save-fault', case=rec['case'],
                                                          real=rec.get('real'), model=rec.get('model'),
                                                          detail={k: rec[k] for k in ('cached', 'load', 'listed', 'reported_failed', 'raised', 'deleted') if k in rec})))
    return violations, disagreements


def shrink_pref(violations):
    """prefer the simplest failing input: natural failure, first save, small result"""
    def key(v):
        c = v['replay']['case']
        return (c.get('inj') is not None, c['mode'] != 'first', c['idx'], c['kind'] != 'pickle', str(c.get('inj')))
    return sorted(violations, key=key)


def external_uncache(ctx, box):
    """the external-uncache cases of the DAG harness, C12's share of their monitors; fills box"""
    try:
        import dagrun
        from props import dagprop
        n = 24 if ctx['tier'] == 'quick' else 400
        rep = dagrun.explore(seed=ctx['seed'], n_cases=n, max_tids=5, workers=4 if ctx['tier'] == 'quick' else 12, mode='extdel',
                             timeout=60 if ctx['tier'] == 'quick' else 600)
        viol = [v for v in rep['violations'] if v['property'] == 'C12']
        out = []
        if viol:
            small = dagprop.shrink(dagrun.normalise(viol[0]['case']), 'C12', budget=25)
            obs, _, vs = dagprop.run_single(small)
            out.append(dict(what=(vs.get('C12') or [viol[0]['what']])[0], replay=dict(kind='dag', case=small, real=obs)))
        box.update(evaluations=rep['evaluations'], violations=out, errors=rep['worker_errors'],
                   dist={k: v for k, v in rep['dist'].items() if k.startswith('external_uncache')})
    except Exception as e:      # the DAG machinery itself failed: reported as an infrastructure error by run()
        box.update(evaluations=0, violations=[], errors=[f'external-uncache cases: {type(e).__name__}: {e}'], dist={})


def run(ctx):
    import savetasks as T
    tier = ctx['tier']
    if ctx.get('replay'):
        rp = json.load(open(ctx['replay']))
        rep = rp.get('replay') or {}
        case = rep.get('case')
        if rep.get('kind') == 'dag':
            import dagrun
            from props import dagprop
            obs, _, vs = dagprop.run_single(dagrun.normalise(case))
            return dict(evaluations=1, distinct_nontrivial=1, rule='replay of one external-uncache case of the DAG harness', samples=[obs[:500]],
                        violations=[dict(what=w, replay=rep) for w in vs.get('C12', [])], disagreements=[])
        if rep.get('kind') == 'main-script':
            from props import c12x
            rs = c12x.run_scripts((rep['backend'],))
            if any(r.get('infra') for r in rs):
                return dict(infra_error=rs[0]['infra'])
            return dict(evaluations=1, distinct_nontrivial=1, rule='replay of the __main__ script scenario', samples=rs,
                        violations=[dict(what=w, replay=rep) for r in rs for w in c12x.monitor(r)], disagreements=[])
        if case is None:
            return dict(infra_error='replay file holds no save-fault case')
        dry_of = dry_runs()
        recs = [run_case(case)]
        viol, dis = evaluate(recs, dry_of)
        return dict(evaluations=1, distinct_nontrivial=1, rule='replay of one recorded case',
                    samples=[recs[0].get('real')], violations=viol, disagreements=dis)
    if not ctx['driver_ok']:
        return dict(evaluations=0, disagreements=[dict(diff='driver does not build')], violations=[])
    t0 = time.time()
    dry_of = dry_runs()
    bad_dry = [k for k, v in dry_of.items() if not v['ok']]
    cases = enumerate_cases(tier, dry_of)
    # alongside: failing saves inside spawn / fork workers for task classes defined in a __main__ script
    import threading
    from props import c12x
    sbox = {}
    sth = threading.Thread(target=lambda: sbox.update(recs=c12x.run_scripts()))
    sth.start()
    xbox = {}
    xth = threading.Thread(target=external_uncache, args=(ctx, xbox))
    xth.start()
    recs, errors = run_parallel(cases, workers=13, timeout=50 if tier == 'quick' else 600)
    sth.join()
    xth.join()
    errors += xbox.get('errors', ['external-uncache cases did not finish'])
    errors += [r['infra'] for r in sbox.get('recs', []) if r.get('infra')] + ([] if 'recs' in sbox else ['script scenario did not finish'])
    infra = [r for r in recs if r.get('infra')]
    if errors or infra or bad_dry:
        return dict(infra_error='; '.join(errors + [r['infra'] for r in infra[:2]] +
                                          [f'un-injected save of {k} did not succeed' for k in bad_dry]))
    viol, dis = evaluate(recs, dry_of)
    for r in sbox['recs']:
        for what in c12x.monitor(r):
            viol.append(dict(what=what, replay=dict(kind='main-script', backend=r['backend'], run1=r['run1'], run2=r['run2'],
                                                    case=dict(kind='script', idx=99, mode='first', inj=None))))
        # model: a natural fault inside the try ends with the entry absent (SAVE … kind=fault k>=1)
        if r['run1']['cached'] != [True, False, False] or r['run2']['cached'] != [True, False, False]:
            dis.append(dict(family='main-script', backend=r['backend'], real=[r['run1']['cached'], r['run2']['cached']],
                            model=[[True, False, False]] * 2))
    # regression: the reproduction of D7 (fixed by c5142b0)
    d7, d7_detail = repro_d7()
    if d7:
        viol.append(dict(what='regression D7: a failed save (unpicklable result) leaves an entry reported as cached: ' + d7_detail,
                         replay=dict(kind='save-fault', case=dict(kind='pickle', idx=10, mode='first', inj=None, exc='os', cof=True))))
    if (dis or not ctx['proof_ok']) and not viol:
        # enlarged search: every exception class at every point, both continue_on_failure settings
        extra = []
        for c in cases:
            for exc in ('os', 'base', 'kbd', 'storage', 'cache'):
                for cof in (True, False):
                    if exc != c['exc'] or cof != c['cof']:
                        extra.append(dict(c, exc=exc, cof=cof))
        recs2, errors2 = run_parallel(extra, workers=16, timeout=900)
        v2, _ = evaluate([r for r in recs2 if not r.get('infra')], dry_of)
        viol += v2
        recs += recs2
    viol = shrink_pref(viol) + xbox['violations']
    struck = [r for r in recs if r.get('struck') is not False]
    dist = dict(
        cases=len(recs), struck=len(struck), main_script_scenarios=[r['backend'] for r in sbox['recs']],
        by_kind={k: sum(1 for r in struck if r['case']['kind'] == k) for k in ('pickle', 'json', 'norm')},
        by_mode={k: sum(1 for r in struck if r['case']['mode'] == k) for k in ('first', 'over')},
        by_injection={k: sum(1 for r in struck if (r['case']['inj'] or ['natural'])[0] == k)
                      for k in ('natural', 'fh_enter', 'fh_exit', 'write_pre', 'write_post', 'close_pre', 'close_post', 'line')},
        by_exception={k: sum(1 for r in struck if r['case']['exc'] == k and r['case']['inj']) for k in EXC},
        continue_on_failure_false=sum(1 for r in struck if not r['case'].get('cof', True)),
        observations={},
        write_counts={f'{k[0]}/{k[1]}/{k[2]}': (v['n1'], v['m1'], v['lines']) for k, v in dry_of.items()},
        results={i: d for i, (d, _) in {**T.GOOD, **T.BAD}.items()},
        handler_ran=sum(1 for r in struck if r.get('deleted')),
        **xbox['dist'],
        wall_s=round(time.time() - t0, 1),
    )
    for r in struck:
        dist['observations'][r.get('real', '?')] = dist['observations'].get(r.get('real', '?'), 0) + 1
    nontrivial = len({json.dumps(r['case'], sort_keys=True) for r in struck if r.get('deleted') or r['case']['inj'] is None})
    return dict(
        evaluations=len(struck) + xbox['evaluations'], distinct_nontrivial=nontrivial,
        rule='enumerated single-fault injection points (storage operation / write call / executed line of cache.py+storage.py inside BaseCache.save, or a result the encoder rejects) x result x cache format x first/overwrite; non-trivial = the fault struck after the save had entered its protected region, i.e. the handler had something to clean up (storage.delete ran)',
        samples=[dict(case=r['case'], real=r.get('real'), model=r.get('model')) for r in struck[:1] + struck[len(struck) // 2:len(struck) // 2 + 2]],
        violations=viol[:20], disagreements=dis[:10], distribution=dist,
        assumptions=['single fault: the storage.delete of the handler itself works (a failing delete is outside the quantifier; see the double-fault example in Props/C12.lean)',
                     'serial runner (run_or_load_task and the save path are the same code in the process runners)',
                     'LocalStorage; a strict prefix of a stored document never parses as a complete document (pickle STOP opcode, JSON object wrapper)'],
        explanation='real Lab.run_tasks -> run_or_load_task -> BaseCache.save -> LocalStorage through a delegating Storage whose file objects raise at the chosen operation, or a settrace function raising at the chosen executed line; then is_cached / cached_tasks / a second run_tasks from a fresh Lab; observation compared with the Lean SAVE model and checked against the property directly',
    )


if __name__ == '__main__':
    if len(sys.argv) == 4 and sys.argv[1] == '--worker':
        worker_main(sys.argv[2], sys.argv[3])
