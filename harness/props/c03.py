"""C03 — each distinct task runs at most once, and only if its result is needed.

The scheduler part is `dagprop.run` (generated DAG cases with duplication and warm subsets, Lean run model, execution
counters).  "A task whose result is already cached is loaded instead of executed" also holds for results that an EARLIER
run_tasks call - another process, another backend, task objects rebuilt by cached_tasks - left in a real storage: the
history families of props/c06x.py (the __main__ script run twice with spawn first / second; round trips run ->
cached_tasks -> run_tasks(listed) over dict parameters with unsorted keys; confusable-task sequences) are run
alongside, and every violation they label with C03 (run() called again although the result was stored) is reported here."""
import threading

from props import c06x, dagprop

FAMILIES = ('confusable', 'script', 'round-trip')
NOTE = ('history families of props/c06x.py over a real storage (__main__ script run twice, spawn first / second; round trips '
        'run -> cached_tasks -> run_tasks(listed) with unsorted dict parameters; confusable-task sequences re-checked in a '
        'fresh interpreter): a task whose result was stored is loaded, run() is not called again')


def run(ctx):
    if c06x.replay_kind(ctx) in c06x.KINDS:
        return c06x.replay_result(c06x.run_for(ctx, 'C03', c06x.FAMILIES, 103))
    if ctx.get('replay') or not ctx['driver_ok']:
        return dagprop.run(ctx, 'C03')
    box = {}
    th = threading.Thread(target=c06x.run_for_thread, args=(ctx, 'C03', FAMILIES, 103, box))
    th.start()
    res = dagprop.run(ctx, 'C03')
    th.join()
    if 'x' not in box:
        return dict(infra_error='the history families did not finish')
    return c06x.merge_into(res, box['x'], NOTE)
