"""C14 — one Ctrl-C drains the run gracefully; a second one stops it at once.
(1) interrupt sweep: KeyboardInterrupt injected (sys.monitoring LINE events) at line boundaries of labtech code
    executed by the calling thread during run_tasks - serial runner exhaustively for every boundary of each
    small case, process runners (real ProcessExecutor/ProcessRunner over the fake-process layer) sampled;
    double interrupts: a second injection m boundaries after the first;
(2) real SIGINT, single and double, delivered to real fork/spawn runs at resting points;
(3) regression corpus D11, D14, D15, D16, D17.
The monitor checks the property directly on every interrupted run."""
import json
import os
import random
import shutil
import signal
import subprocess
import sys
import tempfile
import time

HERE = os.path.dirname(os.path.dirname(os.path.abspath(__file__)))
REPO = os.environ.get('VERIF_REPO', '/repo')


def spawn_workers(cmds, timeout):
    """cmds: list of (argv, outfile); runs them in parallel with file logs; returns [(outfile, ok, logtail)]"""
    tmp = tempfile.mkdtemp(prefix='verif-c14w-')
    procs = []
    env = dict(os.environ, PYTHONPATH=REPO + os.pathsep + HERE)
    for i, (argv, outp) in enumerate(cmds):
        lf = open(os.path.join(tmp, f'l{i}.txt'), 'w')
        procs.append((outp, lf, subprocess.Popen(argv, stdout=lf, stderr=subprocess.STDOUT, stdin=subprocess.DEVNULL,
                                                 start_new_session=True, env=env, cwd=HERE)))
    res = []
    deadline = time.time() + timeout
    for outp, lf, p in procs:
        timed_out = False
        try:
            p.wait(timeout=max(1, deadline - time.time()))
        except subprocess.TimeoutExpired:
            timed_out = True
        try:
            os.killpg(p.pid, signal.SIGKILL)
        except ProcessLookupError:
            pass
        p.wait()
        lf.close()
        res.append((outp, os.path.exists(outp) and not timed_out, open(lf.name).read()[-500:], timed_out))
    shutil.rmtree(tmp, ignore_errors=True)
    return res


def count_lines(case, tmp):
    jp, op = os.path.join(tmp, 'cnt.json'), os.path.join(tmp, 'cnt.out')
    json.dump(dict(case=case, points=[[None, None]]), open(jp, 'w'))
    r = spawn_workers([([sys.executable, os.path.join(HERE, 'intr.py'), jp, op], op)], 120)
    if not r[0][1]:
        raise RuntimeError('counting run failed: ' + r[0][2])
    return json.load(open(op))[0]['total']


WITNESS_CASE = dict(be='fork', mw=1, cof=1, bust=0, ty=[0], mp=[None, None, None], ca=[0, 0, 0], fl=[0], kids=[[]], shapes=[[]],
                    inst=[(0, [])], req=[0], pre={}, ctx=0, sched=[0, 0])


def known_witness(tmp):
    """deterministic replay of known finding F14a: first interrupt right after process.start() in the submit path,
    second interrupt after the (empty) drain; returns the violations the monitor reports"""
    jp, op = os.path.join(tmp, 'w0.json'), os.path.join(tmp, 'w0.out')
    json.dump(dict(case=WITNESS_CASE, points=[[None, None]], trace=True), open(jp, 'w'))
    r = spawn_workers([([sys.executable, os.path.join(HERE, 'intr.py'), jp, op], op)], 120)
    if not r[0][1]:
        return [], 'witness trace run failed: ' + r[0][2]
    trace = json.load(open(op))[0]['trace']
    src = open(os.path.join(REPO, 'labtech', 'runners', 'process.py')).read().splitlines()
    n1 = None
    for i, (rel, func, line) in enumerate(trace):
        if func == '_start_processes' and i > 0 and trace[i - 1][1] == '_start_processes' \
                and src[trace[i - 1][2] - 1].strip() == 'process.start()':
            n1 = i + 1
            break
    if n1 is None:
        return [], None   # the window does not exist in this source: nothing to replay
    jp, op = os.path.join(tmp, 'w1.json'), os.path.join(tmp, 'w1.out')
    json.dump(dict(case=WITNESS_CASE, points=[[n1, m] for m in range(1, 90)]), open(jp, 'w'))
    r = spawn_workers([([sys.executable, os.path.join(HERE, 'intr.py'), jp, op], op)], 120)
    if not r[0][1]:
        return [], 'witness run failed: ' + r[0][2]
    out = []
    for rec in json.load(open(op)):
        for w in rec['violations']:
            out.append((w, rec))
    return out, None


SKIP_SAVE_INTERRUPTS = False


def model_outcomes(case):
    """every (k[, k2]) record of the Lean interrupt model M10 for this case"""
    import driver
    import dagcase
    import dagrun
    line = 'INTR ' + dagcase.encode(dagrun.normalise(case))[4:] + ' k=all k2=all'
    out = driver.run_lines([line])[0]
    singles, doubles = set(), set()
    for rec in out.split('|')[1:]:
        f = rec.split(':')
        if len(f) != 7:
            continue
        tup = tuple(f[1:])
        (doubles if '/' in f[0] else singles).add(tup)
    return singles, doubles


def real_tuple(rec):
    st = rec['status']
    if st.startswith('raised KeyboardInterrupt'):
        out = 'interrupted'
    elif st.startswith('returned'):
        out = 'returned'
    elif st.startswith('raised LabError'):
        out = 'raised-LabError-' + st.split(' ')[2]
    elif st.startswith('raised KeyError'):
        out = 'raised-KeyError'
    else:
        out = st.split(' ')[0]
    lst = lambda xs: ','.join(str(x) for x in sorted(set(int(x) for x in xs)))
    execd = [l.split(' ')[1] for l in rec['execs'] if l.startswith('X ')]
    return (out, lst(execd), lst(rec['store'].keys()), lst(rec.get('late', [])), lst(rec['alive_at_exit']), lst(rec['terminated']))


def correspondence(results):
    """each real interrupted run's outcome must be one of the outcomes the Lean model M10 produces over its
    interrupt prefixes (simulation up to granularity: robust to line renumbering). Serial runs: full record;
    process runs over the fake layer (workers execute and save at process start there): outcome, started-after,
    alive-at-exit and terminated only, and only for cases whose schedule is the all-report one."""
    import intr
    by_case = {}
    for case, rec in results:
        if rec['status'].startswith('HARNESS-ERROR') or not rec['fired']:
            continue
        if case['be'] != 'serial' and case['sched']:
            continue
        if len(rec['fired']) == 2 and intr.no_signal_check_line(rec['fired'][1][1], rec['fired'][1][3]):
            continue   # synthetic instant (try:/except: line): not an interrupt instant, see intr.monitor
        if SKIP_SAVE_INTERRUPTS and any('save' in f[5] for f in rec['fired'] if len(f) > 5):
            continue   # interim: M10 models an interrupted serial save as 'not saved'; the real cleanup deletes the entry
        by_case.setdefault(json.dumps(case, sort_keys=True), (case, []))[1].append(rec)
    dis = []
    npts = 0
    for key, (case, recs) in by_case.items():
        try:
            singles, doubles = model_outcomes(case)
        except Exception as e:
            dis.append(dict(diff='INTR driver failed: ' + str(e)[:200]))
            continue
        proj = (lambda t: t) if case['be'] == 'serial' else (lambda t: (t[0], t[3], t[4], t[5]))
        s1 = {proj(t) for t in singles}
        s2 = {proj(t) for t in doubles} | s1
        for rec in recs:
            npts += 1
            t = proj(real_tuple(rec))
            ok = t in (s2 if len(rec['fired']) == 2 else s1)
            if not ok:
                dis.append(dict(diff='real interrupted run is not among the model outcomes', real=t, n1=rec['n1'], n2=rec['n2'],
                                fired=rec['fired'], backend=case['be'],
                                model_sample=sorted(s2 if len(rec['fired']) == 2 else s1)[:6]))
    return dis, len(by_case), npts


def real_signal_runs(only=None, attempt=0):
    tmp = tempfile.mkdtemp(prefix='verif-c14r-')
    cmds = []
    for be in ('fork', 'spawn'):
        for mode in ('single', 'double', 'single_ext') + (('double_block',) if be == 'fork' else ()):
            if only is not None and (be, mode) not in only:
                continue
            cmds.append(([sys.executable, os.path.join(HERE, 'intr_real.py'), be, mode, os.path.join(tmp, f'{be}_{mode}.json')],
                         os.path.join(tmp, f'{be}_{mode}.json')))
    out = []
    viol = []
    again = []
    for outp, ok, log, timed_out in spawn_workers(cmds, 60):
        if not ok:
            viol.append(dict(what=f'real SIGINT run {os.path.basename(outp)} did not finish (hang={timed_out}): {log[-200:]}',
                             replay=dict(kind='real-signal', run=os.path.basename(outp))))
            continue
        r = json.load(open(outp))
        out.append(r)
        if r.get('swallowed'):
            # the interrupt was raised inside a CPython finalizer / weakref callback and dropped there (reported through
            # sys.unraisablehook): not an interrupt instant of the property; recorded, not judged
            r['not_judged'] = 'KeyboardInterrupt raised and dropped inside ' + '; '.join(r['swallowed'])
            again.append((r['backend'], r['mode']))
            continue
        tag = f"real {r['backend']} run, {r['mode']} SIGINT"
        if r['out'] != 'KeyboardInterrupt':
            viol.append(dict(what=f'{tag}: run_tasks ended with {r["out"]}', replay=dict(kind='real-signal', rec=r)))
        if r['started_later'] != r['started'] or len(r['started']) > 2:
            viol.append(dict(what=f'{tag}: tasks {r["started_later"]} were started, {r["started"]} before the interrupt', replay=dict(kind='real-signal', rec=r)))
        if r['mode'] == 'double_block':
            # the tasks block SIGTERM while they work: run_tasks must still raise at once, without waiting for them
            if r['elapsed'] > 1.9:
                viol.append(dict(what=f'{tag} (tasks that block SIGTERM): run_tasks ended {r["elapsed"]}s after the first signal: it waited for the terminated tasks',
                                 replay=dict(kind='real-signal', rec=r)))
        elif r['mode'] in ('single', 'single_ext'):
            if r['finished'] != r['started'] or r['cached'] != r['started'] or not r['cached_load_ok']:
                viol.append(dict(what=f'{tag}: running tasks {r["started"]} were not drained and cached (finished {r["finished"]}, cached {r["cached"]})',
                                 replay=dict(kind='real-signal', rec=r)))
        else:
            if r['finished_later'] or r['elapsed'] > 1.9:
                viol.append(dict(what=f'{tag}: running tasks were not terminated at once (finished later: {r["finished_later"]}, run_tasks ended {r["elapsed"]}s after the first signal; the tasks need 2.5s)',
                                 replay=dict(kind='real-signal', rec=r)))
    shutil.rmtree(tmp, ignore_errors=True)
    if again and attempt < 2:
        out2, viol2 = real_signal_runs(only=again, attempt=attempt + 1)   # repeat the runs that could not be judged
        out += out2
        viol += viol2
    return out, viol


def run(ctx):
    sys.path.insert(0, HERE)
    import intr
    import dagcase
    import dagrun
    tier, seed = ctx['tier'], ctx['seed']
    rng = random.Random(seed * 13 + 1)
    tmp = tempfile.mkdtemp(prefix='verif-c14-')
    try:
        if ctx.get('replay'):
            rp = json.load(open(ctx['replay'])).get('replay') or {}
            if rp.get('kind') == 'real-signal':
                recs, viol = real_signal_runs()
                return dict(evaluations=len(recs), distinct_nontrivial=len(recs), rule='replay: the four real-signal runs', samples=recs[:1],
                            violations=viol, disagreements=[])
            if 'case' not in rp:
                return dict(infra_error='replay file holds no interrupt case')
            jp, op = os.path.join(tmp, 'r.json'), os.path.join(tmp, 'r.out')
            json.dump(dict(case=rp['case'], points=[[rp['n1'], rp.get('n2')]]), open(jp, 'w'))
            r = spawn_workers([([sys.executable, os.path.join(HERE, 'intr.py'), jp, op], op)], 120)
            if not r[0][1]:
                return dict(infra_error='replay run failed: ' + r[0][2])
            rec = json.load(open(op))[0]
            vs = []
            for w in rec['violations']:
                km = None
                if w.startswith('KNOWN:'):
                    _, km, w = w.split(':', 2)
                vs.append(dict(what=w, known_match=km, replay=rp))
            return dict(evaluations=1, distinct_nontrivial=1, rule='replay of one interrupt point', samples=[rec['status']],
                        violations=vs, disagreements=[])
        quick = tier == 'quick'
        plan = [('serial', 4 if quick else 12, 4, 1), ('fork', 3 if quick else 10, 4, 3 if quick else 1),
                ('spawn', 3 if quick else 10, 3, 3 if quick else 1)]
        jobs = []
        dist = {}
        cases = []
        for be, ncases, max_tids, stride in plan:
            for _ in range(ncases):
                case = intr.gen_case(rng, be, max_tids)
                if be == 'serial' and dist.get('serial_cases', 0) == 0:
                    # first serial case: every task is already cached and the call busts the cache, so that
                    # every save of the run OVERWRITES an entry (an interrupted overwrite must not leave a torn entry)
                    case['bust'] = 1
                    case['ca'] = [1, 1, 1]
                    case['pre'] = {t: 1000 * t + 1 for t in range(len(case['ty'])) if any(tt == t for tt, _ in case['inst'])}
                if be != 'serial' and len(cases) % 2 == 0:
                    case['sched'] = []   # every wait consumes all running workers: matches the model's default drain schedule
                n = count_lines(case, tmp)
                cases.append((case, n))
                pts = [[k, None] for k in range(1, n + 1, stride)]
                firsts = sorted(set(rng.randrange(1, n + 1) for _ in range(6 if quick else 25)))
                span = 150 if be == 'serial' else (60 if quick else 150)
                pts += [[f, m] for f in firsts for m in range(1, span + 1)]
                dist[f'{be}_cases'] = dist.get(f'{be}_cases', 0) + 1
                dist[f'{be}_single_points'] = dist.get(f'{be}_single_points', 0) + len(range(1, n + 1, stride))
                dist[f'{be}_double_points'] = dist.get(f'{be}_double_points', 0) + len(firsts) * span
                dist[f'{be}_line_boundaries'] = dist.get(f'{be}_line_boundaries', 0) + n
                # chunks of points so that all cores are used
                chunk = 250
                for i in range(0, len(pts), chunk):
                    jobs.append(dict(case=case, points=pts[i:i + chunk]))
        cmds = []
        for i, job in enumerate(jobs):
            jp, op = os.path.join(tmp, f'j{i}.json'), os.path.join(tmp, f'o{i}.json')
            json.dump(job, open(jp, 'w'))
            cmds.append(([sys.executable, os.path.join(HERE, 'intr.py'), jp, op], op))
        results = []
        errors = []
        batch = 16
        for i in range(0, len(cmds), batch):
            for outp, ok, log, timed_out in spawn_workers(cmds[i:i + batch], 600 if quick else 3000):
                if ok:
                    idx = int(os.path.basename(outp)[1:-5])
                    for rec in json.load(open(outp)):
                        results.append((jobs[idx]['case'], rec))
                else:
                    errors.append(('timeout ' if timed_out else 'failed ') + log[-200:])
        violations = []
        fired = 0
        where = {}
        outcomes = {}
        harness_errors = 0
        for case, rec in results:
            if rec['status'].startswith('HARNESS-ERROR'):
                harness_errors += 1
                continue
            if rec['fired']:
                fired += 1
                f = rec['fired'][-1]
                where[f[1] + ':' + f[2]] = where.get(f[1] + ':' + f[2], 0) + 1
            k = rec['status'].split(' ')[0] + (' ' + rec['status'].split(' ')[1] if rec['status'].startswith('raised') else '')
            outcomes[k] = outcomes.get(k, 0) + 1
            for w in rec['violations']:
                km = None
                if w.startswith('KNOWN:'):
                    _, km, w = w.split(':', 2)
                violations.append(dict(what=w, known_match=km,
                                       replay=dict(kind='interrupt-point', case=case, n1=rec['n1'], n2=rec['n2'],
                                                   line=dagcase.encode(dagrun.normalise(case)), fired=rec['fired'])))
        disagreements, corr_cases, corr_points = correspondence(results)
        wit, werr = known_witness(tmp)
        if werr:
            errors.append(werr)
        for w, rec in wit:
            km = None
            if w.startswith('KNOWN:'):
                _, km, w = w.split(':', 2)
            violations.append(dict(what=w, known_match=km, replay=dict(kind='interrupt-point', case=WITNESS_CASE, n1=rec['n1'], n2=rec['n2'],
                                                                      fired=rec['fired'])))
        real_recs, real_viol = real_signal_runs()
        violations += real_viol
        import repro
        for r in repro.run_many(['D11', 'D14', 'D15', 'D16', 'D17']):
            if r.get('violated'):
                violations.append(dict(what=f"corpus {r['id']}: {r['detail']}", replay=dict(kind='corpus', id=r['id'])))
        if errors and not results:
            return dict(infra_error='; '.join(errors[:3]))
        dist.update(outcomes={k: v for k, v in sorted(outcomes.items())}, harness_errors=harness_errors, worker_errors=errors[:3],
                    functions_interrupted=len(where), top_functions=sorted(where.items(), key=lambda kv: -kv[1])[:12],
                    real_signal_runs=real_recs)
        return dict(
            evaluations=len(results) + len(real_recs), distinct_nontrivial=fired,
            rule='one evaluation = one run_tasks call interrupted at a chosen line boundary (or pair of boundaries) of labtech code in the calling thread; non-trivial = the interrupt was actually delivered before run_tasks ended (distinct (case, boundary[, second boundary]) triples)',
            samples=[dict(line=dagcase.encode(dagrun.normalise(c)), line_boundaries=n) for c, n in cases[:3]],
            violations=[x for x in violations if not x.get('known_match')][:6] + [x for x in violations if x.get('known_match')][:2],
            disagreements=disagreements[:5], distribution=dict(dist, correspondence_cases=corr_cases, correspondence_points=corr_points),
            traces_validated=corr_points,
            assumptions=['an interrupt is modelled as KeyboardInterrupt raised at a line boundary of labtech code in the calling thread; try:/except:/else:/finally: lines are not interrupt instants (CPython checks for signals only at calls, backward jumps and function entry)',
                         'process backends run over the fake-process layer for the sweep; real signals on real fork/spawn workers are exercised at two resting points only',
                         'tasks succeed (the property does not quantify over failures during the drain)'],
            explanation='interrupt sweep on the real coordinator/runners + real SIGINT runs + corpus of five repaired interrupt defects',
        )
    finally:
        shutil.rmtree(tmp, ignore_errors=True)
