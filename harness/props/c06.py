"""C06 — a cache hit returns the result and metadata stored for that very task.

(A) Histories "run; then run again with another backend" over a real LocalStorage directory: the first
run_tasks in one interpreter (serial / real fork / real spawn workers), then is_cached for every task
and a second run_tasks in a FRESH interpreter with another PYTHONHASHSEED and another backend.
Compared with the Lean model (`HIST`): returned values, which tasks executed run() (nothing that the
first run stored), which were loaded, with which value and whose meta (start and duration must equal
what the first run recorded). Monitor: the property itself — a successfully executed cacheable task
is reported cached, is not executed again, loads an equal value and the recorded meta; a load never
returns the value of a different task.
(B) `BaseCache.save` / `load_result_with_meta` / `build_result_meta` round trip on generated
start datetimes and durations (microsecond 0, sub-second, large durations, tz-naive and tz-aware,
None), saved in one interpreter and loaded in the fresh one, both cache classes.
"""
import json
import logging
import os
import random
import shutil
import signal
import subprocess
import sys
import tempfile
import time
from datetime import datetime, timedelta, timezone

HERE = os.path.dirname(os.path.dirname(os.path.abspath(__file__)))
if HERE not in sys.path:
    sys.path.insert(0, HERE)

BACKENDS = ('serial', 'fork', 'spawn')


def gen_case(rng, n=8):
    ty = [rng.randrange(3) for _ in range(n)]
    deps = []
    for t in range(n):
        ds = []
        if t > 0 and rng.random() < 0.7:
            ds = sorted(rng.sample(range(t), min(t, rng.choice([1, 1, 2, 2, 3]))))
        deps.append(ds)
    fl = [int(rng.random() < 0.05) for _ in range(n)]
    req1 = rng.sample(range(n), rng.choice([1, 2, 3]))
    r = rng.random()
    if r < 0.4:
        req2 = list(req1)
    elif r < 0.7:
        req2 = rng.sample(range(n), rng.choice([1, 2, 3, 4]))
    else:
        req2 = sorted(set(req1) | set(rng.sample(range(n), 2)))
    b1 = rng.choice(['serial', 'serial', 'fork', 'fork', 'fork', 'spawn'] if rng.random() < 0.25 else ['serial', 'fork'])
    b2 = rng.choice([b for b in ('serial', 'fork') if b != b1] + (['spawn'] if rng.random() < 0.05 else []))
    # free-text parameters: non-ASCII, astral, and a lone surrogate as produced by os.fsdecode(b'caf\xe9')
    labels = [rng.choice(['', 'plain', 'é', 'Zürich — naïve', '日本語', '😀 x', os.fsdecode(b'caf\xe9'), 'a\u0000b'])
              for _ in range(n)]
    return dict(ty=ty, ca=['p', 'o', 'p'], deps=deps, fl=fl, storage='local', labels=labels,
                ops=[['R', 0, 1, req1], ['R', 0, 2, req2]], b1=b1, b2=b2)


def gen_meta(rng):
    """start datetimes / durations for part B"""
    starts = [datetime(2024, 2, 29, 23, 59, 59), datetime(2024, 1, 1, 0, 0, 0, 0), datetime(1, 1, 1, 0, 0, 0, 1),
              datetime(9999, 12, 31, 23, 59, 59, 999999), datetime(2021, 3, 4, 5, 6, 7, 800000),
              datetime(2020, 6, 1, 12, 0, 0, tzinfo=timezone.utc),
              datetime(2020, 6, 1, 12, 0, 0, 5, tzinfo=timezone(timedelta(hours=-9, minutes=-30))), None]
    durs = [timedelta(0), timedelta(microseconds=1), timedelta(seconds=1), timedelta(seconds=59, microseconds=999999),
            timedelta(days=400, microseconds=1), timedelta(days=3650, seconds=86399, microseconds=999999),
            timedelta(hours=1), None]
    for _ in range(6):
        starts.append(datetime(rng.randint(1970, 2100), rng.randint(1, 12), rng.randint(1, 28), rng.randint(0, 23),
                               rng.randint(0, 59), rng.randint(0, 59), rng.choice([0, 0, rng.randint(0, 999999)])))
        durs.append(timedelta(days=rng.choice([0, 0, rng.randint(0, 3000)]), seconds=rng.randint(0, 86399),
                              microseconds=rng.choice([0, rng.randint(0, 999999)])))
    return [(s, d) for s in starts for d in durs]


def enc_dt(s):
    return None if s is None else s.isoformat()


def enc_td(d):
    return None if d is None else [d.days, d.seconds, d.microseconds]


def dec_td(x):
    return None if x is None else timedelta(days=x[0], seconds=x[1], microseconds=x[2])


# ------------------------------------------------------------------ first interpreter
def first_main(spec_path, out_path):
    import labtech
    from labtech.types import ResultMeta, TaskResult
    import histtasks as H
    labtech.logger.setLevel(logging.CRITICAL)
    spec = json.load(open(spec_path))
    out = []
    for i, case in enumerate(spec['cases']):
        try:
            d = tempfile.mkdtemp(prefix='h-', dir=spec['root'])
            log = os.path.join(d, 'exec1.log')
            os.environ['VERIF_HIST_LOG'] = log
            H.configure(case['ca'])
            objs = H.build(case)
            lab = labtech.Lab(storage=os.path.join(d, 'store'), runner_backend=case['b1'], max_workers=2,
                              context={'g': 1}, continue_on_failure=True)
            req = case['ops'][0][3]
            r = lab.run_tasks([objs[t] for t in req], disable_progress=True, disable_top=True)
            lines = [l.split() for l in open(log).read().splitlines()] if os.path.exists(log) else []
            execd = sorted(int(l[1]) for l in lines if l[0] == 'X')
            metas = {o.k: [enc_dt(o.result_meta.start), enc_td(o.result_meta.duration)]
                     for o in objs if o.result_meta is not None and o.k in execd}
            import locale
            out.append(dict(case=case, dir=d, enc1=locale.getpreferredencoding(False),
                            ret1={t.k: v for t, v in r.items()}, exec1=execd, metas1=metas,
                            cached1=sorted(o.k for o in objs if lab.is_cached(o))))
        except BaseException:
            import traceback
            out.append(dict(case=case, infra=traceback.format_exc()[-800:]))
    # part B: save generated metas
    metaB = []
    if spec.get('metas'):
        d = tempfile.mkdtemp(prefix='m-', dir=spec['root'])
        from labtech.storage import LocalStorage
        st = LocalStorage(os.path.join(d, 'store'))
        for j, (s, du) in enumerate(spec['metas']):
            for T in (0, 1):
                task = H.TYPES[T](k=100000 + j)
                meta = ResultMeta(start=None if s is None else datetime.fromisoformat(s), duration=dec_td(du))
                task._lt.cache.save(st, task, TaskResult(value=j, meta=meta))
        metaB = dict(dir=d, metas=spec['metas'])
    json.dump(dict(records=out, metaB=metaB), open(out_path, 'w'), default=str)


# ------------------------------------------------------------------ fresh interpreter
def second_main(spec_path, out_path):
    import labtech
    import histtasks as H
    labtech.logger.setLevel(logging.CRITICAL)
    spec = json.load(open(spec_path))
    out = []
    for rec in spec['records']:
        if rec.get('infra'):
            out.append(rec)
            continue
        try:
            case = rec['case']
            log = os.path.join(rec['dir'], 'exec2.log')
            os.environ['VERIF_HIST_LOG'] = log
            H.configure(case['ca'])
            objs = H.build(case)
            lab = labtech.Lab(storage=os.path.join(rec['dir'], 'store'), runner_backend=case['b2'], max_workers=2,
                              context={'g': 2}, continue_on_failure=True)
            cached2 = sorted(o.k for o in objs if lab.is_cached(o))
            req = case['ops'][1][3]
            r = lab.run_tasks([objs[t] for t in req], disable_progress=True, disable_top=True)
            lines = [l.split() for l in open(log).read().splitlines()] if os.path.exists(log) else []
            execd = sorted(int(l[1]) for l in lines if l[0] == 'X')
            loaded = {int(l[1]): (int(l[2]) if l[2].lstrip('-').isdigit() else l[2]) for l in lines if l[0] == 'L'}
            metas = {o.k: [enc_dt(o.result_meta.start), enc_td(o.result_meta.duration)]
                     for o in objs if o.result_meta is not None}
            import locale
            out.append(dict(rec, hashseed=os.environ.get('PYTHONHASHSEED'), enc2=locale.getpreferredencoding(False),
                            cached2=cached2,
                            ret2={t.k: v for t, v in r.items()}, exec2=execd, loaded2=loaded, metas2=metas))
        except BaseException:
            import traceback
            out.append(dict(case=rec['case'], infra=traceback.format_exc()[-800:]))
    metaB = []
    mb = spec.get('metaB')
    if mb:
        from labtech.storage import LocalStorage
        st = LocalStorage(os.path.join(mb['dir'], 'store'))
        for j, (s, du) in enumerate(mb['metas']):
            for T in (0, 1):
                task = H.TYPES[T](k=100000 + j)
                try:
                    tr = task._lt.cache.load_result_with_meta(st, task)
                    got = [enc_dt(tr.meta.start), enc_td(tr.meta.duration), tr.value]
                except BaseException as e:
                    got = ['raised ' + type(e).__name__ + ': ' + str(e)[:80], None, None]
                metaB.append(dict(j=j, T=T, saved=[s, du, j], got=got))
    json.dump(dict(records=out, metaB=metaB), open(out_path, 'w'), default=str)


LOCALES = {
    # what the interpreter's text encoding is: files opened without an explicit encoding use it
    'utf8': dict(LC_ALL='C.UTF-8', LANG='C.UTF-8', PYTHONUTF8='0', PYTHONCOERCECLOCALE='0'),
    'c': dict(LC_ALL='C', LANG='C', PYTHONUTF8='0', PYTHONCOERCECLOCALE='0'),   # legacy locale: ASCII
}
LOCALE_PAIRS = [('utf8', 'c'), ('c', 'utf8'), ('utf8', 'utf8')]


def run_phase(flag, payloads, timeout, seed_base, locs=None):
    tmp = tempfile.mkdtemp(prefix='verif-c06w-')
    try:
        procs = []
        for i, pl in enumerate(payloads):
            sp, op, lp = (os.path.join(tmp, f'{x}{i}.json') for x in ('spec', 'out', 'log'))
            json.dump(pl, open(sp, 'w'))
            lf = open(lp, 'w')
            env = dict(os.environ, PYTHONPATH=HERE + os.pathsep + os.environ.get('VERIF_REPO', '/repo'),
                       PYTHONHASHSEED=str(seed_base + i))
            if locs:
                env.update(LOCALES[locs[i]])
            procs.append((subprocess.Popen([sys.executable, os.path.abspath(__file__), flag, sp, op],
                                           stdout=lf, stderr=lf, stdin=subprocess.DEVNULL,
                                           start_new_session=True, env=env), op, lp, lf))
        outs, errors = [], []
        deadline = time.time() + timeout
        for p, op, lp, lf in procs:
            try:
                p.wait(timeout=max(0.1, deadline - time.time()))
            except subprocess.TimeoutExpired:
                errors.append('worker timeout')
            try:
                os.killpg(p.pid, signal.SIGKILL)
            except (ProcessLookupError, PermissionError):
                pass
            p.wait()
            lf.close()
            if os.path.exists(op):
                outs.append(json.load(open(op)))
            else:
                outs.append(dict(records=[], metaB=[]))
                errors.append('worker produced no output: ' + open(lp).read()[-400:])
        return outs, errors
    finally:
        shutil.rmtree(tmp, ignore_errors=True)


def explore(cases, metas, workers, timeout):
    root = tempfile.mkdtemp(prefix='verif-c06-')
    try:
        chunks = [ch for ch in (cases[i::workers] for i in range(workers)) if ch]
        pl = [dict(cases=ch, root=root, metas=(metas if i == 0 else [])) for i, ch in enumerate(chunks)]
        pairs = [tuple(ch[0]['locales']) if ch[0].get('locales') else LOCALE_PAIRS[i % len(LOCALE_PAIRS)]
                 for i, ch in enumerate(chunks)]
        o1, e1 = run_phase('--first', pl, timeout, 100, [p[0] for p in pairs])
        for o, pr in zip(o1, pairs):
            for r in o['records']:
                r['locales'] = list(pr)
                r['case']['locales'] = list(pr)      # a replay re-runs under the same two text encodings
        o2, e2 = run_phase('--second', [dict(records=o['records'], metaB=o['metaB']) for o in o1], timeout, 7000,
                           [p[1] for p in pairs])
        return [r for o in o2 for r in o['records']], [m for o in o2 for m in o['metaB']], e1 + e2
    finally:
        shutil.rmtree(root, ignore_errors=True)


# ------------------------------------------------------------------ compare
def lst(l):
    return ','.join(str(x) for x in l)


def real_lines(rec):
    case = rec['case']
    req1, req2 = case['ops'][0][3], case['ops'][1][3]
    ret1 = ','.join(f"{t}:{rec['ret1'][str(t)]}" for t in req1 if str(t) in rec['ret1'])
    l1 = f"ran ret={ret1} exec={lst(rec['exec1'])} loaded= K={lst(rec['cached1'])}"
    ret2 = ','.join(f"{t}:{rec['ret2'][str(t)]}" for t in req2 if str(t) in rec['ret2'])
    loaded = []
    for k, v in sorted((int(k), v) for k, v in rec['loaded2'].items()):
        same = rec['metas2'].get(str(k)) == rec['metas1'].get(str(k)) and str(k) in rec['metas1']
        loaded.append(f"{k}:{v}:{1 if same else 'X'}")
    return [l1, f"ran ret={ret2} exec={lst(rec['exec2'])} loaded={','.join(loaded)}"]


def monitor(rec):
    """the property, directly"""
    out = []
    case = rec['case']
    ok1 = [k for k in rec['exec1'] if str(k) in rec['metas1']]   # executed successfully in run 1 (meta was set)
    for k in ok1:
        if k not in rec['cached2']:
            out.append(f'task {k} executed successfully in the first run but is_cached is false in a fresh process')
        if k in rec['exec2']:
            out.append(f'task {k} was stored by the first run but run() was called again by the second run')
    val1 = {}
    # values of run 1: returned ones directly; others through the value law of the task family
    for k in sorted(ok1):
        val1[k] = 1000 * k + 1 + sum(val1.get(d, 0) for d in case['deps'][k])
    for k, v in rec['loaded2'].items():
        k = int(k)
        if k in val1 and v != val1[k]:
            other = [t for t, w in val1.items() if w == v and t != k]
            out.append(f'load of task {k} returned {v}, not the value {val1[k]} stored for it' +
                       (f' (it is the value stored for task {other[0]})' if other else ''))
        if str(k) in rec['metas1'] and rec['metas2'].get(str(k)) != rec['metas1'][str(k)]:
            out.append(f"task {k}: result_meta after the load {rec['metas2'].get(str(k))} differs from the recorded {rec['metas1'][str(k)]}")
    for t in case['ops'][1][3]:
        if t in val1 and str(t) in rec['ret2'] and rec['ret2'][str(t)] != val1[t]:
            out.append(f"second run returned {rec['ret2'][str(t)]} for task {t}; the first run stored {val1[t]}")
        if t in val1 and str(t) not in rec['ret2']:
            out.append(f'second run returned nothing for task {t} although the first run stored its result')
    return out


def evaluate(recs, metaB):
    import driver
    from props import c08
    violations, disagreements = [], []
    lines = [c08.encode(r['case']) for r in recs]
    outs = driver.run_lines(lines) if lines else []
    for r, ml, mo in zip(recs, lines, outs):
        model = [s.rsplit(' K=', 1) for s in mo.split(' | ')]
        real = real_lines(r)
        r['real'] = real
        # the second segment is compared without K (the fresh process reports is_cached before its run)
        m1 = model[0][0] + ' K=' + model[0][1] if len(model) == 2 else mo
        m2 = model[1][0] if len(model) == 2 else ''
        if [m1, m2] != real:
            disagreements.append(dict(case=r['case'], real=real, model=[m1, m2], line=ml))
        for what in monitor(r):
            violations.append(dict(what=what + f" (first run: {r['case']['b1']}, text encoding {r.get('enc1')}; second run in a fresh interpreter: {r['case']['b2']}, text encoding {r.get('enc2')})",
                                   replay=dict(kind='two-runs', case=r['case'], real=real, model=[m1, m2])))
    for m in metaB:
        if m['saved'][0] is None or m['saved'][1] is None:
            # outside the property: a Lab always records a start and a duration. (Observation: save()
            # accepts a None start/duration and writes null, build_result_meta then raises TypeError.)
            continue
        if m['got'] != m['saved']:
            violations.append(dict(what=f"build_result_meta round trip: saved start/duration/value {m['saved']} loaded back as {m['got']} (cache class {'PickleCache' if m['T'] == 0 else 'second BaseCache subclass'})",
                                   replay=dict(kind='meta', meta=m['saved'][:2], case=None)))
    return violations, disagreements


KNOWN_F07E = 'colliding_key_pair_served_others_result'


def colliding_pairs_probe():
    """the two input classes whose cache keys collide (known findings F07, F07c): the second member of a pair, run after
    the first under one storage, must get ITS result. Returns the list of violations (known_match F07e)."""
    import logging
    import labtech
    import colltasks as CT
    labtech.logger.setLevel(logging.CRITICAL)
    out = []
    pairs = [('dict spelling a task', CT.Echo(p={'_is_task': True, '__class__': 'colltasks.Leaf', 'x': 1}), CT.Echo(p=CT.Leaf(x=1))),
             ('surrogate pair', CT.Echo(p=chr(0xD800) + chr(0xDC00)), CT.Echo(p=chr(0x10000)))]
    for name, a, b in pairs:
        d = tempfile.mkdtemp(prefix='verif-c06c-')
        try:
            want_b = b.run() if name != 'dict spelling a task' else 'Leaf'
            lab = labtech.Lab(storage=d, runner_backend='serial')
            lab.run_tasks([a], disable_progress=True, disable_top=True)
            got = lab.run_tasks([b], disable_progress=True, disable_top=True).get(b)
            if a != b and got != want_b:
                out.append(dict(what=f'colliding cache keys ({name}): the second task was served the result stored for the first ({got!r} instead of {want_b!r})',
                                replay=dict(kind='collision-probe', pair=name), known_match=KNOWN_F07E))
        except BaseException as e:
            out.append(dict(what=f'colliding cache keys ({name}): probe raised {type(e).__name__}: {e}'[:200],
                            replay=dict(kind='collision-probe', pair=name), known_match=KNOWN_F07E))
        finally:
            shutil.rmtree(d, ignore_errors=True)
    return out


def run(ctx):
    tier, seed = ctx['tier'], ctx['seed']
    t0 = time.time()
    rng = random.Random(seed * 1000003 + 6)
    if ctx.get('replay'):
        rp = json.load(open(ctx['replay']))
        rep = rp.get('replay') or {}
        from props import c06x
        if rep.get('kind') in c06x.KINDS:
            x = c06x.run_extra(rng, tier, only=rep)
            if x['errors']:
                return dict(infra_error='; '.join(x['errors']))
            return dict(evaluations=x['evaluations'], distinct_nontrivial=x['nontrivial'], rule='replay',
                        samples=x['samples'], violations=c06x.labelled(x['violations'], 'C06'), disagreements=x['disagreements'])
        if rep.get('kind') == 'meta':
            recs, metaB, errors = explore([], [], 1, 120)
            recs, metaB, errors = explore([gen_case(rng)], [rep['meta']], 1, 120)
            recs = []
        elif rep.get('case'):
            recs, metaB, errors = explore([rep['case']], [], 1, 120)
        else:
            return dict(infra_error='replay file holds no case')
        if errors or any(r.get('infra') for r in recs):
            return dict(infra_error='; '.join(errors + [r['infra'] for r in recs if r.get('infra')]))
        viol, dis = evaluate(recs, metaB)
        return dict(evaluations=1, distinct_nontrivial=1, rule='replay', samples=[r.get('real') for r in recs],
                    violations=viol, disagreements=dis)
    if not ctx['driver_ok']:
        return dict(evaluations=0, disagreements=[dict(diff='driver does not build')], violations=[])
    n = 150 if tier == 'quick' else 2000
    cases = [gen_case(rng) for _ in range(n)]
    collide = colliding_pairs_probe()
    metas = [[enc_dt(s), enc_td(d)] for s, d in gen_meta(rng)]
    # the confusable-task and __main__-script families (props/c06x.py) run alongside
    import threading
    from props import c06x
    xbox = {}
    xrng = random.Random(seed * 1000003 + 66)
    xth = threading.Thread(target=lambda: xbox.update(c06x.run_extra(xrng, tier)))
    xth.start()
    recs, metaB, errors = explore(cases, metas, 12, 50 if tier == 'quick' else 800)
    xth.join()
    infra = [r for r in recs if r.get('infra')]
    if errors or infra or xbox.get('errors') or 'violations' not in xbox:
        return dict(infra_error='; '.join(errors + [r['infra'] for r in infra[:2]] + xbox.get('errors', ['extra families did not finish'])))
    viol, dis = evaluate(recs, metaB)
    # (every violation of these families names the properties whose statement it violates; here: C06's)
    viol = c06x.labelled(xbox['violations'], 'C06') + viol
    dis = xbox['disagreements'] + dis
    if (dis or not ctx['proof_ok']) and not viol:
        rng2 = random.Random(seed * 7919 + 61)
        recs2, metaB2, _ = explore([gen_case(rng2) for _ in range(n * 3)], [], 16, 900)
        recs2 = [r for r in recs2 if not r.get('infra')]
        v2, _ = evaluate(recs2, [])
        viol += v2
        recs += recs2
    viol = collide + viol   # (known finding F07e; after the enlarged search so that it does not suppress it)
    nontrivial = [r for r in recs if r['loaded2']]
    dist = dict(
        histories=len(recs), backend_pairs={},
        text_encoding_first_to_second_interpreter={},
        histories_with_non_ascii_parameter=sum(1 for r in recs if any(ord(ch) > 127 for l in r['case'].get('labels', []) for ch in l)),
        histories_with_lone_surrogate_parameter=sum(1 for r in recs if any(0xD800 <= ord(ch) <= 0xDFFF for l in r['case'].get('labels', []) for ch in l)), meta_round_trips=len(metaB), **xbox['dist'],
        observation_none_start_or_duration=sorted({str(m['got'][0])[:70] for m in metaB
                                                   if (m['saved'][0] is None or m['saved'][1] is None)}),
        second_run_hash_seeds=sorted({r.get('hashseed') for r in recs})[:20],
        loads_in_second_run=sum(len(r['loaded2']) for r in recs),
        executions_in_second_run=sum(len(r['exec2']) for r in recs),
        histories_with_failing_task=sum(1 for r in recs if any(r['case']['fl'])),
        second_request_differs=sum(1 for r in recs if r['case']['ops'][0][3] != r['case']['ops'][1][3]),
        wall_s=round(time.time() - t0, 1))
    for r in recs:
        k = r['case']['b1'] + '->' + r['case']['b2']
        dist['backend_pairs'][k] = dist['backend_pairs'].get(k, 0) + 1
        e = f"{r.get('enc1')}->{r.get('enc2')}"
        dist['text_encoding_first_to_second_interpreter'][e] = dist['text_encoding_first_to_second_interpreter'].get(e, 0) + 1
    return dict(
        evaluations=len(recs) + len(metaB) + xbox['evaluations'],
        distinct_nontrivial=len({json.dumps(r['case'], sort_keys=True) for r in nontrivial}) + xbox['nontrivial'],
        rule='generated two-run histories (8 tasks with dependencies over 3 types / 2 cache classes, first run serial|fork|spawn, second run in a fresh interpreter with another PYTHONHASHSEED and another backend, second request equal / different / superset; free-text parameters with non-ASCII / astral / lone-surrogate / NUL characters; text encodings of the two interpreters UTF-8->ASCII (legacy C locale), ASCII->UTF-8, UTF-8->UTF-8) + save/load round trips of generated start/duration pairs; + sequences of ==-equal-but-differently-typed (confusable) tasks constructed and run one after the other in one process, re-checked in a fresh interpreter (also: members of same-named enum classes nested in different holder classes / of two modules, same-qualname task classes of two modules with equal parameter values) + a generated __main__ script (task classes defined in the script) run twice with spawn first / spawn second + round trips run -> cached_tasks -> run_tasks(listed) over dict parameters with unsorted keys; non-trivial = the second run served at least one task from the cache',
        samples=[dict(case=r['case'], real=r['real']) for r in nontrivial[:2]] + xbox['samples'],
        violations=viol[:7], disagreements=dis[:5], distribution=dist,
        assumptions=['distinct tasks have distinct cache keys (C07; the recorded finding F07 is outside this universe)',
                     'durations up to ~10 years (float seconds keep microsecond precision up to ~140 years)',
                     'real serial / fork / spawn backends; LocalStorage'],
        explanation='first run in one interpreter, is_cached + second run in a fresh interpreter over the same LocalStorage directory; values, run() execution records, loaded values and result_meta (start, duration) compared with the Lean HIST model and checked directly; build_result_meta exercised on generated datetimes/durations across the two interpreters',
    )


if __name__ == '__main__':
    if len(sys.argv) == 4 and sys.argv[1] == '--first':
        first_main(sys.argv[2], sys.argv[3])
    elif len(sys.argv) == 4 and sys.argv[1] == '--second':
        second_main(sys.argv[2], sys.argv[3])
