"""C19 — messages emitted by a task reach the caller's log exactly once.

(a) real `LoggerFileProxy` on generated write/flush sequences vs the Lean model (`LOG proxy`);
(b) the real `ProcessRunner.wait` + real `_subprocess_func` + real coordinator loop over the fake-process
    layer (harness/fakeproc.py): workers log / print / flush by script, the schedule decides which records
    and which results become visible before a `wait`, inside its `executor.wait`, or between the result
    drain and the second log drain — in particular which task finishes last and in which phase; a recording
    handler on `labtech.logger` is read at the moment `run_tasks` returns; compared with `LOG run`;
(c) a few runs on the real fork and spawn backends with staggered sleeps so that each task in turn
    finishes last;
plus the regression corpus D5a/D5b/D5c of harness/repro.py.
Both exits of run_tasks are observed: the normal return, and — for cases with a failing task under
continue_on_failure=False — the LabError raised from inside the loop that consumes `runner.wait()` (the generator
is abandoned at that yield).
Monitors: every message emitted by a task whose outcome the coordinator had consumed is delivered exactly once at
the moment run_tasks exits (all tasks on a normal return); nothing is ever delivered twice."""
import copy
import json
import os
import random
import re
import shutil
import signal
import subprocess
import sys
import tempfile
import time

HERE = os.path.dirname(os.path.dirname(os.path.abspath(__file__)))
REPO = os.environ.get('VERIF_REPO', '/repo')
OUT_PRE = 'Captured STDOUT:\n'
ERR_PRE = 'Captured STDERR:\n'
MARK = re.compile(r'@@\d+\.\d+@')

WS = [' ', '\t', '\n', '\r', '\x0b', '\x0c', '\x1c', '\x1f', '\x85', '\xa0', '\u1680', '\u2000', '\u2003',
      '\u200a', '\u2028', '\u2029', '\u202f', '\u205f', '\u3000', '\r\n', '  \n']
NEAR = ['\u200b', '\u180e', '\ufeff', '\x00', '\x08', '\x1b', '\u2060', '\x7f', '\x1a', '\x21']  # not \s


def hx(s):
    return s.encode('utf-8').hex()


def is_blank(s):
    """independent of the regex: empty or only str.isspace() characters"""
    return all(ch.isspace() for ch in s)


# =============================================================================================
# (a) proxy
# =============================================================================================

def gen_text(rng, tag):
    r = rng.random()
    if r < 0.22:
        return ''.join(rng.choice(WS) for _ in range(rng.choice([0, 1, 1, 2, 3])))   # blank
    if r < 0.30:
        return rng.choice(NEAR) * rng.choice([1, 2])                                     # looks blank, is not
    body = rng.choice(['line', 'é', 'a b', 'x\ny', 'tab\there', OUT_PRE.strip(), '{"k": 1}', '%s %d'])
    return rng.choice(['', '', ' ', '\n', '\t']) + f'{body}{tag}' + rng.choice(['', '', '\n', ' ', '\n\n', '\u3000'])


LONG = 40961   # one write far longer than any plausible chunking threshold of the proxy, no line break in it


def long_text(rng, tag):
    """a single very long write: no line break at all, or a line break only near its start / at its very end"""
    size = rng.choice([32769, LONG, 70001])
    body = (rng.choice(['y', 'é', 'ab ']) if size < LONG else rng.choice(['y', 'ab '])) * size
    return rng.choice(['', '', 'a\n', ' ']) + body[:size] + tag + rng.choice(['', '', '\n'])


def gen_proxy_case(rng, big=False):
    n = rng.choice([0, 1, 2, 3, 5, 8] + ([20, 40] if big else []))
    ops = []
    long_at = rng.randrange(n) if n and rng.random() < 0.005 else None
    for i in range(n):
        if i == long_at:
            ops.append(['w', long_text(rng, f'@@0.{i}@')])
        elif rng.random() < 0.35:
            ops.append(['f'])
        else:
            ops.append(['w', gen_text(rng, f'@@0.{i}@')])
    if rng.random() < 0.7:
        ops.append(['f'])
    if rng.random() < 0.3:
        ops.append(['f'])
    return dict(kind='proxy', pre=rng.choice([OUT_PRE, ERR_PRE, 'P:', '', 'é ']), ops=ops)


def proxy_line(case):
    return 'LOG proxy pre=%s ops=%s' % (hx(case['pre']), ','.join('f' if op[0] == 'f' else 'w' + hx(op[1]) for op in case['ops']))


class Messages(list):
    """what the logger function received; `hung` names the call that did not come back"""
    hung = None


class ProxyWatchdog(BaseException):
    pass


PROXY_WATCHDOG_S = 3.0


def proxy_real(case):
    """the write/flush sequence on the real LoggerFileProxy, under a watchdog (a write or flush that does not return
    within PROXY_WATCHDOG_S is recorded - a worker stuck there never reports - and the sequence is abandoned)"""
    import signal
    import threading
    from labtech.utils import LoggerFileProxy
    got = Messages()
    p = LoggerFileProxy(got.append, case['pre'])
    armed = threading.current_thread() is threading.main_thread()

    def on_alarm(signum, frame):
        raise ProxyWatchdog()
    old = signal.signal(signal.SIGALRM, on_alarm) if armed else None
    at = None
    try:
        for at, op in enumerate(case['ops']):
            if armed:
                signal.setitimer(signal.ITIMER_REAL, PROXY_WATCHDOG_S)
            if op[0] == 'f':
                p.flush()
            else:
                p.write(op[1])
            if armed:
                signal.setitimer(signal.ITIMER_REAL, 0)
    except ProxyWatchdog:
        op = case['ops'][at]
        got.hung = 'operation %d (%s) did not return within %gs' % (
            at, 'flush()' if op[0] == 'f' else 'write() of %d characters' % len(op[1]), PROXY_WATCHDOG_S)
    finally:
        if armed:
            signal.setitimer(signal.ITIMER_REAL, 0)
            signal.signal(signal.SIGALRM, old)
    if got.hung:
        return 'HANG ' + got.hung, got, []
    bufs = [b for b in p.bufs]
    return 'ok bufs=%s out=%s' % (','.join('x' + hx(b) for b in bufs), ','.join('x' + hx(m) for m in got)), got, bufs


def proxy_monitor(case, got, bufs):
    """every non-blank write reaches logger_func exactly once, in order: the messages are exactly the
    non-empty groups of non-blank writes between flushes; nothing is left after a final flush"""
    groups, cur = [], []
    for op in case['ops']:
        if op[0] == 'f':
            if cur:
                groups.append(cur)
            cur = []
        elif not is_blank(op[1]):
            cur.append(op[1])
    want = ['\n'.join(case['pre'] + b for b in g) for g in groups]
    v = []
    if getattr(got, 'hung', None):
        v.append('LoggerFileProxy: ' + got.hung + ' (%d of %d messages had reached the logger): the captured output is '
                 'never delivered and the worker never reports' % (len(got), len(want)))
    elif list(got) != want:
        v.append('LoggerFileProxy handed %d messages to the logger where the writes/flushes call for %d '
                 '(a write re-delivered, lost or reordered)' % (len(got), len(want)))
    return v   # (the buffer left behind is internal state: compared with the model only)


def shrink_proxy(case):
    def bad(c):
        _, got, bufs = proxy_real(c)
        return bool(proxy_monitor(c, got, bufs))
    cur = case
    changed = True
    while changed:
        changed = False
        for i in range(len(cur['ops'])):
            c = dict(cur, ops=cur['ops'][:i] + cur['ops'][i + 1:])
            if bad(c):
                cur, changed = c, True
                break
        else:
            for i, op in enumerate(cur['ops']):
                if op[0] == 'w' and len(op[1]) > 1 and not is_blank(op[1]):
                    c = dict(cur, ops=cur['ops'][:i] + [['w', op[1].strip()[:1] or 'a']] + cur['ops'][i + 1:])
                    if c != cur and bad(c):
                        cur, changed = c, True
                        break
    return cur


# =============================================================================================
# (b) scripts, schedules, encoding
# =============================================================================================

def gen_script(rng, k, big=False):
    n = rng.choice([0, 1, 2, 3, 4, 6] + ([10] if big else []))
    ops = []
    for i in range(n):
        tag = f'@@{k}.{i}@'
        c = rng.choice('LLWPPXQOOE')
        if c in 'OE':
            ops.append(c)
        elif c == 'L':
            ops.append('L' + hx(rng.choice(['msg ', 'é ', 'two\nlines ']) + tag))
        else:
            s = gen_text(rng, tag)
            if not is_blank(s) and not MARK.search(s):
                s = s + tag
            ops.append(c + hx(s))
    if rng.random() < 0.2:
        ops.insert(rng.randint(0, len(ops)), 'F')
    return ';'.join(ops)


def gen_sched(rng, n, last=None, last_phase=None):
    """random progress/finish steps, then every worker is finished explicitly, `last` last, in phase `last_phase`"""
    rounds = []
    for _ in range(rng.choice([0, 0, 1, 2, 3])):
        rnd = [[], [], []]
        for ph in range(3):
            for _ in range(rng.choice([0, 0, 1, 2])):
                w = rng.randrange(n)
                if rng.random() < 0.7:
                    rnd[ph].append(['a', w, rng.choice([1, 1, 2, 3])])
                else:
                    rnd[ph].append(['f', w])
        rounds.append(rnd)
    order = list(range(n))
    rng.shuffle(order)
    if last is not None:
        order.remove(last)
        order.append(last)
    tail = []
    for w in order[:-1]:
        if rng.random() < 0.5 and tail:
            tail[-1][rng.randrange(3)].append(['f', w])   # same round as the previous one
        else:
            rnd = [[], [], []]
            rnd[rng.randrange(3)].append(['f', w])
            tail.append(rnd)
    final = [[], [], []]
    ph = last_phase if last_phase is not None else rng.randrange(3)
    if rng.random() < 0.5:
        final[rng.randrange(ph + 1)].append(['a', order[-1], rng.choice([1, 2])])
    final[ph].append(['f', order[-1]])
    if rng.random() < 0.4 and tail:
        # the last worker finishes in the same round as the one before it
        for p in range(3):
            final[p] = tail[-1][p] + final[p] if p <= ph else final[p] + tail[-1][p]
        tail.pop()
    return rounds + tail + [final, [[], [], []], [[], [], []]]


def gen_fake_case(rng, big=False):
    n = rng.choice([1, 2, 2, 3, 3, 4] + ([6] if big else []))
    scripts = [gen_script(rng, k, big) for k in range(n)]
    last = rng.randrange(n)
    if rng.random() < 0.35:
        # continue_on_failure=False with a failing task: run_tasks exits by LabError in the round that yields the failure
        failing = [k for k in range(n) if 'F' in scripts[k].split(';')]
        if not failing:
            k = rng.randrange(n)
            ops = scripts[k].split(';') if scripts[k] else []
            ops.insert(rng.randint(0, len(ops)), 'F')
            scripts[k] = ';'.join(ops)
            failing = [k]
        if rng.random() < 0.6:
            last = rng.choice(failing)   # the failing task finishes last, mostly inside executor.wait
        return dict(kind='fake', be=rng.choice(['fork', 'spawn']), scripts=scripts, cof=False,
                    sched=gen_sched(rng, n, last, rng.choice([0, 1, 1, 1, 1, 2])), last=last)
    return dict(kind='fake', be=rng.choice(['fork', 'spawn']), scripts=scripts,
                sched=gen_sched(rng, n, last, rng.choice([0, 1, 1, 1, 2])), last=last)


def failing_workers(case):
    return [k for k, sc in enumerate(case['scripts']) if 'F' in sc.split(';')]


def burst_texts(script_k, op):
    """the strings of an R (logger burst) / T (print+flush burst) op of worker script_k"""
    n, base = (int(x) for x in op[1:].split(':'))
    word = 'burst' if op[0] == 'R' else 'line'
    return ['%s @@%d.%d@' % (word, script_k, base + i) for i in range(n)]


def script_emits(script, k=0):
    """model emissions of a script: print(s) = write(s), write('\\n'); nothing after F; a final K = dies hard there"""
    out = []
    for op in (script.split(';') if script else []):
        c, arg = op[0], op[1:]
        if c == 'R':
            out += ['l' + hx(t) for t in burst_texts(k, op)]
        elif c == 'T':
            for t in burst_texts(k, op):
                out += ['o' + hx(t), 'o0a', 'O']
        elif c == 'K':
            out.append('K')
            break
        elif c == 'L':
            out.append('l' + arg)
        elif c == 'W':
            out.append('o' + arg)
        elif c == 'X':
            out.append('e' + arg)
        elif c == 'P':
            out += ['o' + arg, 'o0a']
        elif c == 'Q':
            out += ['e' + arg, 'e0a']
        elif c in 'OE':
            out.append(c)
        elif c == 'F':
            break
    return ','.join(out)


def sched_str(sched):
    return '/'.join('|'.join(','.join((f'a{s[1]}.{s[2]}' if s[0] == 'a' else f'f{s[1]}') for s in ph) for ph in rnd)
                    for rnd in sched)


def run_line(case):
    return 'LOG run n=%d w=%s sched=%s cof=%d fail=%s' % (
        len(case['scripts']), ';'.join(script_emits(s, k) for k, s in enumerate(case['scripts'])), sched_str(case['sched']),
        1 if case.get('cof', True) else 0, ','.join(str(k) for k in failing_workers(case)))


def emitted(case, optional=None):
    """marker -> channel ('log' | 'out' | 'err') for everything the scripts emit (non-blank); the markers of
    blank writes are not expected anywhere.  A worker that kills itself (K) has emitted what precedes the K; its
    stdout/stderr writes that no explicit flush handed over before the kill are legitimately lost: they go to
    `optional` (may be absent, never twice) instead."""
    want = {}
    for k, script in enumerate(case['scripts']):
        pend = {'out': [], 'err': []}
        killed = False
        for op in (script.split(';') if script else []):
            c, arg = op[0], op[1:]
            if c == 'F':
                break
            if c == 'K':
                killed = True
                break
            if c == 'R':
                for t in burst_texts(k, op):
                    want[MARK.search(t).group(0)] = 'log'
            elif c == 'T':
                for t in burst_texts(k, op):
                    want[MARK.search(t).group(0)] = 'out'
            elif c == 'O':
                pend['out'] = []
            elif c == 'E':
                pend['err'] = []
            elif c in 'LWPXQ':
                s = bytes.fromhex(arg).decode('utf-8')
                if c != 'L' and is_blank(s):
                    continue
                ch = {'L': 'log', 'W': 'out', 'P': 'out', 'X': 'err', 'Q': 'err'}[c]
                for m in MARK.findall(s):
                    want[m] = ch
                    if ch != 'log':
                        pend[ch].append(m)
        if killed:
            for ch in ('out', 'err'):
                for m in pend[ch]:
                    del want[m]
                    if optional is not None:
                        optional[m] = ch
    return want


def delivery_monitor(case, delivered, where, must=None, exit_how='returned'):
    """delivered: [(levelname, message)] seen by the caller's handler at the moment run_tasks exited.
    must: the workers whose outcome the coordinator had consumed by then (None = all: normal return) — everything
    they emitted must have been delivered exactly once; anything of the others at most once."""
    optional = {}
    want = emitted(case, optional)
    seen = {}
    for level, msg in delivered:
        if level == 'INFO' and msg.startswith(OUT_PRE):
            ch = 'out'
        elif level == 'ERROR' and msg.startswith(ERR_PRE):
            ch = 'err'
        else:
            ch = 'log'
        for m in MARK.findall(msg):
            seen.setdefault(m, []).append(ch)
    v = []
    name = {'log': 'logger record', 'out': 'stdout write', 'err': 'stderr write'}
    for m, ch in sorted(want.items()):
        got = seen.get(m, [])
        k = m[2:].split('.')[0]
        if must is not None and int(k) not in must and not got:
            continue   # its outcome had not been consumed when run_tasks exited
        if got != [ch]:
            how = ('was not delivered' if not got else f'was delivered {len(got)} times' if set(got) == {ch}
                   else f'was delivered as {got}')
            v.append(f'{name[ch]} {m} of task {k} {how} by the time run_tasks {exit_how} ({where})')
    for m in seen:
        if m in optional:
            if seen[m] != [optional[m]]:
                v.append(f'unflushed {name[optional[m]]} {m} of a killed task was delivered as {seen[m]} ({where})')
        elif m not in want:
            v.append(f'message {m} delivered but never emitted ({where})')
    return v


# ------------------------------------------------------------------ real run over the fake-process layer
def fake_real(case):
    """returns dict(delivered=[(level,msg)], status, late_phase_records=int, rounds=int)"""
    import contextlib
    import io
    import logging
    import labtech
    import labtech.runners.process as P
    from labtech.types import RunnerBackend
    import fakeproc
    import ltasks

    class Recorder(logging.Handler):
        def __init__(self):
            super().__init__()
            self.recs = []

        def emit(self, r):
            self.recs.append((r.levelname, r.getMessage()))

    class Hang(Exception):
        pass

    class Spy:
        def __init__(self, inner, sched):
            self.inner = inner
            self.sched = [list(r) for r in sched]
            self.cur = None
            self.waits = 0
            self.trace = []  # per round: [records put in phase A, B, C, results consumed]
            self.yielded = []  # workers whose outcome was handed to the coordinator
            fakeproc.bind_result_queue(inner)
            self.logqi = inner.log_queue.index
            orig = inner.executor.wait

            def wait_patched(futures, *, timeout_seconds):
                self.apply(1)
                r = orig(futures, timeout_seconds=timeout_seconds)
                self.trace[-1][3] = sum(1 for f in futures if f.done)
                self.apply(2)
                return r
            inner.executor.wait = wait_patched

        def fid_of(self, w):
            for fid, p in fakeproc.CTL.procs.items():
                if fakeproc.task_of(p.kwargs['thunk']).k == w:
                    return fid
            return None

        def apply(self, phase):
            ctl = fakeproc.CTL
            for st in self.cur[phase]:
                fid = self.fid_of(st[1])
                if fid is None or fid not in ctl.parked:
                    continue
                outcome, shipped = ctl.parked[fid]
                if st[0] == 'a':
                    k = st[2]
                    rest = []
                    for qi, item in shipped:
                        if qi == self.logqi and k > 0:
                            ctl.queues[qi].q.put(item)
                            self.trace[-1][phase] += 1
                            k -= 1
                        else:
                            rest.append((qi, item))
                    ctl.parked[fid] = (outcome, rest)
                else:
                    self.trace[-1][phase] += sum(1 for qi, _ in shipped if qi == self.logqi)
                    ctl.release(fid)

        def submit_task(self, task, task_name, use_cache):
            return self.inner.submit_task(task, task_name, use_cache)

        def wait(self, *, timeout_seconds):
            self.waits += 1
            if self.waits > len(case['sched']) + 8:
                raise Hang('coordinator keeps polling')
            self.cur = self.sched.pop(0) if self.sched else [[], [], []]
            self.trace.append([0, 0, 0, 0])
            self.apply(0)
            for item in self.inner.wait(timeout_seconds=0):
                self.yielded.append(item[0].k)
                yield item

        def __getattr__(self, name):
            return getattr(self.inner, name)

    class Backend(RunnerBackend):
        def __init__(self):
            self.spy = None

        def build_runner(self, *, context, storage, max_workers):
            cls = {'fork': P.ForkProcessRunner, 'spawn': P.SpawnProcessRunner}[case['be']]
            self.spy = Spy(cls(context=context, storage=storage, max_workers=max_workers), case['sched'])
            return self.spy

    lg = labtech.logger
    saved_handlers, saved_level = list(lg.handlers), lg.level
    rec = Recorder()
    lg.handlers = [rec]
    lg.setLevel(logging.INFO)
    fakeproc.install(case['be'], set(), [])
    backend = Backend()
    status = None
    try:
        tasks = [ltasks.LogTask(k=i, script=s) for i, s in enumerate(case['scripts'])]
        lab = labtech.Lab(storage=None, runner_backend=backend, max_workers=max(1, len(tasks)),
                          continue_on_failure=bool(case.get('cof', True)))
        sink = io.StringIO()
        try:
            with contextlib.redirect_stdout(sink), contextlib.redirect_stderr(sink):
                lab.run_tasks(tasks, disable_progress=True, disable_top=True)
            status = 'returned'
        except Hang as e:
            status = 'HANG ' + str(e)
        except BaseException as e:
            status = 'raised ' + type(e).__name__ + ' ' + str(e)[:100]
        delivered = [r for r in rec.recs if MARK.search(r[1])]   # at the moment run_tasks returned / raised
        spy = backend.spy
        left = 0
        if spy is not None:
            q = spy.inner.log_queue.q
            left = q.qsize()
        trace = spy.trace if spy is not None else []
        return dict(delivered=delivered, status=status, left=left, trace=trace,
                    yielded=list(spy.yielded) if spy is not None else [])
    finally:
        fakeproc.uninstall()
        lg.handlers = saved_handlers
        lg.setLevel(saved_level)


def exit_code(status):
    """1 returned · 2:<k> LabError for the failure of task k · 0 anything else"""
    if status == 'returned':
        return '1'
    m = re.match(r'raised LabError task (\d+) fails$', status or '')
    return '2:' + m.group(1) if m else '0'


def fake_alarms(case, r):
    """the delivery monitor at the exit the real run took"""
    delivered = [tuple(x) for x in r['delivered']]
    where = 'fake-process layer, %s' % case['be']
    code = exit_code(r['status'])
    if code == '1':
        return delivery_monitor(case, delivered, where)
    if code.startswith('2:') and not case.get('cof', True):
        ys = sorted(set(r.get('yielded', [])))
        return delivery_monitor(case, delivered, where + ', continue_on_failure=False, outcomes consumed: tasks %s' % ys,
                                must=set(ys), exit_how='raised LabError')
    return [f'run_tasks did not exit normally under the fake-process layer: {r["status"]}']


def fake_observation(res):
    return 'ok exited=%s delivered=%s' % (exit_code(res['status']),
                                          ','.join('%s:x%s' % ('E' if lv == 'ERROR' else 'I', hx(m)) for lv, m in res['delivered']))


def model_observation(line_out):
    """drop the worker tags and the counters the real side does not observe"""
    m = re.match(r'ok exited=(\S+) delivered=(\S*) left=(\d+) todo=(\d+)$', line_out)
    if not m:
        return line_out
    recs = [x.split(':', 1)[1] for x in m.group(2).split(',')] if m.group(2) else []
    return 'ok exited=%s delivered=%s' % (m.group(1), ','.join(recs))


def second_drain_needed(res):
    """non-trivial: in the round that consumed the last result, a record reached the log queue after that
    round's first drain (so only the drain after executor.wait can have delivered it before the return)"""
    tr = [t for t in res.get('trace', []) if t[3] > 0]
    return bool(tr) and (tr[-1][1] + tr[-1][2]) > 0


# ------------------------------------------------------------------ real backends
def real_run(job):
    import contextlib
    import io
    import logging
    import labtech
    import ltasks

    class Recorder(logging.Handler):
        def __init__(self):
            super().__init__()
            self.recs = []

        def emit(self, r):
            self.recs.append((r.levelname, r.getMessage()))

    lg = labtech.logger
    rec = Recorder()
    lg.handlers = [rec]
    lg.setLevel(logging.INFO)
    tasks = [ltasks.LogTask(k=i, script=s) for i, s in enumerate(job['scripts'])]
    lab = labtech.Lab(storage=None, runner_backend=job['be'], max_workers=len(tasks),
                      continue_on_failure=bool(job.get('cof', True)))
    sink = io.StringIO()
    try:
        with contextlib.redirect_stdout(sink), contextlib.redirect_stderr(sink):
            lab.run_tasks(tasks, disable_progress=True, disable_top=True)
        status = 'returned'
    except BaseException as e:
        status = 'raised ' + type(e).__name__ + ' ' + str(e)[:100]
    delivered = [r for r in rec.recs if MARK.search(r[1])]
    return dict(delivered=delivered, status=status)


def gen_real_cases(rng, tier):
    """for each backend and each task in turn: that task sleeps longest (finishes last)"""
    cases = []
    n = 3
    for be in ('fork', 'spawn'):
        for last in range(n):
            scripts = []
            for k in range(n):
                ops = ['L' + hx(f'start @@{k}.0@'), 'P' + hx(f'printed @@{k}.1@')]
                if rng.random() < 0.5:
                    ops.append('O')
                ops.append('S%d' % (350 if k == last else rng.choice([0, 60])))
                ops += ['Q' + hx(f'warn @@{k}.2@'), 'W' + hx(f'tail without newline @@{k}.3@'), 'W' + hx(' \n')]
                if rng.random() < 0.4:
                    ops.append('O')
                ops.append('L' + hx(f'end @@{k}.4@'))
                if k != last and rng.random() < 0.3:
                    ops.append('F')
                scripts.append(';'.join(ops))
            cases.append(dict(kind='real', be=be, scripts=scripts, last=last))
    # continue_on_failure=False: task 0 finishes in an early polling round, task 1 logs, prints (with an explicit
    # flush), warns and fails inside a later round, task 2 is still running when run_tasks raises
    for be in (('fork', 'spawn') if tier == 'thorough' else ('fork',)):
        scripts = [
            'L' + hx('quick @@0.0@') + ';P' + hx('quick out @@0.1@'),
            'S700;L' + hx('diag @@1.0@') + ';P' + hx('diag out @@1.1@') + ';O;Q' + hx('diag err @@1.2@')
            + ';W' + hx('unflushed tail @@1.3@') + ';F',
            'L' + hx('slow start @@2.0@') + ';S2500;L' + hx('slow end @@2.1@'),
        ]
        cases.append(dict(kind='real', be=be, scripts=scripts, last=1, cof=False))
    # workers that die hard (SIGKILL themselves) after N logger records, other tasks alongside, continue_on_failure=True:
    # every logger record (and every explicitly flushed print) emitted before the kill must arrive exactly once
    for be in (('fork', 'spawn') if tier == 'thorough' else ('fork',)):
        cases.append(dict(kind='real', be=be, last=1, label='tasks 0 and 2 kill themselves after 1 and 50 logger records',
                          scripts=['R1:0;P' + hx('never flushed @@0.900@') + ';K',
                                   'L' + hx('alongside @@1.0@') + ';P' + hx('alongside out @@1.1@') + ';S300;L' + hx('alongside end @@1.2@'),
                                   'R50:0;K']))
        cases.append(dict(kind='real', be=be, last=2, label='task 1 kills itself after a flushed print and 5 logger records',
                          scripts=['L' + hx('quick @@0.0@'),
                                   'S200;P' + hx('flushed before the kill @@1.900@') + ';O;R5:0;W' + hx('never flushed @@1.901@') + ';K',
                                   'L' + hx('slow start @@2.0@') + ';S600;P' + hx('slow out @@2.1@')]))
    # a burst: thousands of logger records in a tight loop next to thousands of flushed prints (more than any polling
    # round drains at once): all delivered exactly once, in order per task
    for be in (('fork', 'spawn') if tier == 'thorough' else ('fork',)):
        nb = rng.choice([3000, 3500, 4000])
        cases.append(dict(kind='real', be=be, last=0, label='burst of %d logger records and 2000 flushed prints' % nb,
                          scripts=['R%d:0' % nb, 'T2000:0',
                                   'L' + hx('small @@2.0@') + ';P' + hx('small out @@2.1@')]))
    if tier == 'thorough':
        extra = []
        for c in cases:
            for _ in range(3):
                d = copy.deepcopy(c)
                d['scripts'] = [s.replace('S350', 'S%d' % rng.choice([200, 500])) for s in d['scripts']]
                extra.append(d)
        cases += extra
    return cases


def per_worker(delivered):
    out = {}
    for lv, m in delivered:
        ks = {x[2:].split('.')[0] for x in MARK.findall(m)}
        k = sorted(ks)[0] if ks else '?'
        out.setdefault(k, []).append(('E' if lv == 'ERROR' else 'I') + ':x' + hx(m))
    return out


def model_per_worker(line_out):
    m = re.match(r'ok exited=(\S+) delivered=(\S*) left=(\d+) todo=(\d+)$', line_out)
    out = {}
    if m and m.group(2):
        for x in m.group(2).split(','):
            w, rest = x.split(':', 1)
            out.setdefault(w, []).append(rest)
    return out


# =============================================================================================
# subprocess plumbing (labtech runs only in children whose output goes to files)
# =============================================================================================

def spawn_job(mode, job, wd, name, hashseed=None):
    jp, rp = os.path.join(wd, name + '.job.json'), os.path.join(wd, name + '.rep.json')
    json.dump(job, open(jp, 'w'))
    env = dict(os.environ, PYTHONPATH=REPO + os.pathsep + HERE)
    if hashseed is not None:
        env['PYTHONHASHSEED'] = str(hashseed)
    lf = open(os.path.join(wd, name + '.log'), 'w')
    p = subprocess.Popen([sys.executable, os.path.abspath(__file__), mode, jp, rp], stdout=lf, stderr=subprocess.STDOUT,
                         stdin=subprocess.DEVNULL, start_new_session=True, env=env, cwd=wd)
    return dict(p=p, rp=rp, lf=lf, name=name)


def collect(h, timeout):
    try:
        h['p'].wait(timeout=timeout)
    except subprocess.TimeoutExpired:
        pass
    try:
        os.killpg(h['p'].pid, signal.SIGKILL)   # also the Manager() children of real runs
    except (ProcessLookupError, PermissionError):
        pass
    h['p'].wait()
    h['lf'].close()
    if os.path.exists(h['rp']):
        try:
            return json.load(open(h['rp'])), None
        except Exception as e:
            return None, f'{h["name"]}: unreadable report {e}'
    return None, f'{h["name"]}: no report (rc={h["p"].returncode}): ' + open(h['lf'].name).read()[-600:]


def run_fake_batch(cases, wd, name='fb', workers=8, timeout=240):
    """-> list of results aligned with cases (None where a worker failed), errors"""
    if not cases:
        return [], []
    workers = max(1, min(workers, len(cases)))
    chunks = [cases[i::workers] for i in range(workers)]
    hs = [spawn_job('--fake', dict(cases=ch), wd, f'{name}{i}', hashseed=i) for i, ch in enumerate(chunks)]
    out = [None] * len(cases)
    errs = []
    deadline = time.time() + timeout
    for i, h in enumerate(hs):
        rep, err = collect(h, max(1, deadline - time.time()))
        if err:
            errs.append(err)
            continue
        for j, r in enumerate(rep['results']):
            out[i + j * workers] = r
    return out, errs


def shrink_fake(case, wd, budget=12):
    def alarms(results, cands):
        for c, r in zip(cands, results):
            if r is not None and exit_code(r.get('status')) != '0' and fake_alarms(c, r):
                return c
        return None
    cur = case
    for step in range(budget):
        cands = []
        n = len(cur['scripts'])
        if n > 1:
            for w in range(n):
                # drop worker w (renumber the others)
                ren = {o: i for i, o in enumerate(x for x in range(n) if x != w)}
                scripts = []
                for o in range(n):
                    if o == w:
                        continue
                    ops = []
                    for op in (cur['scripts'][o].split(';') if cur['scripts'][o] else []):
                        if op[0] in 'LWXPQ':
                            s = bytes.fromhex(op[1:]).decode().replace(f'@@{o}.', f'@@{ren[o]}.')
                            ops.append(op[0] + hx(s))
                        else:
                            ops.append(op)
                    scripts.append(';'.join(ops))
                sched = [[[([s[0], ren[s[1]]] + s[2:]) for s in ph if s[1] != w] for ph in rnd] for rnd in cur['sched']]
                cands.append(dict(cur, scripts=scripts, sched=sched))
        for w in range(n):
            ops = cur['scripts'][w].split(';') if cur['scripts'][w] else []
            for i in range(len(ops)):
                cands.append(dict(cur, scripts=cur['scripts'][:w] + [';'.join(ops[:i] + ops[i + 1:])] + cur['scripts'][w + 1:]))
        for i in range(len(cur['sched']) - 2):
            cands.append(dict(cur, sched=cur['sched'][:i] + cur['sched'][i + 1:]))
        for i, rnd in enumerate(cur['sched']):
            for ph in range(3):
                for j, s in enumerate(rnd[ph]):
                    if s[0] == 'a':
                        new = copy.deepcopy(cur['sched'])
                        del new[i][ph][j]
                        cands.append(dict(cur, sched=new))
        if not cands:
            break
        results, _ = run_fake_batch(cands, wd, name=f'sh{step}_', workers=12)
        nxt = alarms(results, cands)
        if nxt is None:
            break
        cur = nxt
    return cur


def run_repro(names, wd):
    """the regression corpus, against the tree under test"""
    hs = []
    for n in names:
        env = dict(os.environ, PYTHONPATH=REPO + os.pathsep + HERE)
        f = open(os.path.join(wd, f'repro-{n}.out'), 'w')
        p = subprocess.Popen([sys.executable, os.path.join(HERE, 'repro.py'), '--one', n], stdout=f, stderr=subprocess.DEVNULL,
                             stdin=subprocess.DEVNULL, start_new_session=True, env=env, cwd=wd)
        hs.append((n, f, p))
    return hs


def collect_repro(hs, timeout=60):
    out = []
    deadline = time.time() + timeout
    for n, f, p in hs:
        hung = False
        try:
            p.wait(timeout=max(0.1, deadline - time.time()))
        except subprocess.TimeoutExpired:
            hung = True
        try:
            os.killpg(p.pid, signal.SIGKILL)
        except (ProcessLookupError, PermissionError):
            pass
        p.wait()
        f.close()
        lines = [l for l in open(f.name).read().splitlines() if l.startswith('{')]
        if lines:
            out.append(json.loads(lines[-1]))
        else:
            out.append(dict(id=n, violated=True if hung else None, detail='timeout (hang)' if hung else 'no output'))
    return out


# =============================================================================================

RULE = ('(a) write/flush sequences on LoggerFileProxy with blank, near-blank and multi-line fragments; (b) 1-4 (thorough: 6) '
        'scripted workers (logger.info / stdout+stderr write / print / flush, optional failure) over the fake-process layer '
        'under a schedule that decides what becomes visible before a wait, inside its executor.wait and between result drain '
        'and second log drain, with a chosen last-finishing task; (c) real fork/spawn runs with each task in turn sleeping '
        'longest; about a third of the (b) cases and one real fork run (thorough: also spawn) have a failing task under '
        'continue_on_failure=False, so that run_tasks exits by LabError in the round that yields the failure; real fork runs '
        '(thorough: also spawn) with tasks that SIGKILL themselves after 1 / 5 / 50 logger records next to ordinary tasks, and one '
        'with a burst of 3000-4000 logger records in a tight loop next to 2000 flushed prints. Non-trivial = (a) sequences with >= 2 flushes and >= 2 non-blank writes, (b) cases in which, in the round '
        'that consumed the last result before the exit (return or LabError), a record reached the log queue after that round\'s first drain; distinct by protocol line')

CORPUS_PROXY = [
    dict(kind='proxy', pre='P:', ops=[['w', 'a'], ['f'], ['w', 'b'], ['f']]),                       # D5a
    dict(kind='proxy', pre=OUT_PRE, ops=[['w', 'a'], ['w', '\n'], ['f'], ['f'], ['w', ' '], ['f']]),
    dict(kind='proxy', pre=OUT_PRE, ops=[['w', '\u200b'], ['w', '\x1f'], ['w', '\xa0\u3000'], ['f']]),
    # one captured line far longer than 32 KiB, no line break in it; then many short lines totalling more than that
    dict(kind='proxy', pre=OUT_PRE, ops=[['w', 'y' * LONG + '@@0.0@'], ['f'], ['w', 'a\n' + 'z' * LONG], ['w', 'b'], ['f']]),
    dict(kind='proxy', pre=ERR_PRE, ops=[['w', 'line %d @@0.%d@ ' % (i, i) + 'x' * 80] for i in range(600)] + [['f'], ['f']]),
]
CORPUS_FAKE = [
    # continue_on_failure=False: the failing task (its diagnostics flushed explicitly) and a round-mate both finish inside
    # executor.wait; the coordinator raises LabError at the first yield — the drain must already have happened
    dict(kind='fake', be='fork', cof=False,
         scripts=['L' + hx('mate @@0.0@') + ';P' + hx('mate out @@0.1@'),
                  'L' + hx('diag @@1.0@') + ';P' + hx('diag out @@1.1@') + ';O;Q' + hx('diag err @@1.2@') + ';F'],
         sched=[[[], [['f', 1], ['f', 0]], []], [[], [], []], [[], [], []]], last=1),
    dict(kind='fake', be='spawn', cof=False,
         scripts=['F', 'L' + hx('other @@1.0@'), 'P' + hx('late @@2.0@')],
         sched=[[[['a', 1, 1]], [['f', 0]], [['f', 1]]], [[], [], []], [[], [], []]], last=0),
    # D5b: prints, no flush, the printing task is the last to finish and finishes inside executor.wait
    dict(kind='fake', be='fork', scripts=['P' + hx('PRINT @@0.0@'), 'P' + hx('PRINT @@1.0@')],
         sched=[[[], [['f', 0]], []], [[], [['f', 1]], []], [[], [], []], [[], [], []]], last=1),
    # D5c: logger records of the task that finishes last, put while the parent is inside executor.wait
    dict(kind='fake', be='fork', scripts=['L' + hx('LOGMSG @@0.0@') + ';L' + hx('LOGMSG @@0.1@')],
         sched=[[[], [['f', 0]], []], [[], [], []], [[], [], []]], last=0),
    dict(kind='fake', be='spawn', scripts=['L' + hx('a @@0.0@') + ';P' + hx('b @@0.1@') + ';O;Q' + hx('c @@0.2@'), 'W' + hx('d @@1.0@')],
         sched=[[[['a', 0, 1]], [], [['a', 0, 1]]], [[], [['f', 1]], [['f', 0]]], [[], [], []], [[], [], []]], last=0),
]


def run(ctx):
    tier, seed = ctx['tier'], ctx['seed']
    sys.path.insert(0, HERE)
    import driver
    wd = tempfile.mkdtemp(prefix='verif-c19-')
    try:
        if ctx.get('replay'):
            return run_replay(ctx, wd)
        if not ctx['driver_ok']:
            return dict(evaluations=0, disagreements=[dict(diff='driver does not build')], violations=[])
        return run_all(ctx, wd, driver)
    finally:
        shutil.rmtree(wd, ignore_errors=True)


def eval_proxy(cases, driver, out):
    lines = [proxy_line(c) for c in cases]
    model = driver.run_lines(lines)
    hangs = 0
    for c, line, m in zip(cases, lines, model):
        has_long = any(op[0] == 'w' and len(op[1]) > 30000 for op in c['ops'])
        if has_long and hangs >= 3:
            continue    # three sequences with a very long write already hung (each costs the watchdog): found, not repeated
        obs, got, bufs = proxy_real(c)
        hangs += bool(getattr(got, 'hung', None))
        out['evaluations'] += 1
        out['dist']['proxy_sequences'] += 1
        if has_long:
            out['dist']['proxy_sequences_with_a_write_over_30000_chars'] = out['dist'].get('proxy_sequences_with_a_write_over_30000_chars', 0) + 1
        for what in proxy_monitor(c, got, bufs):
            out['raw'].append((what, c))
        if obs != m:
            out['disagreements'].append(dict(line=line, case=c, real=obs, model=m))
        nb = sum(1 for op in c['ops'] if op[0] == 'w' and not is_blank(op[1]))
        nf = sum(1 for op in c['ops'] if op[0] == 'f')
        out['dist']['proxy_blank_writes'] += sum(1 for op in c['ops'] if op[0] == 'w' and is_blank(op[1]))
        out['dist']['proxy_flushes'] += nf
        if nb >= 2 and nf >= 2:
            out['nontrivial'].add(line)


def eval_fake(cases, results, driver, out):
    lines = [run_line(c) for c in cases]
    model = driver.run_lines(lines)
    for c, line, m, r in zip(cases, lines, model, results):
        if r is None:
            continue
        out['evaluations'] += 1
        d = out['dist']
        d['fake_cases'] += 1
        d['fake_' + c['be']] += 1
        d['fake_workers'][str(len(c['scripts']))] = d['fake_workers'].get(str(len(c['scripts'])), 0) + 1
        delivered = [tuple(x) for x in r['delivered']]
        d['fake_records_delivered'] += len(delivered)
        if not c.get('cof', True):
            d['fake_continue_on_failure_false'] += 1
            if exit_code(r['status']).startswith('2:'):
                d['fake_exit_by_LabError'] += 1
        alarms = fake_alarms(c, r)
        for what in alarms:
            out['raw'].append((what, c))
        if exit_code(r['status']) == '0':
            continue
        if r.get('left'):
            d['fake_left_on_queue'] += 1
        real_obs, model_obs = fake_observation(r), model_observation(m)
        if real_obs != model_obs:
            out['disagreements'].append(dict(line=line, case=c, real=real_obs, model=model_obs))
        if second_drain_needed(r):
            out['nontrivial'].add(line)
            d['fake_second_drain_needed'] += 1
        if any('F' in s.split(';') for s in c['scripts']):
            d['fake_with_failing_task'] += 1
        if len(out['samples']) < 2 and len(c['scripts']) >= 2 and second_drain_needed(r):
            out['samples'].append(dict(case=c, line=line, delivered=delivered[:8]))


def eval_real(cases, reps, driver, out):
    lines = ['LOG run n=%d w=%s sched=%s' % (len(c['scripts']), ';'.join(script_emits(s, k) for k, s in enumerate(c['scripts'])),
                                            sched_str([[[['f', w] for w in range(len(c['scripts']))], [], []], [[], [], []]]))
             for c in cases]
    model = driver.run_lines(lines)
    for c, line, m, (rep, err) in zip(cases, lines, model, reps):
        if err or rep is None:
            out['errors'].append(err or 'no report')
            continue
        out['evaluations'] += 1
        out['dist']['real_' + c['be']] += 1
        delivered = [tuple(x) for x in rep['delivered']]
        code = exit_code(rep['status'])
        if code.startswith('2:') and not c.get('cof', True):
            # exit by LabError: the failing task's outcome was consumed for sure; the others at most once
            out['dist']['real_exit_by_LabError'] += 1
            k = int(code[2:])
            for what in delivery_monitor(c, delivered, 'real %s backend, continue_on_failure=False, task %d fails' % (c['be'], k),
                                         must={k}, exit_how='raised LabError'):
                out['raw'].append((what, c))
            rw, mw = per_worker(delivered), model_per_worker(m)
            if rw.get(str(k), []) != mw.get(str(k), []):
                out['disagreements'].append(dict(line=line, case=c, real=rw.get(str(k)), model=mw.get(str(k))))
            continue
        if code != '1':
            out['raw'].append((f'run_tasks did not exit normally on the real {c["be"]} backend: {rep["status"]}', c))
            continue
        if any('K' in sc.split(';') for sc in c['scripts']):
            out['dist']['real_with_killed_worker'] += 1
        if any(op[:1] in 'RT' and int(op[1:].split(':')[0]) >= 1000 for sc in c['scripts'] for op in sc.split(';')):
            out['dist']['real_burst'] += 1
        where = 'real %s backend, %s' % (c['be'], c.get('label') or 'task %d finishes last' % c['last'])
        alarms = delivery_monitor(c, delivered, where)
        for what in alarms[:20]:
            out['raw'].append((what, c))
        if len(alarms) > 20:
            out['raw'].append(('%d emitted messages in all were not delivered exactly once (%s)' % (len(alarms), where), c))
        # per-worker order and content against the model (interleaving between workers is the OS's choice)
        rw, mw = per_worker(delivered), model_per_worker(m)
        if rw != mw:
            diff = {}
            for k in sorted(set(rw) | set(mw)):
                a, b = rw.get(k, []), mw.get(k, [])
                if a != b:
                    i = next((i for i, (x, y) in enumerate(zip(a, b)) if x != y), min(len(a), len(b)))
                    diff[k] = dict(real_len=len(a), model_len=len(b), first_difference_at=i, real=a[i:i + 2], model=b[i:i + 2])
            out['disagreements'].append(dict(line=line[:300], case=c, per_worker_difference=diff))


def new_out():
    return dict(evaluations=0, raw=[], disagreements=[], nontrivial=set(), samples=[], errors=[],
                dist=dict(proxy_sequences=0, proxy_blank_writes=0, proxy_flushes=0, fake_cases=0, fake_fork=0, fake_spawn=0,
                          fake_workers={}, fake_records_delivered=0, fake_second_drain_needed=0, fake_with_failing_task=0,
                          fake_continue_on_failure_false=0, fake_exit_by_LabError=0, real_exit_by_LabError=0, real_with_killed_worker=0, real_burst=0,
                          fake_left_on_queue=0, real_fork=0, real_spawn=0, whitespace_codepoints_checked=0))


def whitespace_sweep(driver, out):
    """every code point alone: is it dropped by write()?  (thorough tier)"""
    from labtech.utils import LoggerFileProxy
    cps = [c for c in range(0x110000) if not 0xD800 <= c <= 0xDFFF]
    lines, real = [], []
    for i in range(0, len(cps), 500):
        chunk = cps[i:i + 500]
        ops = []
        got = []
        p = LoggerFileProxy(got.append, '')
        for c in chunk:
            ops += ['w' + hx(chr(c)), 'f']
            p.write(chr(c))
            p.flush()
        lines.append('LOG proxy pre= ops=' + ','.join(ops))
        real.append('ok bufs= out=' + ','.join('x' + hx(m) for m in got))
    model = driver.run_lines(lines)
    for l, r, m in zip(lines, real, model):
        if r != m:
            out['disagreements'].append(dict(line=l[:200], real=r[:300], model=m[:300], what='whitespace classification'))
    out['dist']['whitespace_codepoints_checked'] = len(cps)


def run_all(ctx, wd, driver):
    tier, seed = ctx['tier'], ctx['seed']
    rng = random.Random(seed * 1000003 + 19)
    out = new_out()
    n_proxy = 4000 if tier == 'quick' else 40000
    n_fake = 900 if tier == 'quick' else 8000
    # start the slow things first: regression corpus, real backends, fake-layer workers
    repro_h = run_repro(['D5a', 'D5b', 'D5c'], wd)
    real_cases = gen_real_cases(rng, tier)
    real_h = [spawn_job('--real', c, wd, f'real{i}') for i, c in enumerate(real_cases)]
    fake_cases = list(CORPUS_FAKE) + [gen_fake_case(rng) for _ in range(n_fake)]
    # each generated base case once more with every other task finishing last (critical phases)
    variants = []
    for c in fake_cases[len(CORPUS_FAKE):len(CORPUS_FAKE) + (150 if tier == 'quick' else 1000)]:
        for last in range(len(c['scripts'])):
            if last != c['last']:
                variants.append(dict(c, last=last, sched=gen_sched(rng, len(c['scripts']), last, rng.choice([1, 2]))))
    fake_cases += variants
    fake_results, ferrs = run_fake_batch(fake_cases, wd, workers=10 if tier == 'quick' else 16,
                                         timeout=200 if tier == 'quick' else 1200)
    proxy_cases = list(CORPUS_PROXY) + [gen_proxy_case(rng) for _ in range(n_proxy)]
    eval_proxy(proxy_cases, driver, out)
    if tier == 'thorough':
        whitespace_sweep(driver, out)
    eval_fake(fake_cases, fake_results, driver, out)
    real_reps = [collect(h, 90) for h in real_h]
    eval_real(real_cases, real_reps, driver, out)
    out['errors'] += ferrs
    for rec in collect_repro(repro_h):
        out['dist']['repro_' + rec['id']] = 'violated' if rec.get('violated') else ('ok' if rec.get('violated') is False else 'error')
        if rec.get('violated'):
            out['raw'].append((f'regression {rec["id"]}: {rec.get("detail")}', dict(kind='repro', id=rec['id'])))
        elif rec.get('violated') is None:
            out['errors'].append(f'repro {rec["id"]}: {rec.get("detail")}')
    if out['errors'] and (out['evaluations'] == 0 or out['dist']['fake_cases'] == 0
                          or out['dist']['real_fork'] + out['dist']['real_spawn'] == 0):
        return dict(infra_error='; '.join(out['errors'])[:1500])
    if (out['disagreements'] or not ctx['proof_ok']) and not out['raw']:
        # enlarged search
        rng2 = random.Random(seed * 1000003 + 7919)
        eval_proxy([gen_proxy_case(rng2, big=True) for _ in range(n_proxy * 4)], driver, out)
        more = [gen_fake_case(rng2, big=True) for _ in range(n_fake * 2)]
        res2, e2 = run_fake_batch(more, wd, name='fx', workers=14, timeout=400)
        eval_fake(more, res2, driver, out)
        out['errors'] += e2
    return finish(ctx, out, wd, shrink_it=True)


def finish(ctx, out, wd, shrink_it):
    violations = []
    seen = set()
    for what, c in out['raw']:
        key = (c.get('kind'), re.sub(r'@@\d+\.\d+@|task \d+|\d+', '#', what)[:50])
        if key in seen:
            continue
        seen.add(key)
        small = c
        if shrink_it and c.get('kind') == 'proxy':
            small = shrink_proxy(c)
            _, got, bufs = proxy_real(small)
            what = (proxy_monitor(small, got, bufs) or [what])[0]
            replay = dict(kind='proxy', case=small, line=proxy_line(small), real=proxy_real(small)[0])
        elif shrink_it and c.get('kind') == 'fake':
            small = shrink_fake(c, wd)
            res, _ = run_fake_batch([small], wd, name='fin')
            if res and res[0] is not None:
                vs = fake_alarms(small, res[0])
                what = (vs or [what])[0]
            replay = dict(kind='fake', case=small, line=run_line(small), real=fake_observation(res[0]) if res and res[0] else None)
        else:
            replay = dict(kind=c.get('kind'), case=c)
        violations.append(dict(what=what, replay=replay))
        if len(violations) >= 3:
            break
    out['dist']['worker_errors'] = out['errors'][:5]
    return dict(
        evaluations=out['evaluations'], distinct_nontrivial=len(out['nontrivial']), rule=RULE, samples=out['samples'],
        violations=violations,
        disagreements=out['disagreements'][:5],
        distribution=out['dist'],
        assumptions=['fake-process layer: a worker runs to completion in a forked helper when its process is started; the '
                     'records it put on the log queue and its result are made visible to the parent by the schedule, the records '
                     'always before the result (both are synchronous Manager-queue puts in that order); checked against real '
                     'fork and spawn runs in (c)',
                     'all tasks of a case are independent and max_workers >= number of tasks, so every worker is running from the first wait on',
                     'a worker that dies hard (SIGKILL) is covered on the real backends only (the fake-process layer runs no dying '
                     'worker): every logger record and every explicitly flushed write before the death must arrive once; captured output '
                     'that no flush had handed over is legitimately lost (model: diedRecords)'],
        explanation='(a) real LoggerFileProxy vs LOG proxy: final bufs and every logger_func message; monitor: messages = the non-empty '
                    'groups of non-blank writes between flushes. (b) real coordinator loop + ProcessRunner.wait + _subprocess_func over the '
                    'fake-process layer: sequence of (level, message) at the parent\'s handler when run_tasks returns vs LOG run; monitor: '
                    'every marker emitted by a task whose outcome was consumed before the exit (all tasks on return; the yielded ones on '
                    'LabError) delivered exactly once on the right channel, nothing twice. (c) real fork/spawn: same monitor; per-worker '
                    'record sequences vs the model. Regression corpus D5a/D5b/D5c.',
    )


def run_replay(ctx, wd):
    import driver
    rp = json.load(open(ctx['replay']))
    rep = rp.get('replay') or {}
    case = rep.get('case')
    if case is None:
        return dict(infra_error='replay file holds no C19 case (it names a broken theorem/correspondence)')
    out = new_out()
    kind = case.get('kind')
    if kind == 'proxy':
        eval_proxy([case], driver, out)
    elif kind == 'fake':
        res, errs = run_fake_batch([case], wd)
        out['errors'] += errs
        eval_fake([case], res, driver, out)
    elif kind == 'real':
        h = spawn_job('--real', case, wd, 'real0')
        eval_real([case], [collect(h, 90)], driver, out)
    elif kind == 'repro':
        for rec in collect_repro(run_repro([case['id']], wd)):
            out['evaluations'] += 1
            if rec.get('violated'):
                out['raw'].append((f'regression {rec["id"]}: {rec.get("detail")}', case))
    if out['evaluations'] == 0 and out['errors']:
        return dict(infra_error='; '.join(out['errors'])[:1500])
    return finish(ctx, out, wd, shrink_it=False)


if __name__ == '__main__':
    mode, jp, rp = sys.argv[1], sys.argv[2], sys.argv[3]
    job = json.load(open(jp))
    if mode == '--fake':
        results = []
        for c in job['cases']:
            try:
                results.append(fake_real(c))
            except BaseException as e:
                import traceback
                results.append(dict(delivered=[], status='harness error ' + traceback.format_exc()[-400:], left=0, trace=[]))
        json.dump(dict(results=results), open(rp, 'w'))
    elif mode == '--real':
        json.dump(real_run(job), open(rp, 'w'))
    sys.stdout.flush()
    os._exit(0)
