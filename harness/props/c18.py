"""C18 — Local storage never reads, writes or deletes outside its directory.

Correspondence: every case (one sandbox layout with symlinks + one LocalStorage operation) is run on
the real code between two snapshots of the whole sandbox and handed to the Lean path model (`PATH`
line: the snapshot taken before, the storage path, operation, key, filename, mode); compared are the
result / exception class and the set of changed nodes (created directory, written file, removed
subtree) against the model's `touched` list.  Monitor (independent of the model): nothing outside
`<storage dir>/<one key dir>` changed — in particular the outside canaries keep content, type, link
target and mtime —, file_handle changes at most the key directory itself and one file directly inside,
delete only removes one direct child of the storage directory, exists / find_keys change nothing; an
audit hook (sys.addaudithook) records every path handed to open / mkdir / rmdir / remove / rename /
scandir / rmtree during the operation, resolved at call time: all must lie in the storage directory; in
the thorough tier a sample also runs under `strace -f -e trace=file` and every path opened, created,
unlinked or renamed between two marker calls must lie (after resolving symlinks) in the storage
directory.  The corpus (run first) holds the escapes repaired by /repo commits a78c04e (filename side) and
becc08b (key side); if one comes back it is an ordinary violation.
Sequence cases (one LocalStorage instance, several steps with layout mutations in between) exercise
state carried by the instance: the model is stateless, so the instance must behave as a fresh one.
Layout-edit kinds `rmroot` / `rmparent` remove the storage directory (alone / together with its parent directory) between
two steps; exists / file_handle in every mode / delete / find_keys follow on the same instance. The path model is asked
about these steps like about any other (a file tree in which the storage path does not exist: it predicts the
FileNotFoundError and no effect); the snapshot monitor flags every node created at or above the storage directory's place.
"""
import json
import os
import random
import re
import shutil
import subprocess
import sys
import tempfile
import time

HERE = os.path.dirname(os.path.abspath(__file__))
sys.path.insert(0, os.path.dirname(HERE))
import driver  # noqa: E402
import pathcase as pc  # noqa: E402

CORPUS = [
    # D18a: filename passes a symlink loop, `loop/..` is collapsed lexically, x is never lstat'ed
    dict(name='D18a filename loop/../x -> outside file',
         layout=pc.OUTSIDE + [['store/k', 'd', ''], ['store/k/loop', 'l', 'loop'],
                              ['store/k/x', 'l', '{SB}/outside/canary.txt']],
         via_link=False, gitignore=True, op='fh', key='k', fn='loop/../x', mode='w'),
    # D18b: single-component filename whose own target passes the loop
    dict(name='D18b filename x -> loop/../y -> outside file',
         layout=pc.OUTSIDE + [['store/k', 'd', ''], ['store/k/loop', 'l', 'loop'], ['store/k/x', 'l', 'loop/../y'],
                              ['store/k/y', 'l', '../../outside/canary.txt']],
         via_link=False, gitignore=True, op='fh', key='k', fn='x', mode='w'),
    dict(name='D18c dangling x creates a file outside',
         layout=pc.OUTSIDE + [['store/k', 'd', ''], ['store/k/loop', 'l', 'loop'],
                              ['store/k/x', 'l', '../../outside/created']],
         via_link=False, gitignore=False, op='fh', key='k', fn='loop/../x', mode='a'),
    # D19: key resolves through a loop to an unchecked symlink; rmtree opened its outside target read-only
    dict(name='D19 key fa -> fb/../fx -> outside dir, delete',
         layout=pc.OUTSIDE + [['store/fa', 'l', 'fb/../fx'], ['store/fb', 'l', 'fb'], ['store/fx', 'l', '../outside/dir']],
         via_link=False, gitignore=True, op='delete', key='fa', fn='', mode=''),
    dict(name='D19 same key, exists',
         layout=pc.OUTSIDE + [['store/fa', 'l', 'fb/../fx'], ['store/fb', 'l', 'fb'], ['store/fx', 'l', '../outside/dir']],
         via_link=False, gitignore=True, op='exists', key='fa', fn='', mode=''),
    dict(name='symlinked key dir to outside', layout=pc.OUTSIDE + [['store/lout', 'l', '../outside/dir']],
         via_link=True, gitignore=True, op='delete', key='lout', fn='', mode=''),
    dict(name='file link to outside', layout=pc.OUTSIDE + [['store/k1', 'd', ''], ['store/k1/fo', 'l', '../../outside/canary.txt']],
         via_link=False, gitignore=True, op='fh', key='k1', fn='fo', mode='w'),
]


def _seq(name, layout, steps):
    last = steps[-1]
    return dict(name=name, layout=layout, via_link=False, gitignore=True, steps=steps, op=last['op'], key=last['key'],
                fn=last['fn'], mode=last['mode'])


# state carried by the instance: a key used while valid, then replaced by a symlink, must be re-validated
CORPUS += [
    _seq('stale validation: exists k1, k1 -> outside dir, delete k1',
         pc.OUTSIDE + [['store/k1', 'd', ''], ['store/k1/data', 'f', 'd']],
         [dict(mut=[], op='exists', key='k1', fn='', mode=''),
          dict(mut=[['link', 'store/k1', '../outside/dir']], op='delete', key='k1', fn='', mode='')]),
    _seq('stale validation: write newkey/f, newkey -> outside dir, write newkey/deep.txt',
         pc.OUTSIDE,
         [dict(mut=[], op='fh', key='newkey', fn='f', mode='w'),
          dict(mut=[['link', 'store/newkey', '{SB}/outside/dir']], op='fh', key='newkey', fn='deep.txt', mode='w'),
          dict(mut=[], op='exists', key='newkey', fn='', mode='')]),
]

# the storage directory disappears under a live instance (alone / together with its parent directory): every later
# operation may fail, none may create anything at or above the place where the storage directory was
for _kind in ('rmparent', 'rmroot'):
    CORPUS.append(_seq(
        f'storage directory removed ({_kind}) after a write, then every operation',
        pc.OUTSIDE + [['store/k1', 'd', ''], ['store/k1/data', 'f', 'd']],
        [dict(mut=[], op='fh', key='k1', fn='data', mode='w'),
         dict(mut=[[_kind, '', '']], op='exists', key='k1', fn='', mode='')]
        + [dict(mut=[], op='fh', key=k, fn='data', mode=m) for m in pc.MODES for k in (('k1', 'fresh') if m in 'rw' else ('k1',))]
        + [dict(mut=[], op='delete', key='k1', fn='', mode=''), dict(mut=[], op='find_keys', key='', fn='', mode=''),
           dict(mut=[], op='exists', key='fresh', fn='', mode='')]))


def run_case(sbx, case, payload=b'W!'):
    """one case on the real code + the model line; returns dict (for a sequence case: of its last step)"""
    if 'steps' in case:
        return run_sequence(sbx, case, payload)[-1]
    st = sbx.build(case)
    return observe(sbx, st, case, payload)


def run_sequence(sbx, case, payload=b'W!'):
    """ONE LocalStorage instance, several steps (layout mutation by the harness + one operation); every step
    is observed exactly like a single case, and the (stateless) model is asked about the layout as it is then"""
    st = sbx.build(case)
    out = []
    for i, step in enumerate(case['steps']):
        for m in step.get('mut', []):
            pc.apply_mutation(sbx, m)
        out.append(observe(sbx, st, step, payload + b'#%d' % i))
    return out


def observe(sbx, st, case, payload):
    before = sbx.snapshot()
    status = pc.do_op(st, sbx, case, payload)
    after = sbx.snapshot()
    changes = pc.diff_snap(before, after)
    alarms = pc.monitor(sbx, case, before, after, changes)
    for text, _event, _ro in pc.audit_alarms(sbx, case):
        alarms.append(text)
    if case['op'] == 'find_keys':
        try:
            want = 'ok:' + ','.join(sorted(n for n in os.listdir(sbx.root) if os.path.isdir(os.path.join(sbx.root, n))))
        except OSError:  # a broken implementation may have removed the storage directory in an earlier step
            want = status
        line = None
        if status != want and not status.startswith('err:'):
            alarms.append('find_keys lists something that is not a directory of the storage directory')
    else:
        line = pc.model_line(sbx, st, before, case)
    return dict(status=status, changes=changes, alarms=alarms, line=line, sb=sbx.sb, links=sorted(pc.snapshot_links(before)))


def compare(res, out):
    """real observation vs model output line -> None or a disagreement string"""
    mstatus, _eff, mtouched = pc.parse_model(out)
    real_t = sorted(res['changes'])
    if mstatus != res['status']:
        return f'status: real {res["status"]} model {mstatus}'
    if mtouched != real_t:
        return f'touched: real {real_t} model {mtouched}'
    return None


def shrink(case, pred):
    """greedy: drop layout entries (with their descendants) while `pred` still holds"""
    cur = dict(case)
    changed = True
    while changed:
        changed = False
        for e in list(cur['layout']):
            if e[0].startswith('outside'):
                continue
            cand = dict(cur)
            cand['layout'] = [x for x in cur['layout'] if not (x[0] == e[0] or x[0].startswith(e[0] + '/'))]
            try:
                if pred(cand):
                    cur = cand
                    changed = True
            except Exception:
                pass
        if 'steps' in cur:
            cands = []
            for i in range(len(cur['steps']) - 1):  # drop an earlier step, keeping its layout mutations
                st = [dict(x) for x in cur['steps']]
                st[i + 1] = dict(st[i + 1], mut=st[i].get('mut', []) + st[i + 1].get('mut', []))
                cands.append(st[:i] + st[i + 1:])
                if st[i].get('mut'):
                    cands.append(st[:i] + [dict(cur['steps'][i + 1])] + st[i + 2:])  # … or dropping them too
            for i, stp in enumerate(cur['steps']):
                for j in range(len(stp.get('mut', []))):
                    st = [dict(x) for x in cur['steps']]
                    st[i] = dict(st[i], mut=stp['mut'][:j] + stp['mut'][j + 1:])
                    cands.append(st)
            for st in cands:
                cand = dict(cur, steps=st, **{k: st[-1][k] for k in ('op', 'key', 'fn', 'mode')})
                try:
                    if pred(cand):
                        cur = cand
                        changed = True
                        break
                except Exception:
                    pass
    return cur


def explore(seed, n_layouts, ops_per_layout, stats, cases_out):
    rng = random.Random(seed)
    rng_gone = random.Random(seed * 7 + 1)      # own stream: sequences in which the storage directory is removed
    sbx = pc.Sandbox()
    results = []
    try:
        for li in range(n_layouts):
            layout = pc.gen_layout(rng)
            via_link = rng.random() < 0.25
            gi = rng.random() < 0.7
            ctor = rng.choice(['abs_str', 'abs_str', 'abs_path', 'rel_str', 'rel_path'])
            for oi in range(ops_per_layout):
                case = dict(layout=layout, via_link=via_link, gitignore=gi, ctor=ctor, **pc.gen_op(rng, layout))
                res = run_case(sbx, case, payload=b'W%d.%d' % (li, oi))
                results.append((case, res))
            for qi in range(max(2, ops_per_layout // 5)):
                steps = pc.gen_sequence(rng, layout)
                seq = dict(layout=layout, via_link=via_link, gitignore=gi, ctor=ctor, steps=steps)
                for i, res in enumerate(run_sequence(sbx, seq, payload=b'S%d.%d' % (li, qi))):
                    last = steps[i]
                    # the case of step i = the sequence up to and including it (replayable on its own)
                    results.append((dict(seq, steps=steps[:i + 1], op=last['op'], key=last['key'], fn=last['fn'],
                                         mode=last['mode']), res))
            for qi in range(2):
                steps = pc.gen_rootgone_sequence(rng_gone, layout)
                seq = dict(layout=layout, via_link=via_link, gitignore=gi, ctor=ctor, steps=steps)
                for i, res in enumerate(run_sequence(sbx, seq, payload=b'G%d.%d' % (li, qi))):
                    last = steps[i]
                    results.append((dict(seq, steps=steps[:i + 1], op=last['op'], key=last['key'], fn=last['fn'],
                                         mode=last['mode']), res))
    finally:
        sbx.close()
    return results


STRACE_CHILD = r'''
import os, sys, json
sys.path.insert(0, {repo!r}); sys.path.insert(0, {harness!r})
import pathcase as pc
case = json.load(open({casefile!r}))
sbx = pc.Sandbox.__new__(pc.Sandbox)
sbx.top = {top!r}; sbx.sb = os.path.join(sbx.top, 'w', 'x'); sbx.root = os.path.join(sbx.sb, 'store')
st = sbx.build(case)
try: os.stat('/C18_MARK_BEGIN')
except OSError: pass
status = pc.do_op(st, sbx, case)
try: os.stat('/C18_MARK_END')
except OSError: pass
open({outfile!r}, 'w').write(status)
'''

MUTATING = re.compile(r'^\d+\s+(open|openat|openat2|creat|unlink|unlinkat|rmdir|mkdir|mkdirat|rename|renameat|renameat2|'
                      r'truncate|link|linkat|symlink|symlinkat|chmod|fchmodat|chown|fchownat|utimensat)\(')


def strace_case(case, repo):
    """run the case in a child under strace; returns list of alarm strings"""
    top = os.path.realpath(tempfile.mkdtemp(prefix='c18s_'))
    work = tempfile.mkdtemp(prefix='c18w_')
    try:
        casefile, outfile, trace = (os.path.join(work, n) for n in ('case.json', 'out.txt', 'trace.txt'))
        json.dump(case, open(casefile, 'w'))
        code = STRACE_CHILD.format(repo=repo, harness=os.path.dirname(HERE), casefile=casefile, top=top, outfile=outfile)
        script = os.path.join(work, 'child.py')
        open(script, 'w').write(code)
        with open(os.path.join(work, 'log'), 'w') as lf:
            p = subprocess.Popen(['strace', '-f', '-e', 'trace=file', '-o', trace, sys.executable, script],
                                 stdout=lf, stderr=lf, stdin=subprocess.DEVNULL, start_new_session=True)
            try:
                p.wait(timeout=120)
            except subprocess.TimeoutExpired:
                os.killpg(p.pid, 9)
                return ['strace child timed out'], 0
        if not os.path.exists(outfile):
            return None, 0  # strace not usable here
        root = os.path.join(top, 'w', 'x', 'store')
        alarms, on, n = [], False, 0
        for line in open(trace, errors='replace'):
            if 'C18_MARK_BEGIN' in line:
                on = True
                continue
            if 'C18_MARK_END' in line:
                on = False
            if not on or not MUTATING.match(line):
                continue
            if re.search(r'=\s+-1\s+E', line) and 'O_CREAT' not in line and not line.split('(')[0].endswith('open'):
                pass
            m = re.findall(r'"((?:[^"\\]|\\.)*)"', line)
            if not m:
                continue
            n += 1
            for raw in m[:2] if re.match(r'^\d+\s+(rename|link|symlink)', line) else m[:1]:
                path = raw.encode().decode('unicode_escape').encode('latin-1').decode('utf-8', 'replace')
                if not path.startswith('/'):
                    continue  # dir_fd-relative (rmtree inside the opened key directory)
                failed = re.search(r'=\s+-1\s+E', line) is not None
                d, b = os.path.split(path.rstrip('/') or '/')
                rp = os.path.join(os.path.realpath(d), b)
                is_open_follow = re.match(r'^\d+\s+(open|openat)\(', line) and 'O_NOFOLLOW' not in line
                if is_open_follow and os.path.islink(rp):
                    rp = os.path.realpath(rp)
                lists_root = rp == root and re.match(r'^\d+\s+(open|openat)\(', line) and 'O_CREAT' not in line and 'O_WRONLY' not in line and 'O_RDWR' not in line
                if not (rp.startswith(root + '/')) and not failed and not lists_root:
                    alarms.append(f'{case["op"]} made a file-system call on a path outside the storage directory: '
                                  f'{line.split("(")[0].split()[-1]} {os.path.relpath(rp, os.path.join(top, "w", "x"))}')
        return alarms, n
    finally:
        shutil.rmtree(top, ignore_errors=True)
        shutil.rmtree(work, ignore_errors=True)


def run(ctx):
    t0 = time.time()
    tier, seed = ctx['tier'], ctx['seed']
    repo = os.environ.get('VERIF_REPO', '/repo')
    violations, disagreements, samples = [], [], []
    dist = dict(ops={}, status={}, accepted=0, rejected_storage=0, rejected_other=0, changed_cases=0,
                layouts=0, with_symlink_named=0, via_link=0, strace_cases=0, strace_calls=0, corpus=len(CORPUS),
                sequences=0, seq_steps=0, seq_steps_after_mutation=0, mutations={})
    seen = set()
    nontrivial = set()
    evaluations = 0

    def account(case, res):
        nonlocal evaluations
        evaluations += 1
        sig = json.dumps([sorted(map(tuple, case['layout'])), case['via_link'], case['op'], case['key'], case['fn'], case['mode'],
                          case.get('steps')])
        h = hash(sig)
        seen.add(h)
        if 'steps' in case:
            dist['seq_steps'] += 1
            if len(case['steps']) == 1:
                dist['sequences'] += 1
            mutated = any(s.get('mut') for s in case['steps'])
            if mutated and len(case['steps']) > 1:
                dist['seq_steps_after_mutation'] += 1
            for m in case['steps'][-1].get('mut', []):
                dist['mutations'][m[0]] = dist['mutations'].get(m[0], 0) + 1
            gone = [m[0] for s in case['steps'] for m in s.get('mut', []) if m[0] in ('rmroot', 'rmparent')]
            if gone:
                k = 'steps_after_storage_directory_removed' + ('_with_its_parent' if 'rmparent' in gone else '')
                dist[k] = dist.get(k, 0) + 1
            if pc.nontrivial(case, set(res.get('links', []))) or (mutated and len(case['steps']) > 1):
                nontrivial.add(h)
        elif pc.nontrivial(case):
            nontrivial.add(h)
        op = case['op'] + (':' + case['mode'] if case['op'] == 'fh' else '')
        dist['ops'][op] = dist['ops'].get(op, 0) + 1
        s = res['status'] if res['status'].startswith('err:') else 'ok'
        dist['status'][s] = dist['status'].get(s, 0) + 1
        if s == 'ok':
            dist['accepted'] += 1
        elif s == 'err:StorageError':
            dist['rejected_storage'] += 1
        else:
            dist['rejected_other'] += 1
        if res['changes']:
            dist['changed_cases'] += 1
        if case['via_link']:
            dist['via_link'] += 1
        dist['ctor=' + case.get('ctor', 'abs_str')] = dist.get('ctor=' + case.get('ctor', 'abs_str'), 0) + 1
        links = set(res['links']) if 'links' in res else pc.layout_names(case['layout'])[2]
        if any(c in links for c in [case['key']] + case['fn'].replace(pc.SBTOKEN, '').split('/')):
            dist['with_symlink_named'] += 1

    def check_batch(batch):
        """batch: list of (case, res); model comparison + monitors"""
        lines = [(i, r['line']) for i, (_, r) in enumerate(batch) if r['line']]
        outs = {}
        if ctx['driver_ok'] and lines:
            got = driver.run_lines([l for _, l in lines])
            outs = {i: o for (i, _), o in zip(lines, got)}
        for i, (case, res) in enumerate(batch):
            account(case, res)
            for a in res['alarms']:
                violations.append(dict(what=a, replay=case, _unshrunk=True))
            if i in outs:
                d = compare(res, outs[i])
                if d:
                    disagreements.append(dict(what=d, case=case, real=res['status'], model=outs[i][:300]))

    # -------- replay of one stored case
    if ctx.get('replay'):
        case = json.load(open(ctx['replay']))['replay']
        sbx = pc.Sandbox()
        try:
            if 'steps' in case:
                rs = run_sequence(sbx, case)
                batch = [(dict(case, steps=case['steps'][:i + 1], **{k: case['steps'][i][k] for k in ('op', 'key', 'fn', 'mode')}), r)
                         for i, r in enumerate(rs)]
                res = rs[-1]
            else:
                res = run_case(sbx, case)
                batch = [(case, res)]
        finally:
            sbx.close()
        check_batch(batch)
        for v in violations:
            v.pop('_unshrunk', None)
        return dict(evaluations=evaluations, distinct_nontrivial=len(nontrivial), rule='replay of one stored case',
                    samples=[dict(case=case, status=res['status'], changes=[c.replace(res['sb'], '{SB}') for c in res['changes']])],
                    violations=violations, disagreements=disagreements, distribution=dist, assumptions=ASSUMPTIONS,
                    explanation='replay')

    # -------- corpus first
    sbx = pc.Sandbox()
    try:
        batch = []
        for c in CORPUS:
            case = {k: v for k, v in c.items() if k != 'name'}
            if 'steps' in case:
                for i, r in enumerate(run_sequence(sbx, case)):
                    stp = case['steps'][i]
                    batch.append((dict(case, steps=case['steps'][:i + 1], op=stp['op'], key=stp['key'], fn=stp['fn'],
                                       mode=stp['mode']), r))
            else:
                batch.append((case, run_case(sbx, case)))
        check_batch(batch)
    finally:
        sbx.close()

    # -------- generated cases, in parallel worker processes (output to files)
    if tier == 'quick':
        n_workers, n_layouts, ops = 12, 6, 40
    else:
        n_workers, n_layouts, ops = 14, 40, 60
    enlarged = False

    def generated(seed_base, n_workers, n_layouts, ops):
        work = tempfile.mkdtemp(prefix='c18r_')
        try:
            procs = []
            for w in range(n_workers):
                out = os.path.join(work, f'w{w}.json')
                with open(os.path.join(work, f'w{w}.log'), 'w') as lf:
                    p = subprocess.Popen([sys.executable, os.path.abspath(__file__), '--worker', str(seed_base * 1000 + w),
                                          str(n_layouts), str(ops), out], stdout=lf, stderr=lf, stdin=subprocess.DEVNULL,
                                         start_new_session=True, env=dict(os.environ, VERIF_REPO=repo))
                procs.append((p, out, w))
            allres = []
            for p, out, w in procs:
                try:
                    p.wait(timeout=600)
                except subprocess.TimeoutExpired:
                    os.killpg(p.pid, 9)
                    raise RuntimeError('worker timeout')
                if p.returncode != 0 or not os.path.exists(out):
                    raise RuntimeError('worker failed: ' + open(os.path.join(work, f'w{w}.log')).read()[-1500:])
                allres.extend(json.load(open(out)))
            return allres
        finally:
            shutil.rmtree(work, ignore_errors=True)

    try:
        res = generated(seed, n_workers, n_layouts, ops)
    except RuntimeError as e:
        return dict(infra_error=str(e))
    dist['layouts'] += n_workers * n_layouts
    check_batch([(r['case'], r) for r in res])
    for r in [x for x in res if 'steps' not in x['case']][:400:100]:
        samples.append(dict(op=r['case']['op'], key=r['case']['key'], fn=r['case']['fn'], mode=r['case']['mode'],
                            via_link=r['case']['via_link'], layout_links=[e for e in r['case']['layout'] if e[1] == 'l'][:8],
                            status=r['status'], changes=[c.replace(r['sb'], '{SB}') for c in r['changes']]))
    if (not ctx['proof_ok'] or disagreements) and not violations:
        enlarged = True
        try:
            res2 = generated(seed + 7919, 14, 15, 60)
        except RuntimeError as e:
            return dict(infra_error=str(e))
        dist["layouts"] += 14 * 15
        check_batch([(r['case'], r) for r in res2])

    # -------- strace sample (thorough): every path handed to a mutating / opening call
    if tier == 'thorough' and shutil.which('strace'):
        rng = random.Random(seed + 5)
        pool = [r['case'] for r in res if not r['status'].startswith('err:StorageError') and 'steps' not in r['case']]
        sample = [{k: v for k, v in c.items() if k != 'name'} for c in CORPUS if 'steps' not in c] + rng.sample(pool, min(60, len(pool)))
        from concurrent.futures import ThreadPoolExecutor
        with ThreadPoolExecutor(12) as ex:
            for case, (alarms, n) in zip(sample, ex.map(lambda c: strace_case(c, repo), sample)):
                if alarms is None:
                    continue
                dist['strace_cases'] += 1
                dist['strace_calls'] += n
                for a in alarms:
                    violations.append(dict(what=a, replay=case))

    # -------- shrink the first violations
    out_viol = []
    seen_what = set()
    for v in violations:
        key = v['what'][:60]
        if key in seen_what:
            continue
        seen_what.add(key)
        if v.pop('_unshrunk', False) and len(out_viol) < 3:
            sbx = pc.Sandbox()
            try:
                small = shrink(v['replay'], lambda c: bool(run_case(sbx, c)['alarms']))
            finally:
                sbx.close()
            v = dict(v, replay=small)
        out_viol.append(v)

    return dict(
        evaluations=evaluations, distinct_nontrivial=len(nontrivial),
        rule=('case = one sandbox layout (key dirs, files, symlinks to siblings / the root / outside files and dirs / dangling / '
              'self and mutual loops / loop-fallback chains, optionally a symlinked storage root) + one operation '
              '(exists, delete, file_handle in modes r rb w wb a x r+ with a write, find_keys) with key and filename from the '
              'adversarial grammar; non-trivial = the key or a filename component is the name of a symlink of the layout, or the '
              'key / filename contains a separator, a dot or a NUL; distinct by (layout, storage path, op, key, filename, mode). '
              'Sequence cases: ONE LocalStorage instance, 2-4 steps, each step = optional layout mutations made by the harness '
              '(replace a key dir / file by a symlink to outside / a sibling / a loop, remove, recreate as dir or file; REMOVE THE '
              'STORAGE DIRECTORY itself, alone or together with its parent directory, followed by exists / file_handle in every '
              'mode / delete / find_keys) + one '
              'operation, mostly on the same key; every step is an evaluation (snapshot + audit monitors, model asked statelessly '
              'about the layout of that step); such a step is also non-trivial when it follows a mutation on the same instance'),
        samples=samples, violations=out_viol, disagreements=disagreements[:20], distribution=dict(dist, distinct=len(seen), enlarged=enlarged),
        assumptions=ASSUMPTIONS,
        explanation=(f'{evaluations} operations on the real LocalStorage, each between two full sandbox snapshots; '
                     f'{len(disagreements)} model disagreements; wall {time.time() - t0:.1f}s'))


ASSUMPTIONS = [
    'nothing but the operation under test modifies the sandbox between the two snapshots (no concurrent writer; TOCTOU races are outside C18)',
    'POSIX / Linux path semantics (os.path = posixpath, MAXSYMLINKS 40, NAME_MAX 255); paths shorter than PATH_MAX',
    'the process may read and write everywhere in the sandbox (no EACCES branch)',
    'the storage directory is not `/`',
]


def worker_main(argv):
    seed, n_layouts, ops, out = int(argv[0]), int(argv[1]), int(argv[2]), argv[3]
    repo = os.environ.get('VERIF_REPO', '/repo')
    sys.path.insert(0, repo)
    results = explore(seed, n_layouts, ops, None, None)
    json.dump([dict(case=c, status=r['status'], changes=r['changes'], alarms=r['alarms'], line=r['line'], sb=r['sb'], links=r['links'])
               for c, r in results], open(out, 'w'))


if __name__ == '__main__':
    if len(sys.argv) > 1 and sys.argv[1] == '--worker':
        worker_main(sys.argv[2:])
