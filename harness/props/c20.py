"""C20 — the task diagram shows every reachable type and relationship.

Correspondence: real `labtech.diagram.build_task_diagram` text vs the text of the Lean model
(`DIAG` driver word), byte for byte, on generated task graphs over the five types of
harness/gtasks.py.  Monitor: the real text is parsed back into class blocks and arrows and compared
with an independent traversal of the task objects (own recursion, not find_tasks_in_param)."""
import copy
import dataclasses
import json
import os
import random
import shutil
import subprocess
import sys
import tempfile
import typing

HERE = os.path.dirname(os.path.dirname(os.path.abspath(__file__)))
DIRECTIONS = ['BT', 'TB', 'RL', 'LR']
SCALARS = [None, 0, -1, 2 ** 63, True, False, 0.5, float('inf'), '', 'a b', 'class X', 'GA <-- GB: p', 'é']

# ---------------------------------------------------------------------------------------------
# terms (JSON-able): scalar = JSON primitive · {"l":[..]} list · {"t":[..]} tuple · {"d":{..}} dict ·
# {"fd":{..}} frozendict · {"k": type name, "f": {field: term}} task · {"ref": i} the i-th task term built so
# far in this case (the SAME Python object again)
# ---------------------------------------------------------------------------------------------


def field_names(tname):
    import gtasks
    return [f.name for f in dataclasses.fields(gtasks.BY_NAME[tname])]


def gen_value(rng, depth, tdepth, cfg, pool):
    """depth: collection nesting left; tdepth: task nesting left"""
    r = rng.random()
    if tdepth > 0 and r < cfg['p_task']:
        return gen_task(rng, tdepth - 1, cfg, pool)
    if pool and r < cfg['p_task'] + cfg['p_ref']:
        return {'ref': rng.randrange(len(pool))}
    if depth > 0 and r < cfg['p_task'] + cfg['p_ref'] + cfg['p_coll']:
        n = rng.choice([0, 1, 1, 2, 2, 3])
        kind = rng.choice(['l', 't', 'd', 'fd'])
        items = [gen_value(rng, depth - 1, tdepth, cfg, pool) for _ in range(n)]
        if kind in ('l', 't'):
            return {kind: items}
        keys = rng.sample(['k', 'z', '', 'a b', '_is_task', 'é', 'q'], n)
        return {kind: dict(zip(keys, items))}
    s = rng.choice(SCALARS)
    return s if s != float('inf') else 1e300


def gen_task(rng, tdepth, cfg, pool):
    tname = rng.choice(cfg['types'])
    f = {}
    for name in field_names(tname):
        if rng.random() < 0.15:
            continue  # leave a defaulted field out (required ones are filled in by build_obj)
        f[name] = gen_value(rng, cfg['depth'], tdepth, cfg, pool)
    term = {'k': tname, 'f': f}
    pool.append(term)
    return term


def gen_case(rng, big=False, mlflow=False):
    """mlflow=False: the five plain types (the case stream of a seed is what it always was); mlflow=True: 2-5 of all ten
    types, at least one of them declared with mlflow_run=True"""
    ntypes = rng.choice([2, 2, 3, 3, 4, 5])
    import gtasks
    if mlflow:
        types = rng.sample([t.__name__ for t in gtasks.TYPES], ntypes)
        if not any(gtasks.BY_NAME[t] in gtasks.MLFLOW_TYPES for t in types):
            types[rng.randrange(ntypes)] = rng.choice(gtasks.MLFLOW_TYPES).__name__
    else:
        types = rng.sample([t.__name__ for t in gtasks.BASE_TYPES], ntypes)
    cfg = dict(types=types, depth=rng.choice([0, 1, 2, 3, 3]), p_task=rng.choice([0.3, 0.45, 0.6]),
               p_ref=rng.choice([0.0, 0.1, 0.2]), p_coll=rng.choice([0.2, 0.35]))
    pool = []
    n = rng.choice([0, 1, 1, 1, 2, 2, 2, 3, 3] + ([5, 8] if big else []))
    tasks = [gen_task(rng, rng.choice([0, 1, 1, 2, 2, 2, 3, 3, 3] + ([4, 5] if big else [])), cfg, pool) for _ in range(n)]
    # 'ref' indices refer to the order in which task terms are COMPLETED (post-order); build_obj uses the same order
    case = dict(direction=rng.choice(DIRECTIONS), tasks=tasks)
    if expanded_size(case) > (400 if big else 120):
        return gen_case(rng, big, mlflow)  # shared objects multiply the number of task sub-terms; keep cases small
    return case


def expanded_size(case):
    """number of task sub-terms with shared objects counted at every occurrence (= loop iterations of build)"""
    pool = []

    def go(term):
        if isinstance(term, dict):
            if 'ref' in term:
                return pool[term['ref']] if term['ref'] < len(pool) else 0
            for k in ('l', 't'):
                if k in term:
                    return sum(go(x) for x in term[k])
            for k in ('d', 'fd'):
                if k in term:
                    return sum(go(x) for x in term[k].values())
            n = 1 + sum(go(term['f'][f]) for f in field_names(term['k']) if f in term['f'])
            pool.append(n)
            return n
        return 0
    return sum(go(t) for t in case['tasks'])


def build_obj(term, pool):
    """term -> Python value; pool collects the task objects in completion order (for 'ref')"""
    from frozendict import frozendict
    import gtasks
    if isinstance(term, dict):
        if 'ref' in term:
            return pool[term['ref']] if term['ref'] < len(pool) else None
        if 'l' in term:
            return [build_obj(x, pool) for x in term['l']]
        if 't' in term:
            return tuple(build_obj(x, pool) for x in term['t'])
        if 'd' in term:
            return {k: build_obj(v, pool) for k, v in term['d'].items()}
        if 'fd' in term:
            return frozendict({k: build_obj(v, pool) for k, v in term['fd'].items()})
        cls = gtasks.BY_NAME[term['k']]
        kwargs = {}
        for f in dataclasses.fields(cls):
            if f.name in term['f']:
                kwargs[f.name] = build_obj(term['f'][f.name], pool)
            elif f.default is dataclasses.MISSING:
                kwargs[f.name] = None
        obj = cls(**kwargs)
        pool.append(obj)
        return obj
    return term


# ---------------------------------------------------------------------------------------------
# protocol encoding (from the term and the class declarations; tasks named by type index)
# ---------------------------------------------------------------------------------------------

def hx(s):
    return s.encode('utf-8').hex()


def hint_token(t):
    """the opaque type-hint token: types by bare name (generic aliases that are types: origin[args]),
    anything else by str()"""
    if not isinstance(t, type):
        return str(t)
    origin = typing.get_origin(t)
    if origin is None:
        return t.__name__
    return '%s[%s]' % (origin.__name__, ', '.join(hint_token(a) for a in typing.get_args(t)))


def declared_return(t):
    """the return annotation of run() as the class body declares it (gtasks.DECLARED_RUN: the function object captured before
    labtech.task saw the class), not whatever `t.run` is after decoration"""
    import gtasks
    return typing.get_type_hints(gtasks.DECLARED_RUN[t.__name__]).get('return')


def table_line():
    import gtasks
    entries = []
    for i, t in enumerate(gtasks.TYPES):
        ret = declared_return(t)
        fields = '/'.join(f'{hx(hint_token(f.type))}.{hx(f.name)}' for f in dataclasses.fields(t))
        entries.append(f"{i}:{hx(t.__name__)}:{'-' if ret is None else hx(hint_token(ret))}:{fields}")
    return ';'.join(entries)


def encode_value(term, pool, out):
    import gtasks
    if isinstance(term, dict):
        if 'ref' in term:
            if term['ref'] < len(pool):
                out.extend(pool[term['ref']])
            else:
                out.append('S')
            return
        if 'l' in term or 't' in term:
            items = term.get('l', term.get('t'))
            out.append(f'T{len(items)}')
            for x in items:
                encode_value(x, pool, out)
            return
        if 'd' in term or 'fd' in term:
            items = term.get('d', term.get('fd'))
            out.append(f'D{len(items)}')
            for k, v in items.items():
                out.append('=' + hx(k))
                encode_value(v, pool, out)
            return
        cls = gtasks.BY_NAME[term['k']]
        mine = []
        fs = dataclasses.fields(cls)
        mine.append(f'K{gtasks.TYPES.index(cls)}.{len(fs)}')
        for f in fs:
            mine.append('=' + hx(f.name))
            if f.name in term['f']:
                encode_value(term['f'][f.name], pool, mine)
            elif f.default is dataclasses.MISSING or not isinstance(f.default, (tuple,)):
                mine.append('S')
            else:
                mine.append('T0')  # GB.many's default ()
        pool.append(mine)
        out.extend(mine)
        return
    out.append('S')


def encode(case):
    pool, out = [], []
    for t in case['tasks']:
        encode_value(t, pool, out)
    return f"DIAG dir={hx(case['direction'])} tbl={table_line()} tasks={','.join(out)}"


# ---------------------------------------------------------------------------------------------
# real run, parse, independent traversal, monitor
# ---------------------------------------------------------------------------------------------

def run_real(case):
    from labtech.diagram import build_task_diagram
    pool = []
    objs = [build_obj(t, pool) for t in case['tasks']]
    text = build_task_diagram(objs, direction=case['direction'])
    text2 = build_task_diagram(objs, direction=case['direction'])
    return objs, text, text2


def parse_diagram(text):
    """-> (direction, blocks [(name, [(hint, field)], [run suffix])], arrows [(from, many, to, param)], problems)"""
    problems = []
    lines = text.split('\n')
    if not lines or lines[0] != 'classDiagram':
        problems.append('first line is not classDiagram')
    direction = None
    blocks, arrows = [], []
    cur = None
    for ln in lines[1:]:
        if ln.strip() == '':
            cur = None
            continue
        if not ln.startswith('    ') or ln.startswith('     '):
            problems.append(f'unexpected indentation: {ln!r}')
        body = ln.strip()
        if body.startswith('direction '):
            direction = body[len('direction '):]
        elif body.startswith('class '):
            cur = dict(name=body[len('class '):], fields=[], runs=[])
            blocks.append(cur)
        elif ' <-- ' in body and cur is None:
            frm, rest = body.split(' <-- ', 1)
            many = rest.startswith('"many" ')
            if many:
                rest = rest[len('"many" '):]
            to, _, param = rest.rpartition(': ')
            arrows.append((frm, many, to, param))
        elif ' : ' in body and cur is not None:
            owner, rest = body.split(' : ', 1)
            if owner != cur['name']:
                problems.append(f'member line of {owner} inside block of {cur["name"]}')
            if rest.startswith('run()'):
                cur['runs'].append(rest[len('run()'):])
            else:
                hint, _, fname = rest.rpartition(' ')
                cur['fields'].append((hint, fname))
        else:
            problems.append(f'unparsable line: {ln!r}')
    return direction, blocks, arrows, problems


def walk_param(value):
    """task objects held by a parameter value, at any collection depth (not through tasks)"""
    from frozendict import frozendict
    from labtech.types import is_task
    if is_task(value):
        return [value]
    if isinstance(value, (list, tuple)):
        return [t for x in value for t in walk_param(x)]
    if isinstance(value, (dict, frozendict)):
        return [t for x in value.values() for t in walk_param(x)]
    return []


def expected_structure(objs):
    """independent traversal: reachable types, relationships with their 'many' flag"""
    from labtech.types import is_task
    types, rels = [], {}
    stack = list(reversed(objs))
    seen_objs = 0
    while stack:
        t = stack.pop()
        seen_objs += 1
        if type(t) not in types:
            types.append(type(t))
        for f in dataclasses.fields(t):
            v = getattr(t, f.name)
            for d in walk_param(v):
                key = (type(t).__name__, f.name, type(d).__name__)
                rels[key] = rels.get(key, False) or (not is_task(v))
                stack.append(d)
    return types, rels, seen_objs


def monitor(case, objs, text, text2):
    """-> (list of violation strings, stats)"""
    v = []
    if text != text2:
        v.append('build_task_diagram returned two different texts for the same input')
    direction, blocks, arrows, problems = parse_diagram(text)
    for p in problems:
        v.append('diagram text has no block/arrow shape: ' + p)
    if direction != case['direction']:
        v.append(f'direction line {direction!r} != requested {case["direction"]!r}')
    types, rels, nobj = expected_structure(objs)
    names = [b['name'] for b in blocks]
    for t in types:
        c = names.count(t.__name__)
        if c != 1:
            v.append(f'reachable type {t.__name__} has {c} class blocks (expected exactly one)')
    for n in names:
        if n not in [t.__name__ for t in types]:
            v.append(f'class block for {n}, which is not reachable from the given tasks')
    by_name = {t.__name__: t for t in types}
    for b in blocks:
        t = by_name.get(b['name'])
        if t is None:
            continue
        want = [f.name for f in dataclasses.fields(t)]
        got = [fn for _, fn in b['fields']]
        if got != want:
            v.append(f'class block {b["name"]} lists parameters {got}, the type has {want}')
        if len(b['runs']) != 1:
            v.append(f'class block {b["name"]} has {len(b["runs"])} run() lines')
        else:
            ret = declared_return(t)
            want_run = '' if ret is None else ' ' + hint_token(ret)
            if b['runs'][0] != want_run:
                v.append(f'class block {b["name"]}: the run line reads "run(){b["runs"][0]}" but run() is declared '
                         + (f'with the return annotation {hint_token(ret)}' if ret is not None else 'without a return annotation')
                         + (' (task type declared with mlflow_run=True)' if t._lt.mlflow_run else '')
                         + ': the class block does not list the run signature')
    got_keys = [(a[0], a[3], a[2]) for a in arrows]
    for key in rels:
        c = got_keys.count(key)
        if c != 1:
            v.append(f'relationship {key[0]}.{key[1]} -> {key[2]} occurs in the tasks but has {c} arrows (expected exactly one)')
    for key in got_keys:
        if key not in rels:
            v.append(f'arrow {key[0]}.{key[1]} -> {key[2]} for a relationship that does not occur in the tasks')
    for frm, many, to, param in arrows:
        key = (frm, param, to)
        if key in rels and many != rels[key]:
            v.append(f'arrow {frm}.{param} -> {to} is {"" if many else "not "}marked "many" but the parameter '
                     f'{"holds" if rels[key] else "never holds"} a collection in a reachable task')
    stats = dict(types=len(types), rels=len(rels), many=sum(1 for x in rels.values() if x), objs=nobj)
    return v, stats


def nontrivial(case, objs, stats):
    """>= 2 reachable types, at least one 'many' and one single arrow, and some relationship observed more
    than once (the de-duplication / OR path of add_relationship ran)"""
    if stats['types'] < 2 or stats['many'] < 1 or stats['rels'] - stats['many'] < 1:
        return False
    return stats['objs'] > stats['rels'] + len(case['tasks'])


def term_depths(term, cd=0, td=0):
    """(max collection nesting inside one parameter, max task nesting)"""
    if isinstance(term, dict):
        if 'ref' in term:
            return cd, td
        for k in ('l', 't'):
            if k in term:
                sub = [term_depths(x, cd + 1, td) for x in term[k]] or [(cd + 1, td)]
                return max(s[0] for s in sub), max(s[1] for s in sub)
        for k in ('d', 'fd'):
            if k in term:
                sub = [term_depths(x, cd + 1, td) for x in term[k].values()] or [(cd + 1, td)]
                return max(s[0] for s in sub), max(s[1] for s in sub)
        sub = [term_depths(x, 0, td + 1) for x in term['f'].values()] or [(0, td + 1)]
        return max([cd] + [s[0] for s in sub]), max(s[1] for s in sub)
    return cd, td


# ---------------------------------------------------------------------------------------------
# shrinking
# ---------------------------------------------------------------------------------------------

def shrink_candidates(term):
    """smaller variants of one term"""
    if not isinstance(term, dict) or 'ref' in term:
        if term is not None:
            yield None
        return
    yield None
    for k in ('l', 't'):
        if k in term:
            for i in range(len(term[k])):
                yield {k: term[k][:i] + term[k][i + 1:]}
                yield term[k][i]
                for c in shrink_candidates(term[k][i]):
                    yield {k: term[k][:i] + [c] + term[k][i + 1:]}
            return
    for k in ('d', 'fd'):
        if k in term:
            for key in list(term[k]):
                rest = {a: b for a, b in term[k].items() if a != key}
                yield {k: rest}
                yield term[k][key]
                for c in shrink_candidates(term[k][key]):
                    yield {k: {a: (c if a == key else b) for a, b in term[k].items()}}
            return
    for name in list(term['f']):
        yield {'k': term['k'], 'f': {a: b for a, b in term['f'].items() if a != name}}
        for c in shrink_candidates(term['f'][name]):
            yield {'k': term['k'], 'f': {a: (c if a == name else b) for a, b in term['f'].items()}}


def has_ref(term):
    return 'ref' in json.dumps(term)


def expand_refs(case):
    """replace {"ref": i} by a copy of the referenced term (equal task, different object) so that sub-terms
    can be dropped freely while shrinking"""
    pool = []

    def go(term):
        if isinstance(term, dict):
            if 'ref' in term:
                return copy.deepcopy(pool[term['ref']]) if term['ref'] < len(pool) else None
            for k in ('l', 't'):
                if k in term:
                    return {k: [go(x) for x in term[k]]}
            for k in ('d', 'fd'):
                if k in term:
                    return {k: {a: go(b) for a, b in term[k].items()}}
            out = {'k': term['k'], 'f': {a: go(b) for a, b in term['f'].items()}}
            pool.append(out)
            return out
        return term
    return dict(direction=case['direction'], tasks=[go(t) for t in case['tasks']])


def alarm_kinds(case):
    try:
        objs, text, text2 = run_real(case)
        v, _ = monitor(case, objs, text, text2)
        return {x.split(' ')[0] + x.split(' ')[-1] for x in v}, v
    except Exception as e:  # a crash of the real code is not this monitor's alarm
        return set(), [f'exception {type(e).__name__}']


def shrink(case, budget=400):
    kinds, _ = alarm_kinds(case)
    if not kinds:
        return case
    flat = expand_refs(case)
    k2, _ = alarm_kinds(flat)
    cur = flat if k2 else case
    if has_ref(cur):
        return cur
    steps = 0
    changed = True
    while changed and steps < budget:
        changed = False
        cands = []
        for i in range(len(cur['tasks'])):
            if len(cur['tasks']) > 1:
                cands.append(dict(cur, tasks=cur['tasks'][:i] + cur['tasks'][i + 1:]))
            for c in shrink_candidates(cur['tasks'][i]):
                if isinstance(c, dict) and 'k' in c:
                    cands.append(dict(cur, tasks=cur['tasks'][:i] + [c] + cur['tasks'][i + 1:]))
        for c in cands:
            steps += 1
            if steps > budget:
                break
            if alarm_kinds(c)[0]:
                cur = c
                changed = True
                break
    return cur


# ---------------------------------------------------------------------------------------------
# hash-seed determinism: the same cases in fresh interpreters with other PYTHONHASHSEEDs
# ---------------------------------------------------------------------------------------------

def emit_main(cases_path, out_path):
    cases = json.load(open(cases_path))
    out = []
    for c in cases:
        try:
            out.append(run_real(c)[1])
        except Exception as e:
            out.append('EXC ' + type(e).__name__)
    json.dump(out, open(out_path, 'w'))


def other_hashseed_texts(cases, seeds, wd):
    res = {}
    cp = os.path.join(wd, 'cases.json')
    json.dump(cases, open(cp, 'w'))
    procs = []
    for hs in seeds:
        op = os.path.join(wd, f'out{hs}.json')
        env = dict(os.environ, PYTHONHASHSEED=str(hs))
        lf = open(os.path.join(wd, f'log{hs}.txt'), 'w')
        p = subprocess.Popen([sys.executable, os.path.abspath(__file__), '--emit', cp, op], env=env, stdout=lf,
                             stderr=subprocess.STDOUT, stdin=subprocess.DEVNULL, start_new_session=True)
        procs.append((hs, p, op, lf))
    for hs, p, op, lf in procs:
        try:
            p.wait(timeout=120)
        except subprocess.TimeoutExpired:
            import signal
            os.killpg(p.pid, signal.SIGKILL)
        lf.close()
        res[hs] = json.load(open(op)) if os.path.exists(op) else None
    return res


# ---------------------------------------------------------------------------------------------

def evaluate(cases, out, want_samples=3):
    """run real + model + monitor on the cases; accumulate into out"""
    import driver
    lines = [encode(c) for c in cases]
    model = driver.run_lines(lines)
    for c, line, m in zip(cases, lines, model):
        try:
            objs, text, text2 = run_real(c)
        except Exception as e:
            out['violations_raw'].append((f'build_task_diagram raised {type(e).__name__}: {e}', c))
            continue
        out['evaluations'] += 1
        v, stats = monitor(c, objs, text, text2)
        for what in v:
            out['violations_raw'].append((what, c))
        mtext = bytes.fromhex(m[3:]).decode('utf-8') if m.startswith('ok ') else m
        if mtext != text:
            out['disagreements'].append(dict(case=c, line=line, real=text, model=mtext))
        if nontrivial(c, objs, stats):
            out['nontrivial'].add(line)
        d = out['dist']
        d['reachable_types'][stats['types']] = d['reachable_types'].get(stats['types'], 0) + 1
        rb = min(stats['rels'], 10)
        d['relationships'][rb] = d['relationships'].get(rb, 0) + 1
        ob = '1' if stats['objs'] <= 1 else '2-5' if stats['objs'] <= 5 else '6-20' if stats['objs'] <= 20 else '21+'
        d['task_objects'][ob] = d['task_objects'].get(ob, 0) + 1
        cd, td = max([term_depths(t) for t in c['tasks']] or [(0, 0)])
        cd = max([term_depths(t)[0] for t in c['tasks']] or [0])
        td = max([term_depths(t)[1] for t in c['tasks']] or [0])
        d['collection_depth'][cd] = d['collection_depth'].get(cd, 0) + 1
        d['task_depth'][td] = d['task_depth'].get(td, 0) + 1
        d['with_many'] += 1 if stats['many'] else 0
        d['mixed_single_and_collection'] += 1 if mixed(objs) else 0
        d['shared_objects'] += 1 if has_ref(c) else 0
        d['with_mlflow_run_type'] = d.get('with_mlflow_run_type', 0) + (1 if any(getattr(b, '_lt').mlflow_run for b in expected_structure(objs)[0]) else 0)
        d['directions'][c['direction']] = d['directions'].get(c['direction'], 0) + 1
        if len(out['samples']) < want_samples and stats['types'] >= 3 and stats['many']:
            out['samples'].append(dict(case=c, line=line, text=text))


def mixed(objs):
    """some (type, param, dep type) is held once directly and once inside a collection"""
    from labtech.types import is_task
    seen = {}
    stack = list(objs)
    while stack:
        t = stack.pop()
        for f in dataclasses.fields(t):
            val = getattr(t, f.name)
            for d in walk_param(val):
                seen.setdefault((type(t), f.name, type(d)), set()).add(is_task(val))
                stack.append(d)
    return any(len(s) == 2 for s in seen.values())


CORPUS = [
    # the README-like two-type example, a no-field type, a mixed single/collection parameter, depth-3 nesting
    dict(direction='BT', tasks=[{'k': 'GB', 'f': {'one': {'k': 'GA', 'f': {'x': 1}}, 'many': {'l': [{'k': 'GA', 'f': {'x': 2}}]}}}]),
    dict(direction='LR', tasks=[]),
    dict(direction='TB', tasks=[{'k': 'GD', 'f': {}}, {'k': 'GD', 'f': {}}]),
    dict(direction='RL', tasks=[{'k': 'GE', 'f': {'u': {'k': 'GA', 'f': {'x': 1}}, 'v': 0}},
                                {'k': 'GE', 'f': {'u': {'t': [{'d': {'k': {'l': [{'k': 'GA', 'f': {'x': 1, 'a': {'k': 'GD', 'f': {}}}}]}}}]}, 'v': 0}}]),
    dict(direction='BT', tasks=[{'k': 'GE', 'f': {'u': {'t': [{'k': 'GA', 'f': {'x': 1}}]}, 'v': 0}},
                                {'k': 'GE', 'f': {'u': {'k': 'GA', 'f': {'x': 1}}, 'v': {'ref': 0}}}]),
    # task types declared with mlflow_run=True (annotated run(): float / dict[str, float] / Optional[list[int]] / list[GM];
    # un-annotated run()), alone and next to plain types
    dict(direction='BT', tasks=[{'k': 'GN', 'f': {'items': {'l': [{'k': 'GM', 'f': {'seed': 1, 'dep': {'k': 'GA', 'f': {'x': 1}}}},
                                                                  {'k': 'GM', 'f': {'seed': 2}}]}}}]),
    dict(direction='TB', tasks=[{'k': 'GO', 'f': {'a': {'k': 'GP', 'f': {'one': {'k': 'GQ', 'f': {}}, 'two': {'t': [{'k': 'GQ', 'f': {'t': 1}}]}}}}},
                                {'k': 'GP', 'f': {}}]),
    dict(direction='BT', tasks=[{'k': 'GC', 'f': {'m': {'fd': {'a': {'k': 'GC', 'f': {'m': {'k': 'GB', 'f': {'one': None}}, 'p': 1}}}}, 'p': {'ref': 0}}}]),
]


def run(ctx):
    tier, seed = ctx['tier'], ctx['seed']
    sys.path.insert(0, HERE)
    out = dict(evaluations=0, violations_raw=[], disagreements=[], nontrivial=set(), samples=[],
               dist=dict(reachable_types={}, relationships={}, task_objects={}, collection_depth={}, task_depth={},
                         with_many=0, mixed_single_and_collection=0, shared_objects=0, directions={}))
    rule = ('generated task graphs over 2-5 of the task types of harness/gtasks.py (five plain types; a quarter more graphs also over '
            'five types declared with mlflow_run=True whose run() is annotated float / dict[str, float] / Optional[list[int]] / '
            'list[GM] / not at all; the run signature expected in a class block is the one of the run function as written in the '
            'class body) (scalar, single-task, list/tuple/'
            'dict/frozendict parameters nested to depth 3, shared objects); non-trivial = >= 2 reachable types, at least '
            'one "many" arrow and one single arrow, and some relationship observed more than once; distinct by protocol line')
    if ctx.get('replay'):
        rp = json.load(open(ctx['replay']))
        case = (rp.get('replay') or {}).get('case')
        if case is None:
            return dict(infra_error='replay file holds no diagram case (it names a broken theorem/correspondence)')
        evaluate([case], out)
        return finish(ctx, out, rule, [case], shrink_it=False)
    if not ctx['driver_ok']:
        return dict(evaluations=0, disagreements=[dict(diff='driver does not build')], violations=[])
    rng = random.Random(seed * 1000003 + 20)
    n = 3000 if tier == 'quick' else 60000
    cases = list(CORPUS) + [gen_case(rng) for _ in range(n)]
    rng_m = random.Random(seed * 1000003 + 21)      # own stream: graphs that contain task types declared with mlflow_run=True
    cases += [gen_case(rng_m, mlflow=True) for _ in range(n // 4)]
    evaluate(cases, out)
    if (out['disagreements'] or not ctx['proof_ok']) and not out['violations_raw']:
        rng2 = random.Random(seed * 1000003 + 7919)
        more = [gen_case(rng2, big=True, mlflow=(i % 4 == 3)) for i in range(n * 4)]
        evaluate(more, out)
        cases += more
    return finish(ctx, out, rule, cases, shrink_it=True)


def finish(ctx, out, rule, cases, shrink_it):
    # determinism across hash seeds on a sample
    wd = tempfile.mkdtemp(prefix='verif-c20-')
    hs_checked = 0
    try:
        sample = cases[:150] if ctx['tier'] == 'quick' else cases[:2000]
        mine = []
        for c in sample:
            try:
                mine.append(run_real(c)[1])
            except Exception as e:
                mine.append('EXC ' + type(e).__name__)
        others = other_hashseed_texts(sample, [0, 4242], wd)
        for hs, texts in others.items():
            if texts is None:
                return dict(infra_error=f'hash-seed helper (PYTHONHASHSEED={hs}) produced no output: '
                            + open(os.path.join(wd, f'log{hs}.txt')).read()[-500:])
            for c, a, b in zip(sample, mine, texts):
                hs_checked += 1
                if a != b:
                    out['violations_raw'].append((f'build_task_diagram text differs between hash seeds (PYTHONHASHSEED={hs})', c))
    finally:
        shutil.rmtree(wd, ignore_errors=True)
    violations = []
    seen = set()
    for what, c in out['violations_raw']:
        key = what.split(' ')[0] + what.split(' ')[-1] + what[:25]
        if key in seen:
            continue
        seen.add(key)
        small = shrink(c) if shrink_it else c
        _, vs = alarm_kinds(small)
        try:
            real = run_real(small)[1]
        except Exception as e:
            real = 'EXC ' + type(e).__name__
        violations.append(dict(what=(vs[0] if vs and small is not c else what),
                               replay=dict(kind='diagram', case=small, line=encode(small), real_text=real, all_alarms=vs[:6])))
        if len(violations) >= 3:
            break
    out['dist']['hash_seed_comparisons'] = hs_checked
    return dict(
        evaluations=out['evaluations'], distinct_nontrivial=len(out['nontrivial']), rule=rule, samples=out['samples'],
        violations=violations,
        disagreements=[dict(line=d['line'], case=d['case'], real=d['real'], model=d['model']) for d in out['disagreements'][:5]],
        distribution=out['dist'],
        assumptions=['type names, field type-hint strings and the run() return hint are opaque tokens computed by the harness '
                     'from the class objects (same rule as format_type: bare __name__ for types, str() otherwise); they contain no line breaks',
                     'parameter values are what a constructed task holds (tuples, frozendicts, scalars, tasks)',
                     'task types have distinct __name__s (two same-named types would give two indistinguishable blocks)'],
        explanation='real labtech.diagram.build_task_diagram text compared byte for byte with the Lean model\'s text (DIAG); the monitor '
                    'parses the real text into class blocks and arrows and compares them with an independent traversal of the task '
                    'objects: one block per reachable type with one line per field and one run() line, one arrow per occurring '
                    '(type, parameter, dependency type), "many" iff the parameter is a collection in some reachable task; same text '
                    'on a second call and under two other PYTHONHASHSEEDs',
    )


if __name__ == '__main__':
    if len(sys.argv) == 4 and sys.argv[1] == '--emit':
        sys.path.insert(0, os.path.dirname(os.path.dirname(os.path.abspath(__file__))))
        sys.path.insert(0, os.environ.get('VERIF_REPO', '/repo'))
        emit_main(sys.argv[2], sys.argv[3])
