"""C13 — killing a task mid-save cannot poison the cache  (KNOWN FINDING F13a / F13b).

A forked child performs the real save (`Lab.run_tasks`, serial runner -> run_or_load_task ->
BaseCache.save -> LocalStorage) through `savewrap.WrapStorage` and kills itself (SIGKILL, or SIGTERM =
what `ProcessExecutor.stop` -> `Process.terminate()` delivers) at an ENUMERATED kill point:
every storage-operation boundary, write-call boundaries and mid-write splits of both files (buffered
data flushed first, or dropped), and every executed line of cache.py / storage.py inside the save.
A *fresh interpreter* then calls is_cached / cached_tasks / run_tasks on the directory the child left.
The outcome class is compared with the Lean model's (`SAVE … kind=crash`), whose theorem
`crash_safe_iff` says exactly which kill points are safe.

SOFT kills (sig = 'int' | 'exit'): the child receives SIGINT (Python raises KeyboardInterrupt at the
kill point, exactly what the first Ctrl-C does to a serial-runner process) or SystemExit is raised
there; the exception unwinds through BaseCache.save's handler and the process then ends. The model
of a soft kill is a *fault* (`SAVE … kind=fault`, theorem `failed_save_leaves_absent` of C12): the
entry must be absent or load correctly at EVERY such point; a poisoned entry after a soft kill is a
real violation, never a known finding (the F13a/F13b windows are for hard kills only).

HANDLED SIGTERM (sig = 'hterm'): the process executing the save receives a REAL SIGTERM (what the second Ctrl-C ->
`ProcessExecutor.stop` -> `Process.terminate()` delivers) at the kill point while its SIGTERM disposition is - or, as far
as the application / the task can tell, should be - a Python handler that raises (`sys.exit(143)`, the usual
graceful-shutdown idiom). Flavours (case['hand'], case['be']):
  * hand='run', be='serial' | 'fork': the task's own run() installs the handler (the save that follows runs in the same
    process: the serial caller, or the real fork worker started through ProcessRunner._subprocess_func);
  * hand='app', be='fork': the "application" installs it before run_tasks; the real fork worker inherits it.
The strike happens inside the process that executes the save (the worker signals itself at the kill point). On the
unchanged code the handler's SystemExit unwinds through BaseCache.save's cleanup, so this is a soft kill with the model
of a fault: the entry must be absent or load correctly at EVERY point. If the handler is no longer the disposition at
the strike (reset after run(), reset at worker start-up, ...) the process just dies; a poisoned entry left by that is a
plain violation - the F13a/F13b matcher is for hard kills (SIGKILL, default-disposition SIGTERM) only.
An END-TO-END variant runs alongside (harness/intr_real.py, modes double_handled_run / double_handled_app): real fork /
spawn runs whose tasks spend their time inside the save (a result whose pickling sleeps), real double Ctrl-C while
saving; afterwards no task may be cached-but-unloadable.

LATER RUN ON OTHER BACKENDS (kind 'ctx'): for a task whose value depends on the Lab context through
`.get(key, default)`, a handful of hard-kill points are followed, in the fresh interpreter, by
`run_tasks` on the SPAWN (and fork) backend with that context, then by one more serial Lab: the outcome
must be "fails to load" (known finding inside the windows) or the CORRECT value — a wrong value
returned or newly stored is a plain violation.

* poisoned inside a window the model proves poisoned  -> violation with known_match (KNOWN-FINDING)
* poisoned where the model proves safe, a load returning a wrong value, an entry that appears before
  the save touched anything                            -> real violation (exit 1)
"""
import json
import logging
import os
import shutil
import signal
import subprocess
import sys
import tempfile
import time
from datetime import datetime

HERE = os.path.dirname(os.path.dirname(os.path.abspath(__file__)))
if HERE not in sys.path:
    sys.path.insert(0, HERE)

SOFT = ('int', 'exit', 'hterm')      # kills that reach the process as a Python exception: the model of a FAULT applies
HARD = ('kill', 'term')              # SIGKILL, default-disposition SIGTERM: the only kills F13a / F13b are about
FLAVOURS = (('run', 'serial'), ('run', 'fork'), ('app', 'fork'))


def _exit143(signum, frame):
    """the usual graceful-shutdown handler: turn SIGTERM into SystemExit so that cleanup code runs"""
    sys.exit(143)


def _disposition():
    h = signal.getsignal(signal.SIGTERM)
    return 'default' if h == signal.SIG_DFL else 'ignored' if h == signal.SIG_IGN else \
        'raising-handler' if h is _exit143 else 'other:' + repr(h)[:60]


def _touch(path):
    os.close(os.open(path, os.O_WRONLY | os.O_CREAT))


def _reap_descendants():
    """a process-backend Lab leaves multiprocessing.Manager servers behind when its creator ends with os._exit"""
    try:
        import psutil
        for p in psutil.Process().children(recursive=True):
            try:
                p.kill()
            except Exception:
                pass
    except Exception:
        pass


KNOWN = {'first': 'first_save_crash_between_mkdir_and_data_complete',
         'over': 'overwrite_crash_between_truncate_and_data_complete'}


# ------------------------------------------------------------------ phase B: the save that gets killed
def kill_case(case, root):
    """returns the record of one kill point; leaves the storage directory under `root`"""
    import labtech
    from labtech.storage import LocalStorage
    import savetasks as T
    import savewrap as W
    labtech.logger.setLevel(logging.CRITICAL)
    kind, idx, mode = case['kind'], case['idx'], case['mode']
    inj = tuple(case['inj'])
    Type = T.KINDS[kind]
    d = tempfile.mkdtemp(prefix='kp-', dir=root)
    sd = os.path.join(d, 'store')
    side = os.path.join(d, 'sidecar.json')
    T.EXEC_LOG = os.path.join(d, 'exec.log')
    old_start = None
    if mode == 'over':
        T.GEN = 0
        t0 = Type(idx)
        r0 = labtech.Lab(storage=sd, runner_backend='serial', context={'gen': 0, 'scale': 10}).run_tasks(
            [t0], disable_progress=True, disable_top=True)
        if t0 not in r0:
            return dict(case=case, infra='the preparing save of an overwrite case failed')
        old_start = t0.result_meta.start.isoformat()
    else:
        LocalStorage(sd)   # the storage directory itself exists before the save starts
    sys.stdout.flush()
    sigk, hand, be = case.get('sig'), case.get('hand'), case.get('be', 'serial')
    pid = os.fork()
    if pid == 0:
        # ---- the child: perform the save, die at the kill point
        coord_pid = os.getpid()
        try:
            T.GEN = 1
            sig = signal.SIGTERM if sigk == 'term' else signal.SIGKILL
            # a defined starting disposition, whatever the harness process inherited or installed
            signal.signal(signal.SIGTERM, signal.SIG_DFL)
            signal.pthread_sigmask(signal.SIG_UNBLOCK, {signal.SIGTERM})
            if sigk == 'hterm' and hand == 'app':
                # the application's graceful-shutdown handler, installed before run_tasks (forked workers inherit it)
                signal.signal(signal.SIGTERM, _exit143)
            elif sigk == 'hterm':
                # the task's own run() installs it (this child is a private copy of the task module)
                orig_run = Type.run

                def run(self):
                    signal.signal(signal.SIGTERM, _exit143)
                    return orig_run(self)
                Type.run = run

            def die(st, extra):
                cur = st.cur
                if case.get('flush') and cur is not None and not cur.real.closed:
                    cur.real.flush()
                c = st.counters()
                size = None
                if c['path'] is not None and os.path.exists(c['path']):
                    size = os.path.getsize(c['path'])
                rec = dict(counters=c, disk_size=size, open_file=(cur is not None and not cur.real.closed), **extra)
                if sigk == 'hterm':
                    rec.update(disposition=_disposition(), in_worker=(os.getpid() != coord_pid))
                fd = os.open(side, os.O_WRONLY | os.O_CREAT | os.O_TRUNC)
                os.write(fd, json.dumps(rec).encode())
                os.close(fd)
                if sigk == 'int':
                    # what Ctrl-C does: SIGINT -> KeyboardInterrupt raised in the main thread, here
                    signal.signal(signal.SIGINT, signal.default_int_handler)
                    os.kill(os.getpid(), signal.SIGINT)
                    for _ in range(1000):
                        time.sleep(0.001)      # the handler runs at the next bytecode boundary
                    raise KeyboardInterrupt('SIGINT was not delivered')
                if sigk == 'exit':
                    raise SystemExit(7)
                if sigk == 'hterm':
                    # what the second Ctrl-C does to the process executing the task: Process.terminate() = a real SIGTERM,
                    # under whatever disposition is in force HERE (nothing is installed or restored at the strike)
                    try:
                        os.kill(os.getpid(), signal.SIGTERM)
                        for _ in range(1000):
                            time.sleep(0.001)
                    except SystemExit:
                        _touch(side + '.unwound')      # the handler ran: the exception now unwinds through the save
                        raise
                    _touch(side + '.ignored')          # the signal had no effect at all: the save simply goes on
                    return
                os.kill(os.getpid(), sig)
                time.sleep(5)
                os._exit(3)

            trig = inj if inj[0] != 'line' else None
            st = W.WrapStorage(LocalStorage(sd), trigger=trig, action=lambda s, p: die(s, dict(point=list(p))), root=sd)
            tracer = None
            if inj[0] == 'line':
                Tracer = W.LineTracer
                if be != 'serial':
                    class Tracer(W.LineTracer):      # the save runs in a forked worker: count its lines there
                        pid = property(lambda self: os.getpid(), lambda self, v: None)
                tracer = Tracer(st, target=inj[1], action=lambda info: die(st, dict(line_info=info)))
                sys.settrace(tracer)
            lab = labtech.Lab(storage=st, runner_backend=be, context={'gen': 1, 'scale': 10},
                              **({} if be == 'serial' else {'max_workers': 1}))
            try:
                lab.run_tasks([Type(idx)], bust_cache=(mode == 'over'), disable_progress=True, disable_top=True)
            except BaseException:
                if sigk in SOFT:
                    sys.settrace(None)
                    if os.getpid() == coord_pid:
                        _reap_descendants()
                    os._exit(130)      # the interrupted process ends after unwinding
                raise
            sys.settrace(None)
            if not os.path.exists(side):
                fd = os.open(side, os.O_WRONLY | os.O_CREAT | os.O_TRUNC)
                os.write(fd, json.dumps(dict(completed=True)).encode())
                os.close(fd)
        finally:
            if os.getpid() == coord_pid:
                _reap_descendants()
            os._exit(0)
    _, status = os.waitpid(pid, 0)
    killed = (os.WIFSIGNALED(status) and os.WTERMSIG(status) in (signal.SIGKILL, signal.SIGTERM)) or \
        (sigk in SOFT and os.path.exists(side))
    sc = json.load(open(side)) if os.path.exists(side) else {}
    if sigk == 'hterm' and sc and not sc.get('completed'):
        sc['unwound'] = os.path.exists(side + '.unwound')
        sc['ignored'] = os.path.exists(side + '.ignored')
    T.EXEC_LOG = None
    return dict(case=case, dir=d, old_start=old_start, killed=killed, sidecar=sc)


def worker_main(spec_path, out_path):
    spec = json.load(open(spec_path))
    out = []
    for case in spec['cases']:
        try:
            out.append(kill_case(case, spec['root']))
        except BaseException:
            import traceback
            out.append(dict(case=case, infra=traceback.format_exc()[-800:]))
    json.dump(out, open(out_path, 'w'), default=str)


# ------------------------------------------------------------------ phase C: a fresh process looks at what is left
def verify_main(spec_path, out_path):
    import labtech
    import savetasks as T
    from props import c12
    labtech.logger.setLevel(logging.CRITICAL)
    spec = json.load(open(spec_path))
    out = []
    for rec in spec['records']:
        if rec.get('infra'):
            out.append(rec)
            continue
        try:
            c = rec['case']
            T.GEN = 1
            T.EXEC_LOG = os.path.join(rec['dir'], 'exec2.log')
            old_start = datetime.fromisoformat(rec['old_start']) if rec['old_start'] else None
            # what is on disk, for the report only
            kd = [p for p in os.listdir(os.path.join(rec['dir'], 'store')) if not p.startswith('.')]
            files = {}
            for k in kd:
                for f in sorted(os.listdir(os.path.join(rec['dir'], 'store', k))):
                    files[f] = os.path.getsize(os.path.join(rec['dir'], 'store', k, f))
            if c['kind'] == 'ctx':
                obs = observe_ctx(os.path.join(rec['dir'], 'store'), c, old_start, T, labtech, rec['dir'])
            else:
                obs = c12.observe_entry(os.path.join(rec['dir'], 'store'), c['kind'], c['idx'], old_start, T, labtech)
            out.append(dict(rec, files=files, **obs))
        except BaseException:
            import traceback
            out.append(dict(case=rec['case'], infra=traceback.format_exc()[-800:]))
    json.dump(out, open(out_path, 'w'), default=str)


def observe_ctx(storage_dir, c, old_start, T, labtech, d):
    """the later run happens on the SPAWN / FORK / serial backend, with a Lab context, for a task whose
    value depends on the context through `.get(key, default)`; then one more fresh Lab reads what is
    now stored. Same classes as c12.observe_entry; a value that is neither the old nor the new save's
    is WRONG."""
    ctx = {'gen': 1, 'scale': 10}
    log = os.path.join(d, 'exec3.log')
    os.environ['VERIF_SAVE_LOG'] = log
    T.EXEC_LOG = None

    def cls(v):
        for g, name in ((0, 'old'), (1, 'new')):
            if v == T.ctx_result(c['idx'], g, 10):
                return name
        return 'WRONG'

    def execs():
        try:
            return sum(1 for _ in open(log))
        except OSError:
            return 0
    Type = T.KINDS['ctx']
    lab = labtech.Lab(storage=storage_dir, runner_backend=c.get('obs', 'spawn'), max_workers=1, context=ctx,
                      continue_on_failure=True)
    t = Type(c['idx'])
    cached = bool(lab.is_cached(t))
    try:
        lst = lab.cached_tasks([Type])
        listed = 'no'
        for x in lst:
            if x == t:
                listed = 'yes:' + ('old' if (old_start is not None and x.result_meta is not None and x.result_meta.start == old_start) else 'new')
    except BaseException:
        listed = 'raises'
    before = execs()
    try:
        r = lab.run_tasks([t], disable_progress=True, disable_top=True)
        err = None
    except BaseException as e:
        r, err = {}, type(e).__name__
    executed = execs() - before
    if t in r:
        if executed:
            load = 'ran:' + cls(r[t])
        else:
            load = f"ok:{cls(r[t])}:{'old' if (old_start is not None and t.result_meta.start == old_start) else 'new'}"
    else:
        load = 'fails'
    # what every later Lab (any backend) now gets
    lab2 = labtech.Lab(storage=storage_dir, runner_backend='serial', context=ctx, continue_on_failure=True)
    t2 = Type(c['idx'])
    was_cached = bool(lab2.is_cached(t2))
    try:
        r2 = lab2.run_tasks([t2], disable_progress=True, disable_top=True)
        after = cls(r2[t2]) if t2 in r2 else 'fails'
    except BaseException as e:
        after = 'fails'
    if after == 'WRONG':
        load = load + '+later:WRONG' + ('(cached)' if was_cached else '')
    return dict(cached=cached, listed=listed, load=load, executed=executed, err=err, after=after)


def run_phase(flag, payloads, timeout):
    """one subprocess per payload; output to files"""
    tmp = tempfile.mkdtemp(prefix='verif-c13w-')
    try:
        procs = []
        for i, pl in enumerate(payloads):
            sp, op, lp = (os.path.join(tmp, f'{x}{i}.json') for x in ('spec', 'out', 'log'))
            json.dump(pl, open(sp, 'w'))
            lf = open(lp, 'w')
            env = dict(os.environ, PYTHONPATH=HERE + os.pathsep + os.environ.get('VERIF_REPO', '/repo'),
                       PYTHONHASHSEED=str(i + 1))
            procs.append((subprocess.Popen([sys.executable, os.path.abspath(__file__), flag, sp, op],
                                           stdout=lf, stderr=lf, stdin=subprocess.DEVNULL,
                                           start_new_session=True, env=env), op, lp, lf))
        outs, errors = [], []
        deadline = time.time() + timeout
        for p, op, lp, lf in procs:
            try:
                p.wait(timeout=max(0.1, deadline - time.time()))
            except subprocess.TimeoutExpired:
                errors.append('worker timeout')
            try:
                os.killpg(p.pid, signal.SIGKILL)
            except (ProcessLookupError, PermissionError):
                pass
            p.wait()
            lf.close()
            if os.path.exists(op):
                outs.append(json.load(open(op)))
            else:
                outs.append([])
                errors.append('worker produced no output: ' + open(lp).read()[-400:])
        return outs, errors
    finally:
        shutil.rmtree(tmp, ignore_errors=True)


# ------------------------------------------------------------------ end to end: real double Ctrl-C while the workers are saving
E2E = (('fork', 'double_handled_run'), ('spawn', 'double_handled_run'), ('fork', 'double_handled_app'))


def e2e_runs(only=None, attempt=0):
    """harness/intr_real.py in its double_handled_* modes, one subprocess per (backend, mode), in parallel; returns
    (records, violations, not_exercised)"""
    tmp = tempfile.mkdtemp(prefix='verif-c13e-')
    try:
        procs = []
        env = dict(os.environ, PYTHONPATH=os.environ.get('VERIF_REPO', '/repo') + os.pathsep + HERE)
        for be, mode in E2E:
            if only is not None and (be, mode) not in only:
                continue
            op, lp = os.path.join(tmp, f'{be}_{mode}.json'), os.path.join(tmp, f'{be}_{mode}.log')
            lf = open(lp, 'w')
            procs.append((be, mode, op, lp, lf,
                          subprocess.Popen([sys.executable, os.path.join(HERE, 'intr_real.py'), be, mode, op], stdout=lf, stderr=lf,
                                           stdin=subprocess.DEVNULL, start_new_session=True, env=env, cwd=HERE)))
        recs, viol, again = [], [], []
        deadline = time.time() + 60
        for be, mode, op, lp, lf, p in procs:
            try:
                p.wait(timeout=max(1, deadline - time.time()))
            except subprocess.TimeoutExpired:
                pass
            try:
                os.killpg(p.pid, signal.SIGKILL)
            except (ProcessLookupError, PermissionError):
                pass
            p.wait()
            lf.close()
            if not os.path.exists(op):
                again.append((be, mode, 'the run produced no record: ' + open(lp).read()[-300:]))
                continue
            r = json.load(open(op))
            recs.append(r)
            for k, how in sorted(r.get('unloadable', {}).items()):
                who = ("the task's own run()" if mode == 'double_handled_run' else 'the application before run_tasks (inherited by the forked workers)')
                viol.append(dict(what=f"end to end ({be}, {mode}): double Ctrl-C while the workers were inside the save, with a raising SIGTERM handler installed by {who}: "
                                      f"afterwards task {k} is reported cached and {how} (handlers that ran in the terminated workers: {r.get('handler_ran')} of {len(r.get('save_started', []))}; entry files {r.get('files')})",
                                 replay=dict(kind='e2e-handled', backend=be, mode=mode, rec=r, sig='hterm',
                                             flavour=dict(hand=mode.rsplit('_', 1)[1], be=be), strike_point='inside pickle.dump of the result (a __reduce__ that sleeps)')))
            if not r.get('unloadable') and (len(r.get('save_started', [])) < 2 or r.get('signals') != 2 or r.get('save_resumed')):
                again.append((be, mode, f"the second Ctrl-C did not land while both workers were saving: {r}"))
        if again and attempt < 1:
            r2, v2, again = e2e_runs(only=[(b, m) for b, m, _ in again], attempt=attempt + 1)
            recs += r2
            viol += v2
        return recs, viol, again
    finally:
        shutil.rmtree(tmp, ignore_errors=True)


# ------------------------------------------------------------------ model side
def model_of(rec, dry):
    """(SAVE line, k, durable) for a kill record"""
    import savewrap as W
    n1, m1 = dry['n1'], dry['m1']
    sc = rec['sidecar']
    c = rec['case']
    if c.get('sig') in SOFT and not sc.get('completed'):
        if 'point' in sc:
            pt = tuple(sc['point'])
            if pt[0] == 'write_split':
                pt = ('write_pre',) + pt[1:]
            k, eff = W.fault_k(pt, n1, m1)
        else:
            li = sc['line_info']
            if li.get('closed', 0) >= 2 and li.get('fh_started') == li.get('fh_done'):
                # both files are complete and closed: whether this instant is still guarded (the exception then removes
                # the complete entry) or not (it stays) is a freedom of the implementation - both answers are accepted
                done = f"SAVE mode={c['mode']} n={n1} m={m1} kind=crash k={9 + n1 + m1} lose=0"
                undone = f"SAVE mode={c['mode']} n={n1} m={m1} kind=fault k={8 + n1 + m1} eff=1 del=ok"
                if W.line_after_region(li):
                    rec['alt_line'] = undone
                    return done, 9 + n1 + m1, True
                rec['alt_line'] = done
                return undone, 8 + n1 + m1, True
            if W.line_after_region(li):
                # the signal landed after the guarded region was left: the save is complete
                return f"SAVE mode={c['mode']} n={n1} m={m1} kind=crash k={9 + n1 + m1} lose=0", 9 + n1 + m1, True
            k, eff = (max(1, W.line_k(li, n1, m1)) if W.line_in_try(li) else 0), 0
            if li.get('fh_started') == 0 and k <= 1:
                # nothing of the entry has been opened yet: both "already guarded" and "not yet guarded" are accepted
                rec['alt_line'] = f"SAVE mode={c['mode']} n={n1} m={m1} kind=fault k={1 - k} eff=0 del=ok"
        return f"SAVE mode={c['mode']} n={n1} m={m1} kind=fault k={k} eff={eff} del=ok", k, True
    if sc.get('completed'):
        k = 9 + n1 + m1
        durable = True
    else:
        if 'point' in sc:
            k = W.crash_k(tuple(sc['point']), n1, m1)
        else:
            k = W.line_k(sc['line_info'], n1, m1)
        cnt = sc['counters']
        durable = True
        if sc.get('open_file'):
            durable = (sc['disk_size'] == cnt['bytes'])
    return f"SAVE mode={c['mode']} n={n1} m={m1} kind=crash k={k} lose={0 if durable else 1}", k, durable


def real_obs(rec):
    load = rec['load']
    if load.startswith('ran:') and not rec['cached']:
        load = 'fails'     # not cached: the task is simply executed (the model's load of an absent entry)
    return f"cached={int(rec['cached'])} load={load} listed={rec['listed']} raised=0"


def poisoned(rec):
    if not rec['cached']:
        return False
    good = ['ok:new:new'] + (['ok:old:old'] if rec['case']['mode'] == 'over' else [])
    return rec['load'] not in good


def evaluate(recs, dry_of):
    import driver
    lines, metas = [], []
    for rec in recs:
        c = rec['case']
        ml, k, durable = model_of(rec, dry_of[(c['kind'], c['idx'], c['mode'])])
        rec['k'], rec['durable'], rec['model_line'] = k, durable, ml
        lines.append(ml)
    outs = driver.run_lines(lines) if lines else []
    alts = [r for r in recs if r.get('alt_line')]
    alt_out = dict(zip((id(r) for r in alts), driver.run_lines([r['alt_line'] for r in alts]))) if alts else {}
    violations, disagreements = [], []
    for rec, mo in zip(recs, outs):
        c = rec['case']
        rec['model'] = mo
        rec['real'] = real_obs(rec)
        model_safe = mo.endswith('safe=1')
        soft = c.get('sig') in SOFT
        norm = lambda x: ' '.join(w for w in x.split() if not w.startswith('safe=')).replace('raised=1', 'raised=0' if soft else 'raised=1')
        mo_cmp = norm(mo)
        if rec['real'] != mo_cmp and not (id(rec) in alt_out and rec['real'] == norm(alt_out[id(rec)])):
            disagreements.append(dict(case=c, k=rec['k'], real=rec['real'], model=mo_cmp, line=rec['model_line'],
                                      files=rec.get('files'), sidecar=rec['sidecar']))
        rep = dict(kind='save-crash', case=c, k=rec['k'], durable=rec['durable'], real=rec['real'], model=mo,
                   files=rec.get('files'))
        if 'WRONG' in rec['load']:
            how = f" on the '{c['obs']}' backend with a Lab context" if c.get('obs') else ''
            violations.append(dict(what=f'after a kill during a save a later run_tasks{how} returned or newly cached a WRONG value instead of failing (' + rec['load'] + ')',
                                   replay=rep))
        elif poisoned(rec) and c.get('sig') == 'hterm':
            # never a known finding: F13a / F13b describe HARD kills; here the application / the task had arranged for
            # SIGTERM to arrive as an exception, and on the unchanged code the save's cleanup then removes the entry
            sc = rec['sidecar']
            who = ("the task's own run()" if c.get('hand') == 'run' else 'the application before run_tasks (inherited by the forked worker)')
            where = ('the fork worker (started through ProcessRunner._subprocess_func)' if c.get('be') == 'fork' else 'the serial-runner process')
            fate = ('its SystemExit unwound through the save' if sc.get('unwound') else
                    f"the handler did NOT run - SIGTERM disposition found at the strike: {sc.get('disposition')}; the process simply died")
            violations.append(dict(what=f"handled SIGTERM ({c.get('hand')}/{c.get('be')}): a SIGTERM (second Ctrl-C -> ProcessExecutor.stop -> terminate()) landing mid-save "
                                        f"(micro-step {rec['k']}, strike point {c['inj']}) in {where} executing the task, with a raising SIGTERM handler installed by {who}, "
                                        f"left an entry that is reported cached and {'fails to load' if rec['load'] == 'fails' else 'loads ' + rec['load']} ({fate}): {rec['real']}",
                                   replay=dict(rep, flavour=dict(hand=c.get('hand'), be=c.get('be')), strike_point=c['inj'], sig='hterm',
                                               disposition_at_strike=sc.get('disposition'), handler_ran=bool(sc.get('unwound')))))
        elif poisoned(rec) and soft:
            violations.append(dict(what=f"a {'Ctrl-C (SIGINT -> KeyboardInterrupt)' if c['sig'] == 'int' else 'SystemExit'} landing mid-save (micro-step {rec['k']}) in the process executing the task left an entry that is reported cached and {'fails to load' if rec['load'] == 'fails' else 'loads ' + rec['load']}: {rec['real']}",
                                   replay=rep))
        elif poisoned(rec):
            # hard kills only (c['sig'] in HARD): the windows of F13a / F13b
            if not model_safe and c.get('sig') in HARD:
                what = ('first save' if c['mode'] == 'first' else 'overwrite') + \
                    f": a kill inside the known window leaves an entry that is_cached reports and that {'fails to load' if rec['load'] == 'fails' else 'loads ' + rec['load']}"
                violations.append(dict(what=what, replay=rep, known_match=KNOWN[c['mode']]))
            else:
                violations.append(dict(what=f"a kill at a point the model proves safe (k={rec['k']}, durable={rec['durable']}) left a poisoned entry: {rec['real']}",
                                       replay=rep))
        elif rec['load'].startswith('ran:') and c['idx'] < 10 and rec['load'] != 'ran:new':
            violations.append(dict(what='after a kill during a save a later run_tasks returned a wrong value: ' + rec['load'], replay=rep))
    return violations, disagreements


# ------------------------------------------------------------------ enumeration
def enumerate_cases(tier, dry_of, seed=1):
    import savetasks as T
    idxs = [0, 2] if tier == 'quick' else sorted(T.GOOD)
    cases = []
    c = 0
    for kind in ('pickle', 'json'):
        for mode in ('first', 'over'):
            for idx in idxs:
                dry = dry_of[(kind, idx, mode)]
                n1, m1 = dry['n1'], dry['m1']
                pts = []
                for fidx, cnt in ((0, n1), (1, m1)):
                    pts += [('fh_enter', fidx), ('fh_exit', fidx)]
                    if tier == 'quick' and cnt > 8:
                        wi = sorted({0, 1, cnt // 2, cnt - 2, cnt - 1})
                    else:
                        wi = list(range(cnt))
                    for i in wi:
                        pts += [('write_pre', fidx, i), ('write_split', fidx, i)]
                    pts += [('write_post', fidx, cnt - 1), ('close_pre', fidx), ('close_post', fidx)]
                for p in pts:
                    for flush in (0, 1):
                        c += 1
                        cases.append(dict(kind=kind, idx=idx, mode=mode, inj=list(p), flush=flush,
                                          sig='term' if c % 4 == 0 else 'kill'))
                step = 1 if (tier == 'thorough' or idx == 0) else 3
                for e in range(0, dry['lines'], step):
                    c += 1
                    cases.append(dict(kind=kind, idx=idx, mode=mode, inj=['line', e], flush=0,
                                      sig='term' if c % 4 == 0 else 'kill'))
                # soft kills: SIGINT / SystemExit at the storage-operation points and at executed lines
                for p in pts:
                    c += 1
                    if tier == 'thorough' or idx == 0 or c % 3 == 0:
                        cases.append(dict(kind=kind, idx=idx, mode=mode, inj=list(p), flush=0,
                                          sig='int' if c % 2 == 0 else 'exit'))
                for e in range(0, dry['lines'], 1 if tier == 'thorough' else (2 if idx == 0 else 5)):
                    c += 1
                    cases.append(dict(kind=kind, idx=idx, mode=mode, inj=['line', e], flush=0,
                                      sig='int' if c % 2 == 0 else 'exit'))
                # handled SIGTERM: a real SIGTERM under a raising Python handler, at the same points, per flavour; the seed
                # rotates which points the sampled (quick) tier takes
                for hand, be in FLAVOURS:
                    thorough = tier == 'thorough'
                    if be == 'serial':
                        ps, ls = (1 if (thorough or idx == 0) else 3), (1 if thorough else (2 if idx == 0 else 5))
                    else:
                        ps, ls = (1 if thorough else (2 if idx == 0 else 4)), (1 if thorough else (4 if idx == 0 else 10))
                    for i, p in enumerate(pts):
                        if (i + seed) % ps == 0:
                            cases.append(dict(kind=kind, idx=idx, mode=mode, inj=list(p), flush=0, sig='hterm', hand=hand, be=be))
                    for e in range(dry['lines']):
                        if (e + seed) % ls == 0:
                            cases.append(dict(kind=kind, idx=idx, mode=mode, inj=['line', e], flush=0, sig='hterm', hand=hand, be=be))
                # a kill after the save (the task completed): trigger that never fires
                cases.append(dict(kind=kind, idx=idx, mode=mode, inj=['line', 10 ** 6], flush=0, sig='kill'))
    # context-dependent task, later run on the spawn / fork backend: a handful of hard-kill points
    # before, inside and after the windows
    c = 0
    for mode in ('first', 'over'):
        for idx in ([0] if tier == 'quick' else [0, 2]):
            dry = dry_of[('ctx', idx, mode)]
            n1, m1 = dry['n1'], dry['m1']
            pts = [('fh_enter', 0), ('fh_exit', 0), ('write_pre', 0, n1 // 2), ('close_post', 0), ('fh_exit', 1),
                   ('write_split', 1, 0), ('close_pre', 1), ('close_post', 1)]
            for p in pts:
                for obs in (('spawn', 'fork') if (tier == 'thorough' or p[0] in ('close_post', 'fh_exit', 'write_split')) else ('spawn',)):
                    c += 1
                    cases.append(dict(kind='ctx', idx=idx, mode=mode, inj=list(p), flush=1, sig='kill', obs=obs))
    return cases


def explore(cases, dry_of, workers, timeout):
    root = tempfile.mkdtemp(prefix='verif-c13-')
    try:
        chunks = [cases[i::workers] for i in range(workers)]
        chunks = [ch for ch in chunks if ch]
        outs, errors = run_phase('--worker', [dict(cases=ch, root=root) for ch in chunks], timeout)
        outs2, errors2 = run_phase('--verify', [dict(records=o) for o in outs if o], timeout)
        recs = [r for o in outs2 for r in o]
        return recs, errors + errors2
    finally:
        shutil.rmtree(root, ignore_errors=True)


def run(ctx):
    from props import c12
    tier = ctx['tier']
    t0 = time.time()
    if ctx.get('replay'):
        rp = json.load(open(ctx['replay']))
        if (rp.get('replay') or {}).get('kind') == 'e2e-handled':
            er, ev, en = e2e_runs(only=[(rp['replay']['backend'], rp['replay']['mode'])])
            if en:
                return dict(infra_error='; '.join(x[2] for x in en)[:1500])
            return dict(evaluations=len(er), distinct_nontrivial=len(er), rule='replay of one end-to-end double-Ctrl-C-while-saving run',
                        samples=er[:1], violations=ev, disagreements=[])
        case = (rp.get('replay') or {}).get('case')
        if case is None:
            return dict(infra_error='replay file holds no save-crash case')
        dry_of = c12.dry_runs(kinds=('pickle', 'json', 'ctx'))
        recs, errors = explore([case], dry_of, 1, 120)
        if errors or any(r.get('infra') for r in recs):
            return dict(infra_error='; '.join(errors + [r['infra'] for r in recs if r.get('infra')]))
        viol, dis = evaluate(recs, dry_of)
        return dict(evaluations=1, distinct_nontrivial=1, rule='replay of one recorded kill point',
                    samples=[recs[0].get('real')], violations=viol, disagreements=dis)
    if not ctx['driver_ok']:
        return dict(evaluations=0, disagreements=[dict(diff='driver does not build')], violations=[])
    dry_of = c12.dry_runs(kinds=('pickle', 'json', 'ctx'))
    cases = enumerate_cases(tier, dry_of, ctx.get('seed', 1))
    import threading
    ebox = {}
    eth = threading.Thread(target=lambda: ebox.update(res=e2e_runs()))
    eth.start()      # alongside: the end-to-end double Ctrl-C runs (mostly sleeping)
    recs, errors = explore(cases, dry_of, 14, 120 if tier == 'quick' else 1200)
    eth.join()
    e2e_recs, e2e_viol, e2e_not = ebox.get('res', ([], [], [('?', '?', 'the end-to-end runs raised in the harness')]))
    infra = [r for r in recs if r.get('infra')]
    if errors or infra:
        return dict(infra_error='; '.join(errors + [r['infra'] for r in infra[:2]]))
    viol, dis = evaluate(recs, dry_of)
    unknown = [v for v in viol if not v.get('known_match')] + e2e_viol
    if (dis or not ctx['proof_ok']) and not unknown:
        # enlarged search: every write boundary and every line of every corpus result
        cases2 = enumerate_cases('thorough', dry_of, ctx.get('seed', 1))
        seen = {json.dumps(c, sort_keys=True) for c in cases}
        cases2 = [c for c in cases2 if json.dumps(c, sort_keys=True) not in seen]
        recs2, errors2 = explore(cases2, dry_of, 16, 900)
        recs2 = [r for r in recs2 if not r.get('infra')]
        v2, _ = evaluate(recs2, dry_of)
        viol += v2
        recs += recs2
    # report order: unknown violations first; one representative per known window
    unknown = sorted([v for v in viol if not v.get('known_match')],
                     key=lambda v: (v['replay']['case']['idx'], v['replay']['case']['kind'] != 'pickle',
                                    v['replay']['case']['mode'] != 'first', v['replay']['k']))
    # one representative (the simplest failing input) per signal kind / flavour first, then the end-to-end runs, then the rest
    fl = lambda v: (v['replay']['case'].get('sig'), v['replay']['case'].get('hand'), v['replay']['case'].get('be'))
    reps, rest = {}, []
    for v in unknown:
        if fl(v) in reps:
            rest.append(v)
        else:
            reps[fl(v)] = v
    unknown = [dict(v, what=v['what'] + (f" ({sum(1 for w in unknown if fl(w) == k)} strike points of this flavour left a poisoned entry)" if k[0] == 'hterm' else ''))
               for k, v in reps.items()] + e2e_viol + rest
    known = []
    for m in KNOWN.values():
        hits = [v for v in viol if v.get('known_match') == m]
        if hits:
            hits.sort(key=lambda v: (v['replay']['case']['idx'], v['replay']['k']))
            known.append(dict(hits[0], what=hits[0]['what'] + f' ({len(hits)} kill points of this window reproduced it)'))
    in_window = [r for r in recs if not r['model'].endswith('safe=1')]
    dist = dict(
        kill_points=len(recs), really_killed=sum(1 for r in recs if r['killed']),
        by_mode={k: sum(1 for r in recs if r['case']['mode'] == k) for k in ('first', 'over')},
        by_kind={k: sum(1 for r in recs if r['case']['kind'] == k) for k in ('pickle', 'json', 'ctx')},
        later_run_backend={k: sum(1 for r in recs if r['case'].get('obs') == k) for k in ('spawn', 'fork')},
        by_point={k: sum(1 for r in recs if r['case']['inj'][0] == k)
                  for k in ('fh_enter', 'fh_exit', 'write_pre', 'write_split', 'write_post', 'close_pre', 'close_post', 'line')},
        by_signal={k: sum(1 for r in recs if r['case']['sig'] == k) for k in ('kill', 'term', 'int', 'exit', 'hterm')},
        soft_kills_poisoned=sum(1 for r in recs if r['case']['sig'] in SOFT and poisoned(r)),
        handled_sigterm={f'{h}/{b}': dict(strikes=sum(1 for r in recs if r['case']['sig'] == 'hterm' and (r['case']['hand'], r['case']['be']) == (h, b)
                                                     and not r['sidecar'].get('completed')),
                                        handler_ran=sum(1 for r in recs if r['case']['sig'] == 'hterm' and (r['case']['hand'], r['case']['be']) == (h, b)
                                                        and r['sidecar'].get('unwound')),
                                        struck_in_worker=sum(1 for r in recs if r['case']['sig'] == 'hterm' and (r['case']['hand'], r['case']['be']) == (h, b)
                                                             and r['sidecar'].get('in_worker')))
                        for h, b in FLAVOURS},
        buffer={'flushed_before_kill': sum(1 for r in recs if r['case']['flush']),
                'dropped(native buffering)': sum(1 for r in recs if not r['case']['flush']),
                'measured_not_durable': sum(1 for r in recs if not r['durable'])},
        model_says_poisoned=len(in_window), model_says_safe=len(recs) - len(in_window),
        real_poisoned=sum(1 for r in recs if poisoned(r)),
        real_poisoned_by_window={m: sum(1 for v in viol if v.get('known_match') == m) for m in KNOWN.values()},
        end_to_end_double_ctrl_c_while_saving=[{k: r.get(k) for k in ('backend', 'mode', 'out', 'signals', 'save_started', 'save_resumed', 'handler_ran',
                                                                     'cached', 'listed', 'unloadable', 'workers_gone_after')} for r in e2e_recs],
        end_to_end_not_exercised=[list(x) for x in e2e_not],
        outcome_classes={}, wall_s=round(time.time() - t0, 1),
    )
    for r in recs:
        dist['outcome_classes'][r['real']] = dist['outcome_classes'].get(r['real'], 0) + 1
    return dict(
        evaluations=len(recs) + len(e2e_recs), distinct_nontrivial=len({json.dumps(r['case'], sort_keys=True) for r in in_window}),
        rule='enumerated kill points (storage-operation boundary / write-call boundary / mid-write split x buffer flushed or dropped; every executed line of cache.py+storage.py inside the save) x result x cache format x first/overwrite; handled SIGTERM (a real SIGTERM under a raising Python handler installed by the run() of the task or by the application) at the same points x {serial process, real fork worker}; non-trivial = the kill point lies inside a window that crash_safe_iff proves poisoned',
        samples=[dict(case=r['case'], k=r['k'], durable=r['durable'], real=r['real'], model=r['model'], files=r.get('files'))
                 for r in (in_window[:2] + recs[:1])],
        violations=unknown[:10] + known, disagreements=dis[:10], distribution=dist,
        assumptions=['SIGKILL / SIGTERM of the saving process; the OS page cache survives (no power loss): what was written to the file descriptor is on disk',
                     'hard kills: serial runner in a forked child (run_or_load_task and the save path are the same code in the process runners); handled SIGTERM: serial runner and the real fork backend (the worker signals itself at the strike point); spawn workers only in the end-to-end runs',
                     'handled SIGTERM: the handler raises SystemExit (sys.exit(143)); a handler that swallows the signal or never returns is outside the clause',
                     'LocalStorage; a strict prefix of a stored document never parses as a complete document'],
        explanation='a forked child runs the real Lab.run_tasks -> BaseCache.save -> LocalStorage and kills itself at the enumerated point; fresh interpreters then call is_cached / cached_tasks / run_tasks; outcome class compared per kill point with the Lean crash model, whose theorem crash_safe_iff characterises exactly the safe points; poisoned outcomes inside the two proved windows are the recorded known findings F13a/F13b, anything else poisoned or wrong - in particular a poisoned entry after a SIGTERM that a raising handler should have turned into an exception (strike machinery and 3 end-to-end double-Ctrl-C-while-saving runs on real fork / spawn workers) - is a violation',
    )


if __name__ == '__main__':
    if len(sys.argv) == 4 and sys.argv[1] == '--worker':
        worker_main(sys.argv[2], sys.argv[3])
    elif len(sys.argv) == 4 and sys.argv[1] == '--verify':
        verify_main(sys.argv[2], sys.argv[3])
