"""C13 — killing a task mid-save cannot poison the cache  (KNOWN FINDING F13a / F13b).

A forked child performs the real save (`Lab.run_tasks`, serial runner -> run_or_load_task ->
BaseCache.save -> LocalStorage) through `savewrap.WrapStorage` and kills itself (SIGKILL, or SIGTERM =
what `ProcessExecutor.stop` -> `Process.terminate()` delivers) at an ENUMERATED kill point:
every storage-operation boundary, write-call boundaries and mid-write splits of both files (buffered
data flushed first, or dropped), and every executed line of cache.py / storage.py inside the save.
A *fresh interpreter* then calls is_cached / cached_tasks / run_tasks on the directory the child left.
The outcome class is compared with the Lean model's (`SAVE … kind=crash`), whose theorem
`crash_safe_iff` says exactly which kill points are safe.

SOFT kills (sig = 'int' | 'exit'): the child receives SIGINT (Python raises KeyboardInterrupt at the
kill point, exactly what the first Ctrl-C does to a serial-runner process) or SystemExit is raised
there; the exception unwinds through BaseCache.save's handler and the process then ends. The model
of a soft kill is a *fault* (`SAVE … kind=fault`, theorem `failed_save_leaves_absent` of C12): the
entry must be absent or load correctly at EVERY such point; a poisoned entry after a soft kill is a
real violation, never a known finding (the F13a/F13b windows are for hard kills only).

LATER RUN ON OTHER BACKENDS (kind 'ctx'): for a task whose value depends on the Lab context through
`.get(key, default)`, a handful of hard-kill points are followed, in the fresh interpreter, by
`run_tasks` on the SPAWN (and fork) backend with that context, then by one more serial Lab: the outcome
must be "fails to load" (known finding inside the windows) or the CORRECT value — a wrong value
returned or newly stored is a plain violation.

* poisoned inside a window the model proves poisoned  -> violation with known_match (KNOWN-FINDING)
* poisoned where the model proves safe, a load returning a wrong value, an entry that appears before
  the save touched anything                            -> real violation (exit 1)
"""
import json
import logging
import os
import shutil
import signal
import subprocess
import sys
import tempfile
import time
from datetime import datetime

HERE = os.path.dirname(os.path.dirname(os.path.abspath(__file__)))
if HERE not in sys.path:
    sys.path.insert(0, HERE)

KNOWN = {'first': 'first_save_crash_between_mkdir_and_data_complete',
         'over': 'overwrite_crash_between_truncate_and_data_complete'}


# ------------------------------------------------------------------ phase B: the save that gets killed
def kill_case(case, root):
    """returns the record of one kill point; leaves the storage directory under `root`"""
    import labtech
    from labtech.storage import LocalStorage
    import savetasks as T
    import savewrap as W
    labtech.logger.setLevel(logging.CRITICAL)
    kind, idx, mode = case['kind'], case['idx'], case['mode']
    inj = tuple(case['inj'])
    Type = T.KINDS[kind]
    d = tempfile.mkdtemp(prefix='kp-', dir=root)
    sd = os.path.join(d, 'store')
    side = os.path.join(d, 'sidecar.json')
    T.EXEC_LOG = os.path.join(d, 'exec.log')
    old_start = None
    if mode == 'over':
        T.GEN = 0
        t0 = Type(idx)
        r0 = labtech.Lab(storage=sd, runner_backend='serial', context={'gen': 0, 'scale': 10}).run_tasks(
            [t0], disable_progress=True, disable_top=True)
        if t0 not in r0:
            return dict(case=case, infra='the preparing save of an overwrite case failed')
        old_start = t0.result_meta.start.isoformat()
    else:
        LocalStorage(sd)   # the storage directory itself exists before the save starts
    sys.stdout.flush()
    pid = os.fork()
    if pid == 0:
        # ---- the child: perform the save, die at the kill point
        try:
            T.GEN = 1
            sig = signal.SIGTERM if case.get('sig') == 'term' else signal.SIGKILL

            def die(st, extra):
                cur = st.cur
                if case.get('flush') and cur is not None and not cur.real.closed:
                    cur.real.flush()
                c = st.counters()
                size = None
                if c['path'] is not None and os.path.exists(c['path']):
                    size = os.path.getsize(c['path'])
                rec = dict(counters=c, disk_size=size, open_file=(cur is not None and not cur.real.closed), **extra)
                fd = os.open(side, os.O_WRONLY | os.O_CREAT | os.O_TRUNC)
                os.write(fd, json.dumps(rec).encode())
                os.close(fd)
                if case.get('sig') == 'int':
                    # what Ctrl-C does: SIGINT -> KeyboardInterrupt raised in the main thread, here
                    signal.signal(signal.SIGINT, signal.default_int_handler)
                    os.kill(os.getpid(), signal.SIGINT)
                    for _ in range(1000):
                        time.sleep(0.001)      # the handler runs at the next bytecode boundary
                    raise KeyboardInterrupt('SIGINT was not delivered')
                if case.get('sig') == 'exit':
                    raise SystemExit(7)
                os.kill(os.getpid(), sig)
                time.sleep(5)
                os._exit(3)

            trig = inj if inj[0] != 'line' else None
            st = W.WrapStorage(LocalStorage(sd), trigger=trig, action=lambda s, p: die(s, dict(point=list(p))), root=sd)
            tracer = None
            if inj[0] == 'line':
                tracer = W.LineTracer(st, target=inj[1], action=lambda info: die(st, dict(line_info=info)))
                sys.settrace(tracer)
            lab = labtech.Lab(storage=st, runner_backend='serial', context={'gen': 1, 'scale': 10})
            try:
                lab.run_tasks([Type(idx)], bust_cache=(mode == 'over'), disable_progress=True, disable_top=True)
            except BaseException:
                if case.get('sig') in ('int', 'exit'):
                    sys.settrace(None)
                    os._exit(130)      # the interrupted process ends after unwinding
                raise
            sys.settrace(None)
            if not os.path.exists(side):
                fd = os.open(side, os.O_WRONLY | os.O_CREAT | os.O_TRUNC)
                os.write(fd, json.dumps(dict(completed=True)).encode())
                os.close(fd)
        finally:
            os._exit(0)
    _, status = os.waitpid(pid, 0)
    killed = (os.WIFSIGNALED(status) and os.WTERMSIG(status) in (signal.SIGKILL, signal.SIGTERM)) or \
        (case.get('sig') in ('int', 'exit') and os.path.exists(side))
    sc = json.load(open(side)) if os.path.exists(side) else {}
    T.EXEC_LOG = None
    return dict(case=case, dir=d, old_start=old_start, killed=killed, sidecar=sc)


def worker_main(spec_path, out_path):
    spec = json.load(open(spec_path))
    out = []
    for case in spec['cases']:
        try:
            out.append(kill_case(case, spec['root']))
        except BaseException:
            import traceback
            out.append(dict(case=case, infra=traceback.format_exc()[-800:]))
    json.dump(out, open(out_path, 'w'), default=str)


# ------------------------------------------------------------------ phase C: a fresh process looks at what is left
def verify_main(spec_path, out_path):
    import labtech
    import savetasks as T
    from props import c12
    labtech.logger.setLevel(logging.CRITICAL)
    spec = json.load(open(spec_path))
    out = []
    for rec in spec['records']:
        if rec.get('infra'):
            out.append(rec)
            continue
        try:
            c = rec['case']
            T.GEN = 1
            T.EXEC_LOG = os.path.join(rec['dir'], 'exec2.log')
            old_start = datetime.fromisoformat(rec['old_start']) if rec['old_start'] else None
            # what is on disk, for the report only
            kd = [p for p in os.listdir(os.path.join(rec['dir'], 'store')) if not p.startswith('.')]
            files = {}
            for k in kd:
                for f in sorted(os.listdir(os.path.join(rec['dir'], 'store', k))):
                    files[f] = os.path.getsize(os.path.join(rec['dir'], 'store', k, f))
            if c['kind'] == 'ctx':
                obs = observe_ctx(os.path.join(rec['dir'], 'store'), c, old_start, T, labtech, rec['dir'])
            else:
                obs = c12.observe_entry(os.path.join(rec['dir'], 'store'), c['kind'], c['idx'], old_start, T, labtech)
            out.append(dict(rec, files=files, **obs))
        except BaseException:
            import traceback
            out.append(dict(case=rec['case'], infra=traceback.format_exc()[-800:]))
    json.dump(out, open(out_path, 'w'), default=str)


def observe_ctx(storage_dir, c, old_start, T, labtech, d):
    """the later run happens on the SPAWN / FORK / serial backend, with a Lab context, for a task whose
    value depends on the context through `.get(key, default)`; then one more fresh Lab reads what is
    now stored. Same classes as c12.observe_entry; a value that is neither the old nor the new save's
    is WRONG."""
    ctx = {'gen': 1, 'scale': 10}
    log = os.path.join(d, 'exec3.log')
    os.environ['VERIF_SAVE_LOG'] = log
    T.EXEC_LOG = None

    def cls(v):
        for g, name in ((0, 'old'), (1, 'new')):
            if v == T.ctx_result(c['idx'], g, 10):
                return name
        return 'WRONG'

    def execs():
        try:
            return sum(1 for _ in open(log))
        except OSError:
            return 0
    Type = T.KINDS['ctx']
    lab = labtech.Lab(storage=storage_dir, runner_backend=c.get('obs', 'spawn'), max_workers=1, context=ctx,
                      continue_on_failure=True)
    t = Type(c['idx'])
    cached = bool(lab.is_cached(t))
    try:
        lst = lab.cached_tasks([Type])
        listed = 'no'
        for x in lst:
            if x == t:
                listed = 'yes:' + ('old' if (old_start is not None and x.result_meta is not None and x.result_meta.start == old_start) else 'new')
    except BaseException:
        listed = 'raises'
    before = execs()
    try:
        r = lab.run_tasks([t], disable_progress=True, disable_top=True)
        err = None
    except BaseException as e:
        r, err = {}, type(e).__name__
    executed = execs() - before
    if t in r:
        if executed:
            load = 'ran:' + cls(r[t])
        else:
            load = f"ok:{cls(r[t])}:{'old' if (old_start is not None and t.result_meta.start == old_start) else 'new'}"
    else:
        load = 'fails'
    # what every later Lab (any backend) now gets
    lab2 = labtech.Lab(storage=storage_dir, runner_backend='serial', context=ctx, continue_on_failure=True)
    t2 = Type(c['idx'])
    was_cached = bool(lab2.is_cached(t2))
    try:
        r2 = lab2.run_tasks([t2], disable_progress=True, disable_top=True)
        after = cls(r2[t2]) if t2 in r2 else 'fails'
    except BaseException as e:
        after = 'fails'
    if after == 'WRONG':
        load = load + '+later:WRONG' + ('(cached)' if was_cached else '')
    return dict(cached=cached, listed=listed, load=load, executed=executed, err=err, after=after)


def run_phase(flag, payloads, timeout):
    """one subprocess per payload; output to files"""
    tmp = tempfile.mkdtemp(prefix='verif-c13w-')
    try:
        procs = []
        for i, pl in enumerate(payloads):
            sp, op, lp = (os.path.join(tmp, f'{x}{i}.json') for x in ('spec', 'out', 'log'))
            json.dump(pl, open(sp, 'w'))
            lf = open(lp, 'w')
            env = dict(os.environ, PYTHONPATH=HERE + os.pathsep + os.environ.get('VERIF_REPO', '/repo'),
                       PYTHONHASHSEED=str(i + 1))
            procs.append((subprocess.Popen([sys.executable, os.path.abspath(__file__), flag, sp, op],
                                           stdout=lf, stderr=lf, stdin=subprocess.DEVNULL,
                                           start_new_session=True, env=env), op, lp, lf))
        outs, errors = [], []
        deadline = time.time() + timeout
        for p, op, lp, lf in procs:
            try:
                p.wait(timeout=max(0.1, deadline - time.time()))
            except subprocess.TimeoutExpired:
                errors.append('worker timeout')
            try:
                os.killpg(p.pid, signal.SIGKILL)
            except (ProcessLookupError, PermissionError):
                pass
            p.wait()
            lf.close()
            if os.path.exists(op):
                outs.append(json.load(open(op)))
            else:
                outs.append([])
                errors.append('worker produced no output: ' + open(lp).read()[-400:])
        return outs, errors
    finally:
        shutil.rmtree(tmp, ignore_errors=True)


# ------------------------------------------------------------------ model side
def model_of(rec, dry):
    """(SAVE line, k, durable) for a kill record"""
    import savewrap as W
    n1, m1 = dry['n1'], dry['m1']
    sc = rec['sidecar']
    c = rec['case']
    if c.get('sig') in ('int', 'exit') and not sc.get('completed'):
        if 'point' in sc:
            pt = tuple(sc['point'])
            if pt[0] == 'write_split':
                pt = ('write_pre',) + pt[1:]
            k, eff = W.fault_k(pt, n1, m1)
        else:
            li = sc['line_info']
            if W.line_after_region(li):
                # the signal landed after the guarded region was left: the save is complete
                return f"SAVE mode={c['mode']} n={n1} m={m1} kind=crash k={9 + n1 + m1} lose=0", 9 + n1 + m1, True
            k, eff = (max(1, W.line_k(li, n1, m1)) if W.line_in_try(li) else 0), 0
        return f"SAVE mode={c['mode']} n={n1} m={m1} kind=fault k={k} eff={eff} del=ok", k, True
    if sc.get('completed'):
        k = 9 + n1 + m1
        durable = True
    else:
        if 'point' in sc:
            k = W.crash_k(tuple(sc['point']), n1, m1)
        else:
            k = W.line_k(sc['line_info'], n1, m1)
        cnt = sc['counters']
        durable = True
        if sc.get('open_file'):
            durable = (sc['disk_size'] == cnt['bytes'])
    return f"SAVE mode={c['mode']} n={n1} m={m1} kind=crash k={k} lose={0 if durable else 1}", k, durable


def real_obs(rec):
    load = rec['load']
    if load.startswith('ran:') and not rec['cached']:
        load = 'fails'     # not cached: the task is simply executed (the model's load of an absent entry)
    return f"cached={int(rec['cached'])} load={load} listed={rec['listed']} raised=0"


def poisoned(rec):
    if not rec['cached']:
        return False
    good = ['ok:new:new'] + (['ok:old:old'] if rec['case']['mode'] == 'over' else [])
    return rec['load'] not in good


def evaluate(recs, dry_of):
    import driver
    lines, metas = [], []
    for rec in recs:
        c = rec['case']
        ml, k, durable = model_of(rec, dry_of[(c['kind'], c['idx'], c['mode'])])
        rec['k'], rec['durable'], rec['model_line'] = k, durable, ml
        lines.append(ml)
    outs = driver.run_lines(lines) if lines else []
    violations, disagreements = [], []
    for rec, mo in zip(recs, outs):
        c = rec['case']
        rec['model'] = mo
        rec['real'] = real_obs(rec)
        model_safe = mo.endswith('safe=1')
        soft = c.get('sig') in ('int', 'exit')
        mo_cmp = ' '.join(w for w in mo.split() if not w.startswith('safe='))
        if soft:
            mo_cmp = mo_cmp.replace('raised=1', 'raised=0')
        if rec['real'] != mo_cmp:
            disagreements.append(dict(case=c, k=rec['k'], real=rec['real'], model=mo_cmp, line=rec['model_line'],
                                      files=rec.get('files'), sidecar=rec['sidecar']))
        rep = dict(kind='save-crash', case=c, k=rec['k'], durable=rec['durable'], real=rec['real'], model=mo,
                   files=rec.get('files'))
        if 'WRONG' in rec['load']:
            how = f" on the '{c['obs']}' backend with a Lab context" if c.get('obs') else ''
            violations.append(dict(what=f'after a kill during a save a later run_tasks{how} returned or newly cached a WRONG value instead of failing (' + rec['load'] + ')',
                                   replay=rep))
        elif poisoned(rec) and soft:
            violations.append(dict(what=f"a {'Ctrl-C (SIGINT -> KeyboardInterrupt)' if c['sig'] == 'int' else 'SystemExit'} landing mid-save (micro-step {rec['k']}) in the process executing the task left an entry that is reported cached and {'fails to load' if rec['load'] == 'fails' else 'loads ' + rec['load']}: {rec['real']}",
                                   replay=rep))
        elif poisoned(rec):
            if not model_safe:
                what = ('first save' if c['mode'] == 'first' else 'overwrite') + \
                    f": a kill inside the known window leaves an entry that is_cached reports and that {'fails to load' if rec['load'] == 'fails' else 'loads ' + rec['load']}"
                violations.append(dict(what=what, replay=rep, known_match=KNOWN[c['mode']]))
            else:
                violations.append(dict(what=f"a kill at a point the model proves safe (k={rec['k']}, durable={rec['durable']}) left a poisoned entry: {rec['real']}",
                                       replay=rep))
        elif rec['load'].startswith('ran:') and c['idx'] < 10 and rec['load'] != 'ran:new':
            violations.append(dict(what='after a kill during a save a later run_tasks returned a wrong value: ' + rec['load'], replay=rep))
    return violations, disagreements


# ------------------------------------------------------------------ enumeration
def enumerate_cases(tier, dry_of):
    import savetasks as T
    idxs = [0, 2] if tier == 'quick' else sorted(T.GOOD)
    cases = []
    c = 0
    for kind in ('pickle', 'json'):
        for mode in ('first', 'over'):
            for idx in idxs:
                dry = dry_of[(kind, idx, mode)]
                n1, m1 = dry['n1'], dry['m1']
                pts = []
                for fidx, cnt in ((0, n1), (1, m1)):
                    pts += [('fh_enter', fidx), ('fh_exit', fidx)]
                    if tier == 'quick' and cnt > 8:
                        wi = sorted({0, 1, cnt // 2, cnt - 2, cnt - 1})
                    else:
                        wi = list(range(cnt))
                    for i in wi:
                        pts += [('write_pre', fidx, i), ('write_split', fidx, i)]
                    pts += [('write_post', fidx, cnt - 1), ('close_pre', fidx), ('close_post', fidx)]
                for p in pts:
                    for flush in (0, 1):
                        c += 1
                        cases.append(dict(kind=kind, idx=idx, mode=mode, inj=list(p), flush=flush,
                                          sig='term' if c % 4 == 0 else 'kill'))
                step = 1 if (tier == 'thorough' or idx == 0) else 3
                for e in range(0, dry['lines'], step):
                    c += 1
                    cases.append(dict(kind=kind, idx=idx, mode=mode, inj=['line', e], flush=0,
                                      sig='term' if c % 4 == 0 else 'kill'))
                # soft kills: SIGINT / SystemExit at the storage-operation points and at executed lines
                for p in pts:
                    c += 1
                    if tier == 'thorough' or idx == 0 or c % 3 == 0:
                        cases.append(dict(kind=kind, idx=idx, mode=mode, inj=list(p), flush=0,
                                          sig='int' if c % 2 == 0 else 'exit'))
                for e in range(0, dry['lines'], 1 if tier == 'thorough' else (2 if idx == 0 else 5)):
                    c += 1
                    cases.append(dict(kind=kind, idx=idx, mode=mode, inj=['line', e], flush=0,
                                      sig='int' if c % 2 == 0 else 'exit'))
                # a kill after the save (the task completed): trigger that never fires
                cases.append(dict(kind=kind, idx=idx, mode=mode, inj=['line', 10 ** 6], flush=0, sig='kill'))
    # context-dependent task, later run on the spawn / fork backend: a handful of hard-kill points
    # before, inside and after the windows
    c = 0
    for mode in ('first', 'over'):
        for idx in ([0] if tier == 'quick' else [0, 2]):
            dry = dry_of[('ctx', idx, mode)]
            n1, m1 = dry['n1'], dry['m1']
            pts = [('fh_enter', 0), ('fh_exit', 0), ('write_pre', 0, n1 // 2), ('close_post', 0), ('fh_exit', 1),
                   ('write_split', 1, 0), ('close_pre', 1), ('close_post', 1)]
            for p in pts:
                for obs in (('spawn', 'fork') if (tier == 'thorough' or p[0] in ('close_post', 'fh_exit', 'write_split')) else ('spawn',)):
                    c += 1
                    cases.append(dict(kind='ctx', idx=idx, mode=mode, inj=list(p), flush=1, sig='kill', obs=obs))
    return cases


def explore(cases, dry_of, workers, timeout):
    root = tempfile.mkdtemp(prefix='verif-c13-')
    try:
        chunks = [cases[i::workers] for i in range(workers)]
        chunks = [ch for ch in chunks if ch]
        outs, errors = run_phase('--worker', [dict(cases=ch, root=root) for ch in chunks], timeout)
        outs2, errors2 = run_phase('--verify', [dict(records=o) for o in outs if o], timeout)
        recs = [r for o in outs2 for r in o]
        return recs, errors + errors2
    finally:
        shutil.rmtree(root, ignore_errors=True)


def run(ctx):
    from props import c12
    tier = ctx['tier']
    t0 = time.time()
    if ctx.get('replay'):
        rp = json.load(open(ctx['replay']))
        case = (rp.get('replay') or {}).get('case')
        if case is None:
            return dict(infra_error='replay file holds no save-crash case')
        dry_of = c12.dry_runs(kinds=('pickle', 'json', 'ctx'))
        recs, errors = explore([case], dry_of, 1, 120)
        if errors or any(r.get('infra') for r in recs):
            return dict(infra_error='; '.join(errors + [r['infra'] for r in recs if r.get('infra')]))
        viol, dis = evaluate(recs, dry_of)
        return dict(evaluations=1, distinct_nontrivial=1, rule='replay of one recorded kill point',
                    samples=[recs[0].get('real')], violations=viol, disagreements=dis)
    if not ctx['driver_ok']:
        return dict(evaluations=0, disagreements=[dict(diff='driver does not build')], violations=[])
    dry_of = c12.dry_runs(kinds=('pickle', 'json', 'ctx'))
    cases = enumerate_cases(tier, dry_of)
    recs, errors = explore(cases, dry_of, 14, 50 if tier == 'quick' else 700)
    infra = [r for r in recs if r.get('infra')]
    if errors or infra:
        return dict(infra_error='; '.join(errors + [r['infra'] for r in infra[:2]]))
    viol, dis = evaluate(recs, dry_of)
    unknown = [v for v in viol if not v.get('known_match')]
    if (dis or not ctx['proof_ok']) and not unknown:
        # enlarged search: every write boundary and every line of every corpus result
        cases2 = enumerate_cases('thorough', dry_of)
        seen = {json.dumps(c, sort_keys=True) for c in cases}
        cases2 = [c for c in cases2 if json.dumps(c, sort_keys=True) not in seen]
        recs2, errors2 = explore(cases2, dry_of, 16, 900)
        recs2 = [r for r in recs2 if not r.get('infra')]
        v2, _ = evaluate(recs2, dry_of)
        viol += v2
        recs += recs2
    # report order: unknown violations first; one representative per known window
    unknown = sorted([v for v in viol if not v.get('known_match')],
                     key=lambda v: (v['replay']['case']['idx'], v['replay']['case']['kind'] != 'pickle',
                                    v['replay']['case']['mode'] != 'first', v['replay']['k']))
    known = []
    for m in KNOWN.values():
        hits = [v for v in viol if v.get('known_match') == m]
        if hits:
            hits.sort(key=lambda v: (v['replay']['case']['idx'], v['replay']['k']))
            known.append(dict(hits[0], what=hits[0]['what'] + f' ({len(hits)} kill points of this window reproduced it)'))
    in_window = [r for r in recs if not r['model'].endswith('safe=1')]
    dist = dict(
        kill_points=len(recs), really_killed=sum(1 for r in recs if r['killed']),
        by_mode={k: sum(1 for r in recs if r['case']['mode'] == k) for k in ('first', 'over')},
        by_kind={k: sum(1 for r in recs if r['case']['kind'] == k) for k in ('pickle', 'json', 'ctx')},
        later_run_backend={k: sum(1 for r in recs if r['case'].get('obs') == k) for k in ('spawn', 'fork')},
        by_point={k: sum(1 for r in recs if r['case']['inj'][0] == k)
                  for k in ('fh_enter', 'fh_exit', 'write_pre', 'write_split', 'write_post', 'close_pre', 'close_post', 'line')},
        by_signal={k: sum(1 for r in recs if r['case']['sig'] == k) for k in ('kill', 'term', 'int', 'exit')},
        soft_kills_poisoned=sum(1 for r in recs if r['case']['sig'] in ('int', 'exit') and poisoned(r)),
        buffer={'flushed_before_kill': sum(1 for r in recs if r['case']['flush']),
                'dropped(native buffering)': sum(1 for r in recs if not r['case']['flush']),
                'measured_not_durable': sum(1 for r in recs if not r['durable'])},
        model_says_poisoned=len(in_window), model_says_safe=len(recs) - len(in_window),
        real_poisoned=sum(1 for r in recs if poisoned(r)),
        real_poisoned_by_window={m: sum(1 for v in viol if v.get('known_match') == m) for m in KNOWN.values()},
        outcome_classes={}, wall_s=round(time.time() - t0, 1),
    )
    for r in recs:
        dist['outcome_classes'][r['real']] = dist['outcome_classes'].get(r['real'], 0) + 1
    return dict(
        evaluations=len(recs), distinct_nontrivial=len({json.dumps(r['case'], sort_keys=True) for r in in_window}),
        rule='enumerated kill points (storage-operation boundary / write-call boundary / mid-write split x buffer flushed or dropped; every executed line of cache.py+storage.py inside the save) x result x cache format x first/overwrite; non-trivial = the kill point lies inside a window that crash_safe_iff proves poisoned',
        samples=[dict(case=r['case'], k=r['k'], durable=r['durable'], real=r['real'], model=r['model'], files=r.get('files'))
                 for r in (in_window[:2] + recs[:1])],
        violations=unknown[:10] + known, disagreements=dis[:10], distribution=dist,
        assumptions=['SIGKILL / SIGTERM of the saving process; the OS page cache survives (no power loss): what was written to the file descriptor is on disk',
                     'serial runner in a forked child (run_or_load_task and the save path are the same code in the process runners)',
                     'LocalStorage; a strict prefix of a stored document never parses as a complete document'],
        explanation='a forked child runs the real Lab.run_tasks -> BaseCache.save -> LocalStorage and kills itself at the enumerated point; fresh interpreters then call is_cached / cached_tasks / run_tasks; outcome class compared per kill point with the Lean crash model, whose theorem crash_safe_iff characterises exactly the safe points; poisoned outcomes inside the two proved windows are the recorded known findings F13a/F13b, anything else poisoned or wrong is a violation',
    )


if __name__ == '__main__':
    if len(sys.argv) == 4 and sys.argv[1] == '--worker':
        worker_main(sys.argv[2], sys.argv[3])
    elif len(sys.argv) == 4 and sys.argv[1] == '--verify':
        verify_main(sys.argv[2], sys.argv[3])
