"""Two further case families for C06 (called from props/c06.py).

(C) CONFUSABLE TASKS — within ONE process: construct and run task A; only then construct task B whose
parameter is ==-equal to A's in Python but of another type (1 / True / 1.0, 0 / False / 0.0; at top
level, inside a tuple, a dict, a nested collection, a nested task); run() returns a string that
reveals the types. Monitor (the property: "a load never returns a result that was stored for a
different task", "is_cached reports [what executed]"): is_cached(B) is False before B ran; running B
calls run() and returns B's own value; afterwards every task of the sequence is cached and loads its
own value — in the same process (fresh objects, fresh Lab) and from a FRESH interpreter (other
PYTHONHASHSEED, objects constructed in the reverse order).

(S) TASK CLASSES IN THE `__main__` SCRIPT — a generated script that defines its task classes itself is
executed as a subprocess (spawn backend: the workers see the classes under `__mp_main__`), then
executed again in a fresh interpreter with another backend (serial / fork) and another
PYTHONHASHSEED; and the reverse order (fork or serial first, spawn second). The second invocation
must find every task cached, execute nothing, return equal values and the recorded result_meta.

(M) ONE LAB, MANY STEPS, REAL WORKERS — histories on one Lab / one storage object: run -> cache hit /
cached_tasks -> bust_cache re-run in a real fork or spawn worker (sometimes with a task that raises in
that run only, chosen through the Lab context) -> hit / cached_tasks again … After EVERY step the
storage directory is snapshotted and a fresh interpreter reads each snapshot: every value and
result_meta (start, duration) the Lab handed out in that step must equal what is on disk at that
moment, and the whole history must agree with the plain-map reference (a failed re-execution leaves
the stored result cached) and with the Lean `HIST` model.

(RT) ROUND TRIPS THROUGH cached_tasks (props/c08x.py, `rt_*`): run -> cached_tasks -> is_cached / cache_key of every listed
task -> run_tasks(listed) / uncache_tasks(listed), over dict parameters with unsorted keys, both cache kinds.

All are compared with the Lean `HIST` model on the level of which tasks execute / load / are cached.

ATTRIBUTION. Every violation carries `props`: the properties whose STATEMENT the observed behaviour violates -
  * run_tasks returned a value that is not the task's own value (e.g. the one stored for a different task):  C01, C06
  * run() was called again although the result was stored / a cached task was re-executed:                   C03, C06
  * is_cached true for a task that never ran, false for one that ran; listed but not is_cached; uncache that
    removes nothing; an entry added by a cache hit (the Lab is not a plain task -> result map):                C08 (+ C06 for is_cached)
  * result_meta other than the recorded one:                                                                 C06
`run_for(ctx, pid, families)` runs the families for another property's check (C01, C03, C08) and keeps the violations
labelled with that property; C06 itself reports the ones labelled C06."""
import json
import logging
import os
import shutil
import signal
import subprocess
import sys
import tempfile
import time

HERE = os.path.dirname(os.path.dirname(os.path.abspath(__file__)))
if HERE not in sys.path:
    sys.path.insert(0, HERE)


def _env(hashseed):
    return dict(os.environ, PYTHONPATH=HERE + os.pathsep + os.environ.get('VERIF_REPO', '/repo'),
                PYTHONHASHSEED=str(hashseed))


def _spawn(argv, logpath, hashseed, extra_env=None):
    lf = open(logpath, 'w')
    env = _env(hashseed)
    env.update(extra_env or {})
    return subprocess.Popen(argv, stdout=lf, stderr=lf, stdin=subprocess.DEVNULL, start_new_session=True, env=env), lf


def _wait_all(procs, timeout):
    errors = []
    deadline = time.time() + timeout
    for p, lf in procs:
        try:
            p.wait(timeout=max(0.1, deadline - time.time()))
        except subprocess.TimeoutExpired:
            errors.append('subprocess timeout')
        try:
            os.killpg(p.pid, signal.SIGKILL)
        except (ProcessLookupError, PermissionError):
            pass
        p.wait()
        lf.close()
    return errors


# =================================================================== (C) confusable tasks
def gen_sequences(rng, tier):
    import conftasks as C
    seqs = []
    reps = 1 if tier == 'quick' else 6
    for _ in range(reps):
        for group in C.GROUPS:
            for shape in C.SHAPES:
                order = list(range(len(C.GROUPS[group])))
                rng.shuffle(order)
                seqs.append(dict(group=group, shape=shape, order=order, kind=rng.choice('po'),
                                 backend=rng.choice(['serial', 'serial', 'fork'])))
    return seqs


def _read_log(path, pos):
    if not os.path.exists(path):
        return [], 0
    with open(path) as f:
        f.seek(pos)
        data = f.read()
    return [l.split(' ', 2) for l in data.splitlines()], pos + len(data.encode())


def conf_first(spec_path, out_path):
    """one process: run A, then construct B, ... ; then re-check all with fresh objects"""
    import labtech
    import conftasks as C
    labtech.logger.setLevel(logging.CRITICAL)
    spec = json.load(open(spec_path))
    out = []
    for seq in spec['seqs']:
        try:
            d = tempfile.mkdtemp(prefix='cf-', dir=spec['root'])
            log = os.path.join(d, 'exec.log')
            os.environ['VERIF_HIST_LOG'] = log
            sd = os.path.join(d, 'store')
            vals = [C.GROUPS[seq['group']][i] for i in seq['order']]
            steps, pos, keys = [], 0, []
            kw = dict(disable_progress=True, disable_top=True)
            for v in vals:
                lab = labtech.Lab(storage=sd, runner_backend=seq['backend'], max_workers=2)
                t = C.build(seq['shape'], v, seq['kind'])      # constructed only now
                keys.append(t.cache_key)
                cached_before = bool(lab.is_cached(t))
                try:
                    r = lab.run_tasks([t], **kw)
                    got = r.get(t, 'MISSING')
                except BaseException as e:
                    got = 'raised ' + type(e).__name__
                lines, pos = _read_log(log, pos)
                top = type(t).__name__
                steps.append(dict(v=C.label(v), cached_before=cached_before, got=got, want=C.expected(seq['shape'], v),
                                  executed=[l[2] for l in lines if l[0] == 'X'],
                                  cached_after=bool(lab.is_cached(t))))
            # same process, fresh objects and a fresh Lab: everything loads its own value
            again = []
            for v in vals:
                lab = labtech.Lab(storage=sd, runner_backend='serial')
                t = C.build(seq['shape'], v, seq['kind'])
                c = bool(lab.is_cached(t))
                try:
                    got = lab.run_tasks([t], **kw).get(t, 'MISSING')
                except BaseException as e:
                    got = 'raised ' + type(e).__name__
                lines, pos = _read_log(log, pos)
                again.append(dict(v=C.label(v), cached=c, got=got, want=C.expected(seq['shape'], v),
                                  executed=[l[2] for l in lines if l[0] == 'X']))
            out.append(dict(seq=seq, dir=d, steps=steps, again=again, distinct_keys=len(set(keys))))
        except BaseException:
            import traceback
            out.append(dict(seq=seq, infra=traceback.format_exc()[-800:]))
    json.dump(out, open(out_path, 'w'), default=str)


def conf_second(spec_path, out_path):
    """fresh interpreter: objects constructed in the reverse order"""
    import labtech
    import conftasks as C
    labtech.logger.setLevel(logging.CRITICAL)
    spec = json.load(open(spec_path))
    out = []
    for rec in spec['records']:
        if rec.get('infra'):
            out.append(rec)
            continue
        try:
            seq = rec['seq']
            log = os.path.join(rec['dir'], 'exec2.log')
            os.environ['VERIF_HIST_LOG'] = log
            vals = [C.GROUPS[seq['group']][i] for i in reversed(seq['order'])]
            fresh, pos = [], 0
            for v in vals:
                lab = labtech.Lab(storage=os.path.join(rec['dir'], 'store'), runner_backend='serial')
                t = C.build(seq['shape'], v, seq['kind'])
                c = bool(lab.is_cached(t))
                try:
                    got = lab.run_tasks([t], disable_progress=True, disable_top=True).get(t, 'MISSING')
                except BaseException as e:
                    got = 'raised ' + type(e).__name__
                lines, pos = _read_log(log, pos)
                fresh.append(dict(v=C.label(v), cached=c, got=got, want=C.expected(seq['shape'], v),
                                  executed=[l[2] for l in lines if l[0] == 'X']))
            out.append(dict(rec, fresh=fresh))
        except BaseException:
            import traceback
            out.append(dict(seq=rec['seq'], infra=traceback.format_exc()[-800:]))
    json.dump(out, open(out_path, 'w'), default=str)


CONF_KIND = {'nested-enum': 'members of same-named enum classes nested in different holder classes',
             'module-enum': 'members of same-qualname enum classes of two modules',
             'task-module': 'same-qualname task classes of two modules, equal parameter values'}


def conf_monitor(rec):
    """[(what, [properties whose statement it violates])]"""
    out = []
    seq = rec['seq']
    tag = f"confusable tasks ({seq['group']}/{seq['shape']}, cache {'Pickle' if seq['kind'] == 'p' else 'second BaseCache'}, {seq['backend']})"
    if seq['group'] in CONF_KIND:
        tag = tag[:-1] + '; ' + CONF_KIND[seq['group']] + ')'
    other = 'other' if seq['group'] in CONF_KIND else '==-equal'
    for i, s in enumerate(rec['steps']):
        ran = ', '.join(o['v'] for o in rec['steps'][:i])
        if s['cached_before']:
            out.append((f"{tag}: task with parameter {s['v']} is reported cached before it ever ran (only the {other} task(s) with {ran} had run)", ['C06', 'C08']))
        if s['got'] != s['want']:
            out.append((f"{tag}: run_tasks returned {s['got']!r} for the task with parameter {s['v']}; its own value is {s['want']!r}" +
                        (' (that is the result stored for a different task)' if any(s['got'] == o['want'] for o in rec['steps'] if o is not s) else ''), ['C01', 'C06']))
        elif not s['cached_before'] and s['want'] not in s['executed']:
            out.append((f"{tag}: the task with parameter {s['v']} was not executed although it was not cached", ['C06']))
        if not s['cached_after']:
            out.append((f"{tag}: the task with parameter {s['v']} executed successfully but is_cached is false", ['C06', 'C08']))
    for where, rows in (('same process', rec['again']), ('fresh interpreter', rec.get('fresh', []))):
        for s in rows:
            if not s['cached']:
                out.append((f"{tag}: {where}: the task with parameter {s['v']} is not reported cached after its successful run", ['C06', 'C08']))
            if s['got'] != s['want']:
                out.append((f"{tag}: {where}: a load for the task with parameter {s['v']} returned {s['got']!r}, stored for a different task; its own value is {s['want']!r}", ['C01', 'C06']))
            if s['executed']:
                out.append((f"{tag}: {where}: run() was called again for {s['executed']} although the result was stored", ['C03', 'C06']))
    return out


def conf_model_line(n=3):
    # n distinct independent tasks of one caching type: run each after checking is_cached, then
    # check + run each again
    ops = []
    for t in range(n):
        ops += [f'I:{t}', f'R0:{t + 1}:{t}', f'I:{t}']
    for t in range(n):
        ops += [f'I:{t}', f'R0:{t + n + 1}:{t}']
    return f"HIST ns=0 ty={','.join('0' * n)} ca=p deps={';' * (n - 1)} fl={','.join('0' * n)} np= ops=" + '/'.join(ops)


def conf_pattern_real(rec):
    """[is_cached before, executed?, is_cached after] per step, then [cached, executed?] per re-check"""
    p = []
    for s in rec['steps']:
        p += [f"bool {int(s['cached_before'])}", f"exec {int(s['want'] in s['executed'])}", f"bool {int(s['cached_after'])}"]
    for s in rec['again']:
        p += [f"bool {int(s['cached'])}", f"exec {int(bool(s['executed']))}"]
    return p


def conf_pattern_model(mo):
    p = []
    for seg in mo.split(' | '):
        seg = seg.rsplit(' K=', 1)[0]
        if seg.startswith('ran'):
            ex = seg.split(' exec=')[1].split(' ')[0]
            p.append(f'exec {int(bool(ex))}')
        else:
            p.append(seg)
    return p


# =================================================================== (S) task classes in __main__
SCRIPT = r'''
"""generated by the C06 check: task classes live in the executed script (__main__)"""
import json
import os
import sys

import labtech


def mark(line):
    fd = os.open(os.environ['VERIF_SCRIPT_LOG'], os.O_WRONLY | os.O_APPEND | os.O_CREAT)
    try:
        os.write(fd, (line + '\n').encode())
    finally:
        os.close(fd)


@labtech.task
class Square:
    base: int

    def run(self):
        mark(f'X Square {self.base}')
        return self.base ** 2


@labtech.task
class Total:
    squares: list
    offset: int

    def run(self):
        mark(f'X Total {self.offset}')
        return self.offset + sum(s.result for s in self.squares)


def main():
    backend, storage, out = sys.argv[1], sys.argv[2], sys.argv[3]
    import logging
    labtech.logger.setLevel(logging.CRITICAL)
    squares = [Square(base=b) for b in (1, 2, 3)]
    totals = [Total(squares=squares, offset=o) for o in (0, 100)]
    everything = squares + totals
    lab = labtech.Lab(storage=storage, runner_backend=backend, max_workers=2)
    cached_before = [bool(lab.is_cached(t)) for t in everything]
    try:
        res = lab.run_tasks(totals + squares, disable_progress=True, disable_top=True)
        err = None
    except BaseException as e:
        res, err = {}, type(e).__name__
    names = ['Square 1', 'Square 2', 'Square 3', 'Total 0', 'Total 100']
    metas = {}
    for n, t in zip(names, everything):
        m = t.result_meta
        metas[n] = None if m is None else [m.start.isoformat(), m.duration.total_seconds()]
    json.dump(dict(cached_before=dict(zip(names, cached_before)),
                   cached_after=dict(zip(names, [bool(lab.is_cached(t)) for t in everything])),
                   values={n: res.get(t, 'MISSING') for n, t in zip(names, everything)}, metas=metas, err=err,
                   module=Square.__module__), open(out, 'w'))


if __name__ == '__main__':
    main()
'''
NAMES = ['Square 1', 'Square 2', 'Square 3', 'Total 0', 'Total 100']
WANT = {'Square 1': 1, 'Square 2': 4, 'Square 3': 9, 'Total 0': 14, 'Total 100': 114}


def script_scenarios(tier):
    sc = [('spawn', 'serial'), ('spawn', 'fork'), ('fork', 'spawn'), ('serial', 'spawn')]
    if tier == 'thorough':
        sc += [('spawn', 'spawn'), ('fork', 'serial'), ('serial', 'fork')]
    return sc


def run_scripts(scenarios, timeout=50):
    root = tempfile.mkdtemp(prefix='verif-c06s-')
    try:
        recs = []
        for i, (b1, b2) in enumerate(scenarios):
            d = os.path.join(root, f's{i}')
            os.makedirs(d)
            script = os.path.join(d, 'experiment.py')
            open(script, 'w').write(SCRIPT)
            recs.append(dict(scenario=[b1, b2], dir=d, script=script))
        errors = []
        for phase, which in ((1, 0), (2, 1)):
            procs = []
            for i, r in enumerate(recs):
                out = os.path.join(r['dir'], f'out{phase}.json')
                procs.append(_spawn([sys.executable, r['script'], r['scenario'][which], os.path.join(r['dir'], 'store'), out],
                                    os.path.join(r['dir'], f'log{phase}.txt'), 31 * phase + i,
                                    dict(VERIF_SCRIPT_LOG=os.path.join(r['dir'], f'exec{phase}.log'))))
            errors += _wait_all(procs, timeout)
            for r in recs:
                out = os.path.join(r['dir'], f'out{phase}.json')
                if os.path.exists(out):
                    r[f'run{phase}'] = json.load(open(out))
                    lp = os.path.join(r['dir'], f'exec{phase}.log')
                    r[f'exec{phase}'] = sorted(l[2:] for l in open(lp).read().splitlines()) if os.path.exists(lp) else []
                else:
                    r['infra'] = f'script run {phase} produced no output: ' + open(os.path.join(r['dir'], f'log{phase}.txt')).read()[-500:]
        return recs, errors
    finally:
        shutil.rmtree(root, ignore_errors=True)


def script_monitor(r):
    """[(what, [properties whose statement it violates])]"""
    out = []
    b1, b2 = r['scenario']
    tag = f"task classes defined in the __main__ script, first run '{b1}', second run (fresh interpreter) '{b2}'"
    r1, r2 = r['run1'], r['run2']
    ok1 = [n for n in NAMES if r1['values'].get(n) == WANT[n]]
    if len(ok1) < len(NAMES):
        # the first run itself must work for the scenario to say anything
        out.append((f"{tag}: the first run did not return the tasks' values: {r1['values']} err={r1['err']}", ['C01', 'C06']))
        return out
    for n in NAMES:
        if not r1['cached_after'].get(n):
            out.append((f'{tag}: {n} executed successfully but is_cached is false in the same process', ['C06', 'C08']))
        if not r2['cached_before'].get(n):
            out.append((f'{tag}: {n} executed successfully in the first run but is_cached is false in a fresh process', ['C06', 'C08']))
        if r2['values'].get(n) != WANT[n]:
            out.append((f"{tag}: the second run returned {r2['values'].get(n)!r} for {n}; the first run stored {WANT[n]}", ['C01', 'C06']))
    if r['exec2']:
        out.append((f"{tag}: the second run called run() again for {r['exec2']} although the first run stored every result "
                    "(a task whose result is already cached is loaded instead of executed)", ['C03', 'C06']))
    for n in ('Total 0', 'Total 100'):
        if r2['metas'].get(n) != r1['metas'].get(n) and r2['values'].get(n) == WANT[n] and not r['exec2']:
            out.append((f"{tag}: result_meta of {n} after the load {r2['metas'].get(n)} differs from the recorded {r1['metas'].get(n)}", ['C06']))
    return out


SCRIPT_MODEL = 'HIST ns=0 ty=0,0,0,1,1 ca=p,p deps=;;;0,1,2;0,1,2 fl=0,0,0,0,0 np= ops=R0:1:3,4,0,1,2/I:0/I:1/I:2/I:3/I:4/R0:2:3,4,0,1,2'


def script_pattern_real(r):
    idx = {n: i for i, n in enumerate(NAMES)}
    e1 = ','.join(str(i) for i in sorted(idx[n] for n in r['exec1']))
    e2 = ','.join(str(i) for i in sorted(idx[n] for n in r['exec2']))
    ret2 = ','.join(str(idx[n]) for n in ('Total 0', 'Total 100', 'Square 1', 'Square 2', 'Square 3')
                    if r['run2']['values'].get(n) != 'MISSING')
    return [f'exec={e1}'] + [f"bool {int(bool(r['run2']['cached_before'].get(n)))}" for n in NAMES] + [f'exec={e2} ret={ret2}']


def script_pattern_model(mo):
    segs = [s.rsplit(' K=', 1)[0] for s in mo.split(' | ')]
    first = 'exec=' + segs[0].split(' exec=')[1].split(' ')[0]
    last = 'exec=' + segs[-1].split(' exec=')[1].split(' ')[0] + ' ret=' + \
        ','.join(p.split(':')[0] for p in segs[-1].split('ret=')[1].split(' ')[0].split(',') if p)
    return [first] + segs[1:-1] + [last]



# =================================================================== (M) one Lab, many steps, real workers
def gen_mixed(rng, tier):
    """same-Lab histories: run -> hit / cached_tasks (anything the process may memoise is now populated)
    -> bust_cache re-run in a real fork (or spawn) WORKER, possibly with tasks failing in that run ->
    hit / cached_tasks again -> ..."""
    cases = []
    n_cases = 24 if tier == 'quick' else 300
    for i in range(n_cases):
        n = 5
        ty = [rng.randrange(3) for _ in range(n)]
        deps = []
        for t in range(n):
            deps.append(sorted(rng.sample(range(t), min(t, rng.choice([0, 1, 1, 2])))) if t else [])
        req = rng.sample(range(n), rng.choice([1, 2, 2, 3]))
        worker = 'spawn' if i % 12 == 5 else 'fork'
        ops, g = [], 0

        def run(bust, backend, fail=()):
            nonlocal g
            g += 1
            return ['R', int(bust), g, list(req), sorted(fail), backend]
        clo, todo = set(), list(req)
        while todo:
            t = todo.pop()
            if t not in clo:
                clo.add(t)
                todo += deps[t]
        clo = sorted(clo)
        ops.append(run(False, rng.choice(['serial', 'fork'])))
        ops.append(rng.choice([['C', [0, 1, 2]], run(False, 'serial')]))
        ops.append(['C', [0, 1, 2]])
        for _ in range(2 if tier == 'quick' else 3):
            fail = rng.sample(clo, 1) if rng.random() < 0.5 else []
            ops.append(run(True, worker if rng.random() < 0.85 else 'serial', fail))
            ops.append(run(False, rng.choice(['serial', 'serial', 'fork'])))
            ops.append(['C', [0, 1, 2]])
            if rng.random() < 0.3:
                ops.append(['U', rng.sample(clo, 1)])
        cases.append(dict(ty=ty, ca=['p', 'o', 'p'], deps=deps, fl=[0] * n, ops=ops, storage='local', backend='serial'))
    return cases


def mix_first(spec_path, out_path):
    from props import c08
    spec = json.load(open(spec_path))
    out = []
    for case in spec['seqs']:
        try:
            snap = tempfile.mkdtemp(prefix='mx-', dir=spec['root'])
            real = c08.run_real(case, snap_root=snap)
            out.append(dict(case=case, snap=snap, real=[c08.show(o) for o in real],
                            seen=[o['seen'] for o in real], loaded=[o.get('loaded', {}) for o in real],
                            ref=[c08.show(o) for o in c08.reference(case)]))
        except BaseException:
            import traceback
            out.append(dict(case=case, infra=traceback.format_exc()[-800:]))
    json.dump(out, open(out_path, 'w'), default=str)


def mix_second(spec_path, out_path):
    """fresh interpreter: what is on disk after every step"""
    import labtech
    import histtasks as H
    from labtech.storage import LocalStorage
    from props import c08
    labtech.logger.setLevel(logging.CRITICAL)
    spec = json.load(open(spec_path))
    out = []
    for rec in spec['records']:
        if rec.get('infra'):
            out.append(rec)
            continue
        try:
            H.configure(rec['case']['ca'])
            fresh = []
            for step in range(len(rec['case']['ops'])):
                st = LocalStorage(os.path.join(rec['snap'], f'step{step}'))
                lab = labtech.Lab(storage=st, runner_backend='serial')
                disk = {}
                for x in lab.cached_tasks(H.TYPES):
                    try:
                        tr = x._lt.cache.load_result_with_meta(st, x)
                        disk[x.k] = dict(listed=c08.iso_meta(x.result_meta), meta=c08.iso_meta(tr.meta), value=tr.value)
                    except BaseException as e:
                        disk[x.k] = dict(listed=c08.iso_meta(x.result_meta), meta='raised ' + type(e).__name__, value=None)
                fresh.append(disk)
            out.append(dict(rec, fresh=fresh))
        except BaseException:
            import traceback
            out.append(dict(case=rec['case'], infra=traceback.format_exc()[-800:]))
    json.dump(out, open(out_path, 'w'), default=str)


def mix_monitor(rec):
    """[(what, [properties whose statement it violates])]"""
    out = []
    ops = rec['case']['ops']
    for i, (real, ref) in enumerate(zip(rec['real'], rec['ref'])):
        op = ops[i]
        if real != ref:
            prev_ok = f'{op}'
            kind = 'run_tasks' if op[0] == 'R' else {'C': 'cached_tasks', 'U': 'uncache_tasks', 'I': 'is_cached'}[op[0]]
            out.append((f"one Lab, step {i} {op}: {kind} gave '{real}' but the results stored by the earlier successful executions dictate '{ref}' "
                       "(a stored result must stay cached and be returned, with its recorded start/duration, until it is replaced by a successful execution)", ['C06', 'C08']))
            break
        disk = rec['fresh'][i]
        for k, m in rec['seen'][i].items():
            d = disk.get(int(k)) if int(k) in disk else disk.get(str(k))
            if d is None:
                continue    # cache=None type / failed execution: nothing on disk to compare with
            if d['meta'] != m or d['listed'] != m:
                out.append((f"one Lab, step {i} {op}: task {k} was handed out with result_meta {m}, but a fresh interpreter reads {d['meta']} (cached_tasks: {d['listed']}) from the entry on disk at that moment", ['C06']))
                return out
        for k, v in rec['loaded'][i].items():
            d = disk.get(int(k)) if int(k) in disk else disk.get(str(k))
            if d is not None and d['value'] != v[0]:
                out.append((f"one Lab, step {i} {op}: load of task {k} returned {v[0]} but the entry on disk holds {d['value']}", ['C01', 'C06']))
                return out
    return out

# =================================================================== entry points
def run_conf(seqs, workers, timeout, flags=('--conf1', '--conf2'), script=None):
    """two phases of worker processes (the second ones are fresh interpreters that get the first ones' records);
    flags[1] None: one phase only"""
    root = tempfile.mkdtemp(prefix='verif-c06c-')
    try:
        chunks = [ch for ch in (seqs[i::workers] for i in range(workers)) if ch]
        outs = []
        errors = []
        for phase, flag in ((1, flags[0]), (2, flags[1])):
            if flag is None:
                continue
            procs, files = [], []
            for i, ch in enumerate(chunks):
                sp, op = os.path.join(root, f'spec{phase}_{i}.json'), os.path.join(root, f'out{phase}_{i}.json')
                payload = dict(seqs=ch, root=root) if phase == 1 else dict(records=outs[i])
                json.dump(payload, open(sp, 'w'))
                procs.append(_spawn([sys.executable, script or os.path.abspath(__file__), flag, sp, op],
                                    os.path.join(root, f'log{phase}_{i}.txt'), 500 * phase + i))
                files.append(op)
            errors += _wait_all(procs, timeout)
            new = []
            for i, op in enumerate(files):
                if os.path.exists(op):
                    new.append(json.load(open(op)))
                else:
                    new.append([])
                    errors.append('history worker produced no output: ' + open(os.path.join(root, f'log{phase}_{i}.txt')).read()[-400:])
            outs = new
        return [r for o in outs for r in o], errors
    finally:
        shutil.rmtree(root, ignore_errors=True)


FAMILIES = ('confusable', 'script', 'one-lab', 'round-trip')
KINDS = FAMILIES      # the replay kinds this module re-runs (`run_extra(only=replay)`)


def run_extra(rng, tier, only=None, families=FAMILIES, pid='C06'):
    """returns dict(violations, disagreements, evaluations, nontrivial, dist, errors, samples); every violation
    carries `props`, the properties whose statement it violates (see the module docstring); `pid`: the property whose check
    this is (its alarms get the shrinking budget)"""
    import driver
    import threading
    from props import c08x
    t0 = time.time()
    violations, disagreements, errors = [], [], []
    if only is not None:
        families = (only.get('kind'),)
    seqs = [] if 'confusable' not in families else (gen_sequences(rng, tier) if only is None else [only['seq']])
    scen = [] if 'script' not in families else (script_scenarios(tier) if only is None else [tuple(only['scenario'])])
    mixed = [] if 'one-lab' not in families else (gen_mixed(rng, tier) if only is None else [only['case']])
    rts = [] if 'round-trip' not in families else (c08x.rt_gen(rng, tier) if only is None else [only['case']])
    box = {}
    th = threading.Thread(target=lambda: box.update(zip(('recs', 'errors'), run_scripts(scen))) if scen else box.update(recs=[], errors=[]))
    th.start()
    rbox = {}
    rth = threading.Thread(target=lambda: rbox.update(zip(('recs', 'errors'), run_conf(
        rts, 4, 50 if tier == 'quick' else 600, flags=('--rt', None), script=os.path.abspath(c08x.__file__)) if rts else ([], []))))
    rth.start()
    crecs, e = run_conf(seqs, 4, 50 if tier == 'quick' else 600) if seqs else ([], [])
    errors += e
    mrecs, e = run_conf(mixed, 8, 55 if tier == 'quick' else 800, flags=('--mix1', '--mix2')) if mixed else ([], [])
    errors += e
    th.join()
    rth.join()
    srecs = box.get('recs', [])
    errors += box.get('errors', [])
    rrecs = rbox.get('recs', [])
    errors += rbox.get('errors', []) + ([] if 'recs' in rbox else ['round-trip family did not finish'])
    errors += [r['infra'] for r in crecs + srecs + mrecs + rrecs if r.get('infra')]
    mrecs = [r for r in mrecs if not r.get('infra')]
    if mrecs:
        from props import c08
        mouts = driver.run_lines([c08.encode(r['case']) for r in mrecs])
        for r, mo in zip(mrecs, mouts):
            model = mo.split(' | ')
            if model != r['real']:
                i = next((j for j, (a, b) in enumerate(zip(r['real'], model)) if a != b), 0)
                disagreements.append(dict(family='one-lab', case=r['case'], step=i, real=r['real'][i:i + 1], model=model[i:i + 1]))
            for what, props in mix_monitor(r):
                violations.append(dict(what=what, props=props, replay=dict(kind='one-lab', case=r['case'], real=r['real'], reference=r['ref'])))
    crecs = [r for r in crecs if not r.get('infra')]
    srecs = [r for r in srecs if not r.get('infra')]
    rrecs = [r for r in rrecs if not r.get('infra')]
    sizes = sorted({len(r['steps']) for r in crecs})
    lines = [conf_model_line(n) for n in sizes] + ([SCRIPT_MODEL] if srecs else []) + [c08x.rt_model_line(r) for r in rrecs]
    outs = driver.run_lines(lines) if lines else []
    if crecs:
        pms = {n: conf_pattern_model(outs[i]) for i, n in enumerate(sizes)}
        for r in crecs:
            pr, pm = conf_pattern_real(r), pms[len(r['steps'])]
            if pr != pm:
                disagreements.append(dict(family='confusable', seq=r['seq'], real=pr, model=pm, line=lines[sizes.index(len(r['steps']))]))
            for what, props in conf_monitor(r):
                violations.append(dict(what=what, props=props, replay=dict(kind='confusable', seq=r['seq'], steps=r['steps'],
                                                                           again=r['again'], fresh=r.get('fresh'))))
    if srecs:
        pm = script_pattern_model(outs[len(sizes)])
        for r in srecs:
            pr = script_pattern_real(r)
            if pr != pm:
                disagreements.append(dict(family='script', scenario=r['scenario'], real=pr, model=pm, line=SCRIPT_MODEL))
            for what, props in script_monitor(r):
                violations.append(dict(what=what, props=props, replay=dict(kind='script', scenario=r['scenario'],
                                                                           run1=r.get('run1'), run2=r.get('run2'),
                                                                           exec1=r.get('exec1'), exec2=r.get('exec2'))))
    for r, mo, ml in zip(rrecs, outs[len(outs) - len(rrecs):], lines[len(lines) - len(rrecs):]):
        pr, pm = c08x.rt_pattern_real(r), c08x.rt_pattern_model(mo)
        if pr != pm:
            i = next((j for j, (a, b) in enumerate(zip(pr, pm)) if a != b), min(len(pr), len(pm)))
            disagreements.append(dict(family='round-trip', case=r['case'], step=i, real=pr[i:i + 1], model=pm[i:i + 1], line=ml))
        for what, props in c08x.rt_monitor(r):
            violations.append(dict(what=what, props=props, replay=dict(kind='round-trip', case=r['case'], listed=r.get('listed'),
                                                                       exec2=r.get('exec2'), keys=[r.get('keys1'), r.get('keys2'), r.get('keys3')])))
    if only is None:
        # a small failing input for the first alarm of every kind (at most 4 kinds): shrink by re-running the real code
        def run_cases(cases):
            return run_conf(cases, 6, 60, flags=('--rt', None), script=os.path.abspath(c08x.__file__))[0]
        first = {}
        for v in violations:
            if v['replay']['kind'] == 'round-trip' and pid in v['props']:
                first.setdefault(c08x.rt_kind(v['what']), v)
        deadline = time.time() + (12 if tier == 'quick' else 120)
        for kind, v in list(first.items())[:3]:
            small = c08x.rt_shrink(v['replay']['case'], kind, run_cases, deadline=deadline)
            if small != v['replay']['case']:
                rec = next((r for r in run_cases([small]) if not r.get('infra')), None)
                w = next((w for w, _ in (c08x.rt_monitor(rec) if rec else []) if c08x.rt_kind(w) == kind), None)
                if w:
                    v['what'] = w
                    v['replay'] = dict(kind='round-trip', case=small, listed=rec.get('listed'), exec2=rec.get('exec2'),
                                       keys=[rec.get('keys1'), rec.get('keys2'), rec.get('keys3')])
        # the shrunk ones first
        violations.sort(key=lambda v: 0 if any(v is f for f in first.values()) else 1)
    dist = dict(one_lab_histories=len(mrecs),
                one_lab_steps=sum(len(r['case']['ops']) for r in mrecs),
                one_lab_worker_runs={b: sum(1 for r in mrecs for op in r['case']['ops'] if op[0] == 'R' and op[5] == b) for b in ('serial', 'fork', 'spawn')},
                one_lab_bust_runs_with_failing_task=sum(1 for r in mrecs for op in r['case']['ops'] if op[0] == 'R' and op[1] and op[4]),
                one_lab_snapshots_read_by_fresh_interpreter=sum(len(r.get('fresh', [])) for r in mrecs),
                confusable_sequences=len(crecs),
                confusable_by_group={g: sum(1 for r in crecs if r['seq']['group'] == g) for g in sorted({r['seq']['group'] for r in crecs})},
                confusable_by_shape={s: sum(1 for r in crecs if r['seq']['shape'] == s) for s in ('top', 'tuple', 'dict', 'deep', 'task')},
                confusable_distinct_keys=sorted({r['distinct_keys'] for r in crecs}),
                script_scenarios=['->'.join(r['scenario']) for r in srecs],
                script_worker_module=sorted({r['run1'].get('module') for r in srecs if r.get('run1')}),
                round_trip_histories=len(rrecs),
                round_trip_tasks=sum(r['n'] for r in rrecs),
                round_trip_unsorted_dict_parameters=sum(r['unsorted_dicts'] for r in rrecs),
                round_trip_listed_tasks=sum(len(r['listed']) for r in rrecs if isinstance(r.get('listed'), list)),
                round_trip_modes={m: sum(1 for r in rrecs if r['case']['mode'] == m) for m in ('run', 'uncache')},
                round_trip_first_run_backend={b: sum(1 for r in rrecs if r['case']['backend'] == b) for b in ('serial', 'fork')},
                families=list(families),
                extra_wall_s=round(time.time() - t0, 1))
    samples = [dict(seq=r['seq'], steps=[(s['v'], s['got']) for s in r['steps']]) for r in crecs[:1]] + \
              [dict(scenario=r['scenario'], exec1=r['exec1'], exec2=r['exec2']) for r in srecs[:1]] + \
              [dict(round_trip=r['case'], listed=[(x['k'], x['key']) for x in r['listed']][:4]) for r in rrecs[:1] if isinstance(r.get('listed'), list)]
    n_eval = len(crecs) + len(srecs) + len(mrecs) + len(rrecs)
    return dict(violations=violations, disagreements=disagreements, evaluations=n_eval,
                nontrivial=n_eval, dist=dist, errors=errors, samples=samples)


def labelled(violations, pid):
    """the violations whose `props` name the property `pid`"""
    return [v for v in violations if pid in v.get('props', ())]


def run_for(ctx, pid, families, salt):
    """the families above, run for the check of property `pid` (C01, C03, C08): returns the `run_extra` dict with the
    violations restricted to those that violate `pid`'s statement. With ctx['replay'] of one of this module's kinds:
    that case only."""
    import random
    rng = random.Random(ctx['seed'] * 1000003 + salt)
    only = None
    if ctx.get('replay'):
        only = json.load(open(ctx['replay'])).get('replay') or {}
    x = run_extra(rng, ctx['tier'], only=only, families=families, pid=pid)
    x['all_violations'] = len(x['violations'])
    x['violations'] = labelled(x['violations'], pid)
    return x


def run_for_thread(ctx, pid, families, salt, box):
    """thread target: box['x'] = run_for(...) (or the traceback as an infrastructure error)"""
    try:
        box['x'] = run_for(ctx, pid, families, salt)
    except BaseException:
        import traceback
        box['x'] = dict(errors=['history families raised: ' + traceback.format_exc()[-800:]])


def replay_kind(ctx):
    if not ctx.get('replay'):
        return None
    try:
        return (json.load(open(ctx['replay'])).get('replay') or {}).get('kind')
    except Exception:
        return None


def replay_result(x):
    """result dict of a check for the replay of one case of these families"""
    if x['errors']:
        return dict(infra_error='; '.join(x['errors']))
    return dict(evaluations=x['evaluations'], distinct_nontrivial=x['nontrivial'], rule='replay of one recorded history',
                samples=x['samples'], violations=x['violations'], disagreements=[])


def merge_into(res, x, note):
    """merge the labelled result `x` of `run_for` into the result dict `res` of another property's own check (the
    model disagreements of these families belong to the C06 / C08 correspondence and are only counted here)"""
    if res.get('infra_error'):
        return res
    if x.get('errors'):
        return dict(infra_error='; '.join(x['errors']))
    res['evaluations'] = res.get('evaluations', 0) + x['evaluations']
    res['distinct_nontrivial'] = res.get('distinct_nontrivial', 0) + x['nontrivial']
    res['violations'] = list(res.get('violations', [])) + x['violations']
    res['samples'] = list(res.get('samples', []))[:2] + x['samples'][:2]
    res['distribution'] = dict(res.get('distribution', {}), history_families=dict(
        x['dist'], violations_of_any_property=x['all_violations'], model_disagreements=len(x['disagreements'])))
    res['rule'] = res.get('rule', '') + '; + ' + note
    return res


if __name__ == '__main__':
    if len(sys.argv) == 4 and sys.argv[1] == '--conf1':
        conf_first(sys.argv[2], sys.argv[3])
    elif len(sys.argv) == 4 and sys.argv[1] == '--conf2':
        conf_second(sys.argv[2], sys.argv[3])
    elif len(sys.argv) == 4 and sys.argv[1] == '--mix1':
        mix_first(sys.argv[2], sys.argv[3])
    elif len(sys.argv) == 4 and sys.argv[1] == '--mix2':
        mix_second(sys.argv[2], sys.argv[3])
