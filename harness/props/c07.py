"""C07 — cache keys are deterministic and distinguish every distinct task.

Correspondence: real `cache_key` vs prefix + qualname + '__' + sha1(pre-image printed by the Lean model),
in this process, after pickling, after `cached_tasks` reconstruction (real PickleCache / LocalStorage), and
in two freshly started interpreters with different PYTHONHASHSEED; plus normal form and dependencies.
Monitors (model-independent): within every batch, tasks that differ (Python `!=`, or type-exactly) never
share a key and tasks built the same way (also respelled list/tuple, dict/frozendict) always do; every
key is accepted by `LocalStorage.exists`.
Task types include one with a non-ASCII identifier (ptasks.Étude, also in ptasks2) and one whose cache format has a KEY_PREFIX
with a hyphen, a space and a non-ASCII letter (ptasks.Archive / DashCache): their keys go through the same monitors
(accepted by LocalStorage, listed and rebuilt exactly once by cached_tasks).
Instances of scalar subclasses (Celsius(float), str / int subclasses, numpy.float64 / numpy.str_) and str-subclass dict keys
((str, Enum) / StrEnum members, ...) are generated at every depth.  The Lean model is given their base scalar / plain str
(json.dumps writes them so), so "key == key of the plain value" is part of the correspondence; monitor-only for them:
determinism (second build, pickling, fresh interpreters), acceptance by LocalStorage, reconstruction as the base value, and
no key shared with a task that differs in more than the subclass."""
import collections
import json
import pickle
import random
import shutil
import tempfile
import time

import paramgen as pg
import paramrun as pr

RULE = ('distinct generated constructor calls (root task of 13 types incl. same-named types of two modules, the '
        'prefix pair Exp/Experiment, a type with a non-ASCII identifier and a cache format whose KEY_PREFIX has a hyphen, a space and a non-ASCII letter; enum members of 15 classes incl. same-named classes of two modules and classes nested in '
        'holder classes - dotted qualified names, same __name__ in two holders) whose parameter tree has depth >= 2 and '
        'contains a nested task pair, an enum member or a list/dict to normalise')


def witness_pairs():
    """the recorded collision (known finding F07), on this check's own task types"""
    return [
        ('task', ['task', 'ptasks', 'Exp', [['p', ['dict', [[['k', '_is_task'], ['bool', True]], [['k', '__class__'], ['str', 'ptasks.Leaf']], [['k', 'x'], ['int', 1]]]]]]],
         ['task', 'ptasks', 'Exp', [['p', ['task', 'ptasks', 'Leaf', [['x', ['int', 1]]]]]]]),
        ('enum', ['task', 'ptasks', 'Exp', [['p', ['dict', [[['k', '_is_enum'], ['bool', True]], [['k', '__class__'], ['str', 'ptasks.Color']], [['k', 'name'], ['str', 'RED']]]]]]],
         ['task', 'ptasks', 'Exp', [['p', ['enum', 'ptasks', 'Color', 'RED']]]]),
        # known finding F07c: the str of two surrogate code points and the astral character they spell
        ('surrogates', ['task', 'ptasks', 'Exp', [['p', ['strcp', [0xD800, 0xDC00]]]]],
         ['task', 'ptasks', 'Exp', [['p', ['strcp', [0x10000]]]]]),
        ('surrogates_nested', ['task', 'ptasks', 'Exp', [['p', ['dict', [[['k', 'name'], ['strcp', [0x61, 0xD83D, 0xDE00]]]]]]]],
         ['task', 'ptasks', 'Exp', [['p', ['dict', [[['k', 'name'], ['strcp', [0x61, 0x1F600]]]]]]]]),
    ]


def collision_violation(sa, sb, ta, tb, why):
    known = pr.flagged_dict_inside(ta) or pr.flagged_dict_inside(tb)
    v = dict(what=f'two different tasks share the cache key {ta.cache_key} ({why})',
             replay=dict(kind='pair', a=sa, b=sb))
    if known:
        v['known_match'] = pr.KNOWN_F07
        v['what'] = 'dict parameter with a truthy _is_task/_is_enum key: ' + v['what']
    elif sa != sb and pg.fold_surrogates(sa) == pg.fold_surrogates(sb):
        v['known_match'] = pr.KNOWN_F07C
        v['what'] = 'str parameter that spells an astral character as two surrogate code points: ' + v['what']
    return v


def float_token_tie(rnd, n):
    """real json.dumps(float) tokens vs the model's float-token grammar; returns (disagreements, count)"""
    import struct
    import driver
    toks = set(pg.EDGE_FLOATS) | {'NaN'}
    while len(toks) < n:
        k = rnd.random()
        try:
            if k < 0.5:
                x = struct.unpack('<d', struct.pack('<Q', rnd.getrandbits(64)))[0]       # any bit pattern
            elif k < 0.8:
                x = rnd.uniform(-1e6, 1e6) * 10.0 ** rnd.randrange(-320, 303)
            else:
                x = float(rnd.randrange(-10 ** 17, 10 ** 17))                            # integral floats: '1e+16', '123.0'
            toks.add(json.dumps(x))
        except (OverflowError, ValueError):
            continue
    toks = sorted(toks)
    bad = ['', '0', '-1', '15', '1,2', '1.', '.5', '1e5', '1E+5', 'nan', 'inf', '-inf', 'Infinity ', '+1.0', '1.0e', '1.5e+', '--1.0',
           'true', 'null', '"1.5"', '1.5]', '1 .5', '0x1p3'] + [str(rnd.randrange(-10 ** 12, 10 ** 12)) for _ in range(50)]
    out = driver.run_lines(['FTOK ' + t.encode().hex() for t in toks + bad])
    dis = []
    for t, o in zip(toks, out[:len(toks)]):
        if o != 'ok 1':
            dis.append(dict(spec=['float', t], diff=f'json.dumps prints the float token {t!r}, which the model grammar wfFloatTok rejects ({o}): dumps_injective would not cover it'))
    for t, o in zip(bad, out[len(toks):]):
        # (the empty token cannot be sent over the line protocol: bad-op)
        if o == 'ok 1':
            dis.append(dict(spec=['float', t], diff=f'the model grammar wfFloatTok accepts {t!r}, which json.dumps never prints for a float'))
    return dis[:5], len(toks) + len(bad)


def check_batch(specs, reals, viol, dist):
    """pairwise monitor over one batch of accepted constructor calls"""
    by_key = collections.defaultdict(list)
    by_nf = collections.defaultdict(list)
    for i, r in enumerate(reals):
        if r['status'] == 'ok':
            by_key[(type(r['task']).__module__ if r['key'] == 'null' else '', r['key'])].append(i)
            by_nf[pg.strip_marks(r['nf'])].append(i)   # (a scalar-subclass instance counts as the plain value it is == to)
    for (_, key), idx in by_key.items():
        if key == 'null' or len(idx) < 2:
            continue
        first = idx[0]
        for j in idx[1:]:
            ta, tb = reals[first]['task'], reals[j]['task']
            # differing only in dict key order is not "different" for the property (Python-equal, same types)
            if ta != tb or pg.strip_marks(pg.show(ta, canon=True)) != pg.strip_marks(pg.show(tb, canon=True)):
                dist['collisions'] += 1
                viol.append(collision_violation(specs[first], specs[j], ta, tb,
                                                'python-unequal' if ta != tb else 'differ in the type of a value'))
    for nf, idx in by_nf.items():
        keys = {reals[i]['key'] for i in idx}
        if len(keys) > 1:
            viol.append(dict(what='tasks built the same way got different cache keys: ' + ', '.join(sorted(keys)),
                             replay=dict(kind='pair', a=specs[idx[0]], b=specs[idx[1]])))
        if len(idx) > 1:
            dist['same_value_pairs'] += len(idx) - 1


def check_pair(sa, sb):
    """replay of one pair: returns violations"""
    viol = []
    dist = collections.Counter()
    ra, rb = pr.observe(sa), pr.observe(sb)
    check_batch([sa, sb], [ra, rb], viol, dist)
    return viol


def single_tree_alarms(spec, real, storage):
    """monitors on one accepted constructor call"""
    try:
        return _single_tree_alarms(spec, real, storage)
    except Exception as e:
        return [f'pickling / rebuilding the task raised {type(e).__name__}: {e}'[:200]]


def _single_tree_alarms(spec, real, storage):
    out = []
    t = real['task']
    if real['key'] != 'null':
        try:
            storage.exists(real['key'])
        except Exception as e:
            out.append(f'LocalStorage.exists rejects the key {real["key"]!r}: {type(e).__name__}')
    # lowest and highest protocol (the lowest is 3 for a class with a non-ASCII name: CPython limit, see pr.usable_protos)
    for proto in (pr.usable_protos(spec, range(pickle.HIGHEST_PROTOCOL))[0], pickle.HIGHEST_PROTOCOL):
        u = pickle.loads(pickle.dumps(t, protocol=proto))
        if u.cache_key != t.cache_key:
            out.append(f'cache_key changed by pickling (protocol {proto})')
    again = pg.build(spec)
    if again.cache_key != t.cache_key:
        out.append('building the same constructor call twice gave two cache keys')
    return out


def reconstruction_keys(specs, reals, viol, disagreements, dist):
    """save a sample through the real caches, reconstruct with cached_tasks, compare keys"""
    import labtech
    from labtech.types import ResultMeta, TaskResult
    from datetime import datetime, timedelta
    d = tempfile.mkdtemp(prefix='verif-c07-')
    try:
        lab = labtech.Lab(storage=d)
        saved = {}
        for s, r in zip(specs, reals):
            if r['status'] != 'ok' or r['key'] == 'null' or pr.flagged_dict_inside(r['task']):
                continue
            t = r['task']
            type(t)._lt.cache.save(lab._storage, t, TaskResult(value=1, meta=ResultMeta(start=datetime(2024, 1, 1), duration=timedelta(seconds=1))))
            saved[t.cache_key] = (s, r)
        types = [pg.cls_of(m, q) for (m, q) in sorted(pg.TASK_TYPES)]
        back = lab.cached_tasks(types)
        dist['reconstructed'] += len(back)
        seen = collections.Counter()
        for u in back:
            seen[u.cache_key] += 1
            if u.cache_key not in saved:
                viol.append(dict(what=f'cached_tasks rebuilt a task with a key {u.cache_key} under which nothing was saved',
                                 replay=dict(kind='tree', spec=None)))
                continue
            s, r = saved[u.cache_key]
            if pg.show(u) != pg.strip_marks(r['nf']) or not (u == r['task'] and hash(u) == hash(r['task'])):
                viol.append(dict(what='task reconstructed from cache metadata differs from the saved one (same key)',
                                 replay=dict(kind='tree', spec=s)))
        for k, (s, r) in saved.items():
            if seen[k] != 1:
                viol.append(dict(what=f'saved task came back {seen[k]} times from cached_tasks (its key is {k})',
                                 replay=dict(kind='tree', spec=s)))
    finally:
        shutil.rmtree(d, ignore_errors=True)


# =================================================================== task classes in the `__main__` script
SCRIPT = r'''"""generated by the C07 check: task and enum classes live in the executed script (__main__); a spawned
process knows the same classes under `__mp_main__`"""
import json
import multiprocessing
import os
import sys
from dataclasses import fields
from enum import Enum

import labtech
from labtech.types import is_task
from labtech.tasks import get_direct_dependency_instances


class Mode(Enum):
    A = 1
    B = 2


@labtech.task
class Sq:
    n: int

    def run(self):
        return self.n * self.n


@labtech.task
class Outer:
    parts: list
    mode: Mode
    extra: dict

    def run(self):
        return len(self.parts)


def closure(t, out):
    out.append(t)
    for d in get_direct_dependency_instances(t):
        closure(d, out)
    return out


def label(t):
    return repr(t)


def report(tasks, path):
    """runs in the spawned child: the cache_key ATTRIBUTE each received task object carries"""
    rows = []
    for t in tasks:
        for x in closure(t, []):
            rows.append([label(x), getattr(x, 'cache_key', None), type(x).__module__])
    with open(path, 'w') as f:
        json.dump(rows, f)


def main():
    import logging
    labtech.logger.setLevel(logging.CRITICAL)
    workdir, out = sys.argv[1], sys.argv[2]
    tasks = [Sq(n=3), Outer(parts=[Sq(n=1), Sq(n=2)], mode=Mode.B, extra={'k': Sq(n=5), 'm': [Mode.A]})]
    parent = [[label(x), x.cache_key, type(x).__module__] for t in tasks for x in closure(t, [])]
    res = dict(parent=parent)
    child_path = os.path.join(workdir, 'child.json')
    p = multiprocessing.get_context('spawn').Process(target=report, args=(tasks, child_path))
    p.start()
    p.join(40)
    if p.is_alive():
        p.kill()
    res['child'] = json.load(open(child_path)) if os.path.exists(child_path) else None
    store = os.path.join(workdir, 'store')
    lab = labtech.Lab(storage=store, runner_backend='spawn', max_workers=2)
    results = lab.run_tasks(tasks, disable_progress=True, disable_top=True)
    res['results'] = [results.get(t) for t in tasks]
    res['stored_keys'] = sorted(n for n in os.listdir(store) if os.path.isdir(os.path.join(store, n)))
    res['is_cached'] = [[label(x), bool(lab.is_cached(x))] for t in tasks for x in closure(t, [])]
    with open(out, 'w') as f:
        json.dump(res, f)
    sys.stdout.flush()
    os._exit(0)


if __name__ == '__main__':
    main()
'''


def start_script(hashseed):
    import subprocess
    import sys
    import os
    d = tempfile.mkdtemp(prefix='verif-c07s-')
    script = os.path.join(d, 'experiment.py')
    open(script, 'w').write(SCRIPT)
    lf = open(os.path.join(d, 'log.txt'), 'w')
    env = dict(os.environ, PYTHONPATH=pr.HERE + os.pathsep + os.environ.get('VERIF_REPO', '/repo'), PYTHONHASHSEED=str(hashseed))
    p = subprocess.Popen([sys.executable, script, d, os.path.join(d, 'out.json')], stdout=lf, stderr=lf, stdin=subprocess.DEVNULL,
                         start_new_session=True, env=env, cwd=d)
    return dict(dir=d, p=p, lf=lf, hashseed=hashseed)


def finish_script(h, timeout=90):
    """returns (violations, infra_error)"""
    import os
    import signal
    import subprocess
    p = h['p']
    try:
        p.wait(timeout=timeout)
    except subprocess.TimeoutExpired:
        pass
    try:
        os.killpg(p.pid, signal.SIGKILL)
    except (ProcessLookupError, PermissionError):
        pass
    p.wait()
    h['lf'].close()
    try:
        outp = os.path.join(h['dir'], 'out.json')
        if not os.path.exists(outp):
            return [], 'C07 script scenario produced no output: ' + open(os.path.join(h['dir'], 'log.txt')).read()[-600:]
        res = json.load(open(outp))
    finally:
        shutil.rmtree(h['dir'], ignore_errors=True)
    viol = []
    rp = dict(kind='script', hashseed=h['hashseed'])
    tag = 'task classes defined in the __main__ script: '
    if res['child'] is None:
        viol.append(dict(what=tag + 'the spawned child could not receive the pickled tasks', replay=rp))
    else:
        for (lab_p, key_p, mod_p), (lab_c, key_c, mod_c) in zip(res['parent'], res['child']):
            if key_c != key_p:
                viol.append(dict(what=tag + f'{lab_p} has cache_key {key_p} in the parent but the pickled copy in a spawned process '
                                              f'(class seen as {mod_c}) carries {key_c}', replay=rp))
    want = sorted({k for _, k, _ in res['parent']})
    if res['stored_keys'] != want:
        viol.append(dict(what=tag + f"a spawn-backend run stored its results under {res['stored_keys']}, the parent's keys are {want}", replay=rp))
    for lab_x, ok in res['is_cached']:
        if not ok:
            viol.append(dict(what=tag + f'{lab_x} was just run (spawn backend) but is not cached under its key', replay=rp))
    if res['results'] != [9, 2]:
        viol.append(dict(what=tag + f"spawn-backend run returned {res['results']}", replay=rp))
    return viol, None


def run_tree(spec):
    """replay of one constructor call"""
    from labtech.storage import LocalStorage
    viol, dis = [], []
    d = tempfile.mkdtemp(prefix='verif-c07-')
    try:
        real = pr.observe(spec)
        m = pr.parse_model(pr.model_lines([spec])[0])
        for diff in pr.compare(spec, real, m):
            dis.append(dict(spec=spec, diff=diff))
        if real['status'] == 'ok':
            for a in single_tree_alarms(spec, real, LocalStorage(d)):
                viol.append(dict(what=a, replay=dict(kind='tree', spec=spec)))
            # reconstruction from cache metadata, in a store of its own
            try:
                rv = []
                reconstruction_keys([spec], [real], rv, dis, collections.Counter())
                viol += [dict(v, replay=dict(kind='tree', spec=spec)) for v in rv]
            except Exception as e:
                viol.append(dict(what=f'saving / cached_tasks over generated tasks raised {type(e).__name__}: {e}'[:200], replay=dict(kind='tree', spec=spec)))
    finally:
        shutil.rmtree(d, ignore_errors=True)
    return viol, dis


def run(ctx):
    import repro
    from labtech.storage import LocalStorage
    pr.quiet()
    t0 = time.time()
    rnd = random.Random(ctx['seed'])
    viol, dis = [], []
    dist = collections.Counter()
    if ctx.get('replay'):
        rp = json.load(open(ctx['replay']))['replay']
        if rp.get('kind') == 'script':
            v, infra = finish_script(start_script(rp.get('hashseed', 0)))
            if infra:
                return dict(infra_error=infra)
            return dict(evaluations=1, distinct_nontrivial=0, rule=RULE, samples=[rp], violations=v, disagreements=[], distribution={},
                        assumptions=[], explanation='replay of the __main__ script scenario')
        if rp.get('kind') == 'pair':
            viol = check_pair(rp['a'], rp['b'])
            return dict(evaluations=2, distinct_nontrivial=0, rule=RULE, samples=[rp], violations=viol, disagreements=[], distribution={},
                        assumptions=[], explanation='replay of one pair')
        v, d = run_tree(rp['spec'])
        return dict(evaluations=1, distinct_nontrivial=0, rule=RULE, samples=[rp], violations=v, disagreements=d, distribution={},
                    assumptions=[], explanation='replay of one constructor call')

    # 0. the hypothesis of dumps_injective: every token the real json.dumps prints for a float satisfies the Lean
    #    grammar wfFloatTok (driver word FTOK), and texts that are not float tokens do not
    ft_dis, ft_n = float_token_tie(rnd, 4000 if ctx['tier'] == 'quick' else 200000)
    dis += ft_dis
    dist['float_tokens_checked_against_wfFloatTok'] = ft_n

    scripts = [start_script(hs) for hs in ([0] if ctx['tier'] == 'quick' else [0, 7, 12345])]

    # 1. corpus: D10 (the recorded collision) on the corpus types, and on this check's own types
    for rec in repro.run_many(['D10']):
        dist['corpus_D10_violated'] = int(bool(rec['violated']))
        if rec['violated'] is None:
            return dict(infra_error='repro D10: ' + str(rec['detail']))
        if rec['violated']:
            viol.append(dict(what='D10 reproduction: ' + str(rec['detail']), replay=dict(kind='corpus', id='D10'), known_match=pr.KNOWN_F07))
    for kind, sa, sb in witness_pairs():
        for v in check_pair(sa, sb):
            dist['witness_' + kind] += 1
            viol.append(v)

    # 2. generated constructor calls, in batches with planted neighbours
    n = 4000 if ctx["tier"] == "quick" else 60000
    depth = 4 if ctx['tier'] == 'quick' else 6
    enlarged = False
    storage_dir = tempfile.mkdtemp(prefix='verif-c07-')
    storage = LocalStorage(storage_dir)
    samples = []
    seen_nontrivial = set()
    evaluations = 0
    try:
        while True:
            specs, tags = [], []
            # mixin enum members next to their bare values and to same-valued members of other mixin enums
            for group in rnd.sample(pr.mixin_groups(), 12):
                for g in group:
                    specs.append(g); tags.append('mixin-group')
            # fixed constructor calls with numpy.float64 / numpy.str_ parameters (see paramgen.numpy_probes)
            for g in pg.numpy_probes():
                specs.append(g); tags.append('numpy-probe')
            while len(specs) < n:
                g = pg.Gen(rnd, max_depth=rnd.randrange(2, depth + 1), malformed=0.0)
                s = g.task(0)
                specs.append(s); tags.append('base')
                k = rnd.random()
                if k < 0.25:
                    specs.append(pr.respell(s, rnd)); tags.append('respelled')
                elif k < 0.75:
                    mu = pr.mutate(s, rnd)
                    if mu:
                        specs.append(mu[1]); tags.append('mut:' + mu[0])
            workers = [pr.start_worker(specs, hs) for hs in ('0', str(rnd.randrange(1, 2 ** 31)))]
            reals = [pr.observe(s) for s in specs]
            models = [pr.parse_model(l) for l in pr.model_lines(specs)]
            evaluations += len(specs)
            batch = 400
            for i, (s, r, m, tag) in enumerate(zip(specs, reals, models, tags)):
                dist['tag:' + tag.split(':')[0]] += 1
                if tag.startswith('mut:'):
                    dist[tag] += 1
                st = pg.spec_stats(s)
                dist['depth:%d' % st['depth']] += 1
                dist['nodes:%s' % ('1-5' if st['nodes'] <= 5 else '6-20' if st['nodes'] <= 20 else '21+')] += 1
                dist['root:%s.%s' % (s[1], s[2])] += 1
                if st['subs']:
                    dist['with_scalar_subclass_instance'] += 1
                if st['skeys']:
                    dist['with_str_subclass_dict_key'] += 1
                dist['status:' + r['status']] += 1
                for diff in pr.compare(s, r, m):
                    dis.append(dict(spec=s, diff=diff))
                if r['status'] != 'ok':
                    continue
                if r['pyeq_collapse']:
                    dist['deps_python_equal_but_type_distinct'] += 1
                if pr.nontrivial(s):
                    seen_nontrivial.add(r['nf'])
                # the pre-image is the JSON of the real serialised document, type-exactly
                doc = type(r['task'])._lt.cache.serializer.serialize_task(r['task']) if r['key'] != 'null' else None
                if doc is not None and not pg.json_exact(json.loads(m['pre']), json.loads(json.dumps(doc))):
                    dis.append(dict(spec=s, diff='json.loads(pre-image) differs type-exactly from the serialised document'))
                for a in single_tree_alarms(s, r, storage):
                    viol.append(dict(what=a, replay=dict(kind='tree', spec=s)))
                # planted neighbour right after its base
                if tag not in ('base', 'mixin-group', 'numpy-probe') and reals[i - 1]['status'] == 'ok':
                    b = reals[i - 1]
                    if tag == 'respelled':
                        try:
                            same = b['task'] == r['task'] and hash(b['task']) == hash(r['task']) and b['key'] == r['key']
                        except Exception:
                            same = False
                        if not same:
                            viol.append(dict(what='list/tuple or dict/frozendict respelling of the same parameters changed the task or its key',
                                             replay=dict(kind='pair', a=specs[i - 1], b=s)))
                    elif (b['key'] == r['key'] and b['key'] != 'null'
                          and (b['task'] != r['task'] or pg.strip_marks(pg.show(b['task'], canon=True)) != pg.strip_marks(pg.show(r['task'], canon=True)))):
                        viol.append(collision_violation(specs[i - 1], s, b['task'], r['task'], 'planted neighbour ' + tag))
                if len(samples) < 4 and pr.nontrivial(s):
                    samples.append(dict(call=pr.trim(s), key=r['key'], tag=tag))
            for lo in range(0, len(specs), batch):
                check_batch(specs[lo:lo + batch], reals[lo:lo + batch], viol, dist)
            # other interpreters, other hash seeds
            for w in workers:
                res = pr.finish_worker(w)
                for s, r, m, (st, nf, key, deps) in zip(specs, reals, models, res):
                    dist['fresh_interpreter_builds'] += 1
                    if st != r['status'] or nf != r.get('nf') or key != r.get('key'):
                        viol.append(dict(what=f'a freshly started interpreter computed a different task/key: {key} vs {r.get("key")}',
                                         replay=dict(kind='tree', spec=s)))
                    elif st == 'ok' and key != pr.model_key(s, m):
                        dis.append(dict(spec=s, diff='fresh interpreter key differs from the model'))
            # reconstruction from cache metadata
            sub = list(range(0, len(specs), max(1, len(specs) // (300 if ctx['tier'] == 'quick' else 3000))))
            try:
                reconstruction_keys([specs[i] for i in sub], [reals[i] for i in sub], viol, dis, dist)
            except Exception as e:
                # which constructor call is it? (each one alone in a store of its own)
                culprit = None
                for i in sub:
                    try:
                        reconstruction_keys([specs[i]], [reals[i]], [], [], collections.Counter())
                    except Exception:
                        culprit = specs[i]
                        break
                viol.append(dict(what=f'saving / cached_tasks over generated tasks raised {type(e).__name__}: {e}'[:200], replay=dict(kind='tree', spec=culprit)))
            unknown = [v for v in viol if not v.get('known_match')]
            if (not ctx['proof_ok'] or dis) and not unknown and not enlarged:
                enlarged = True
                n, depth = n * 3, depth + 1
                continue
            break
    finally:
        shutil.rmtree(storage_dir, ignore_errors=True)

    for h in scripts:
        v, infra = finish_script(h)
        if infra:
            return dict(infra_error=infra)
        dist['main_script_scenarios'] += 1
        viol += v

    # shrink the first new alarms
    done = set()
    for v in viol:
        if v.get('known_match') or v['what'][:40] in done or len(done) >= 3:
            continue
        done.add(v['what'][:40])
        rp = v['replay']
        if rp.get('kind') == 'pair':
            want = v['what'][:20]
            a, b = pr.shrink_pair(rp['a'], rp['b'], lambda x, y: any(w['what'][:20] == want and not w.get('known_match') for w in check_pair(x, y)))
            v['replay'] = dict(kind='pair', a=a, b=b)
        elif rp.get('kind') == 'tree' and rp.get('spec'):
            want = v['what'][:30]
            v['replay'] = dict(kind='tree', spec=pg.shrink(rp['spec'], lambda c: any(w['what'].startswith(want) for w in run_tree(c)[0])))
    viol.sort(key=lambda v: 0 if (not v.get('known_match') and v['what'][:40] in done) else 1)
    # shrink what was found on single constructor calls
    for rec in dis[:3]:
        def still(c, want=rec['diff'][:25]):
            r = pr.observe(c)
            m = pr.parse_model(pr.model_lines([c])[0])
            return any(d.startswith(want) for d in pr.compare(c, r, m))
        rec['spec'] = pg.shrink(rec['spec'], still)
    return dict(
        evaluations=evaluations, distinct_nontrivial=len(seen_nontrivial), rule=RULE, samples=samples,
        violations=viol, disagreements=dis[:50], distribution=dict(dist),
        assumptions=['NaN is not generated (a task holding NaN is not equal to itself)',
                     'strings are surrogate-free (lone surrogates cannot be UTF-8 encoded, json.dumps escapes them all the same)',
                     'Python-equal but type-distinct tasks (1/True/1.0, dict key order) are expected to get different keys: not flagged',
                     'sha1 is hashlib.sha1; json.dumps injectivity on serialised documents is trusted and supported by the type-exact json.loads round trip of every pre-image'],
        explanation=f'{evaluations} constructor calls in {time.time() - t0:.1f}s; each compared with the Lean model (accept/reject, normal form, dependencies, '
                    'key = prefix+qualname+__+sha1(model pre-image)) in-process and in 2 fresh interpreters with other hash seeds; pickled (protocols 0 and highest); '
                    'a sample saved and reconstructed through cached_tasks; pairwise key monitor over batches of 400 with planted neighbours '
                    '(one scalar type/value, enum member/class, module, prefix-named type, collection shape, dict key/order changed) and respellings.')
