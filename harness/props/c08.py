"""C08 — cache contents evolve exactly as run / bust_cache / uncache dictate.

Generated operation histories over run_tasks, run_tasks(bust_cache=True), uncache_tasks, is_cached,
cached_tasks on an 8-task universe with dependencies (harness/histtasks.py), x three storages
(LocalStorage, an FsspecStorage subclass over fsspec's LocalFileSystem as in the reference comment
of storage.py, storage=None) x three cache kinds per task type (PickleCache, a second BaseCache
subclass, cache=None). The real Lab is compared step by step with the Lean model (`HIST`, the
concrete side of `lab_refines_map`) and, independently, with a small Python dict reference (monitor:
the property itself — "the Lab behaves like a plain map from task to stored result").
"""
import json
import logging
import os
import random
import shutil
import signal
import subprocess
import sys
import tempfile
import time

HERE = os.path.dirname(os.path.dirname(os.path.abspath(__file__)))
if HERE not in sys.path:
    sys.path.insert(0, HERE)

STORAGES = ('local', 'fsspec', 'none', 'counted')


# ------------------------------------------------------------------ generation
def gen_case(rng, max_len, n=8):
    ty = [rng.randrange(3) for _ in range(n)]
    ca = [rng.choice('ppoon') for _ in range(3)]
    if all(c == 'n' for c in ca):
        ca[rng.randrange(3)] = 'p'
    deps = []
    for t in range(n):
        ds = []
        if t > 0 and rng.random() < 0.7:
            ds = sorted(rng.sample(range(t), min(t, rng.choice([1, 1, 2, 2, 3]))))
        deps.append(ds)
    fl = [int(rng.random() < 0.1) for _ in range(n)]
    ops = []
    g = 0
    mixed = rng.random() < 0.3      # histories that mix serial and real fork runs on the one Lab
    for _ in range(rng.randint(3, max_len)):
        r = rng.random()
        if r < 0.5 or not ops:
            g += 1
            req = rng.sample(range(n), rng.choice([1, 1, 2, 3]))
            bust = int(rng.random() < 0.25)
            # tasks that raise in THIS run only (Lab context): mostly from the request's closure
            fail = []
            if rng.random() < (0.5 if bust else 0.2):
                clo, todo = set(), list(req)
                while todo:
                    t = todo.pop()
                    if t not in clo:
                        clo.add(t)
                        todo += deps[t]
                pool = sorted(clo) if rng.random() < 0.8 else list(range(n))
                fail = sorted(rng.sample(pool, min(len(pool), rng.choice([1, 1, 2]))))
            ops.append(['R', bust, g, req, fail, 'fork' if (mixed and rng.random() < 0.3) else 'serial'])
        elif r < 0.65:
            ops.append(['U', rng.sample(range(n), rng.choice([1, 2, 3]))])
        elif r < 0.8:
            ops.append(['I', rng.randrange(n)])
        else:
            ops.append(['C', sorted(rng.sample(range(3), rng.choice([1, 2, 3])))])
    return dict(ty=ty, ca=ca, deps=deps, fl=fl, ops=ops, storage=rng.choice(STORAGES), backend='serial')


def encode(case):
    def lst(l):
        return ','.join(str(x) for x in l)
    ops = []
    for op in case['ops']:
        if op[0] == 'R':
            ops.append(f'R{op[1]}:{op[2]}:{lst(op[3])}' + (f':{lst(op[4])}' if len(op) > 4 else ''))
        elif op[0] == 'U':
            ops.append('U:' + lst(op[1]))
        elif op[0] == 'I':
            ops.append(f'I:{op[1]}')
        else:
            ops.append('C:' + lst(op[1]))
    import histtasks
    return (f"HIST ns={int(case['storage'] == 'none')} ty={lst(case['ty'])} ca={','.join(case['ca'])} "
            f"deps={';'.join(lst(d) for d in case['deps'])} fl={lst(case['fl'])} np={histtasks.NAME_PREFIX} "
            f"ops={'/'.join(ops)}")


# ------------------------------------------------------------------ the 20-line reference (monitor)
def reference(case):
    """plain dict semantics; independent of the Lean model"""
    persists = lambda t: case['storage'] != 'none' and case['ca'][case['ty'][t]] != 'n'
    store, out = {}, []
    for op in case['ops']:
        if op[0] == 'R':
            bust, g, req = op[1], op[2], op[3]
            fail = op[4] if len(op) > 4 else []
            mem, execd, loaded = {}, set(), {}

            def need(t):
                if t in mem:
                    return mem[t]
                if not bust and t in store:
                    mem[t] = store[t][0]
                    loaded[t] = store[t]
                    return mem[t]
                vals = [need(d) for d in case['deps'][t]]
                execd.add(t)
                mem[t] = None if (case['fl'][t] or t in fail or any(v is None for v in vals)) else 1000 * t + g + sum(vals)
                if mem[t] is not None and persists(t):
                    store[t] = (mem[t], g)
                return mem[t]
            for t in req:
                need(t)
            out.append(dict(kind='ran', ret={t: mem[t] for t in req if mem[t] is not None}, execd=sorted(execd),
                            loaded={t: list(v) for t, v in loaded.items()}))
        elif op[0] == 'U':
            for t in op[1]:
                store.pop(t, None)
            out.append(dict(kind='unit'))
        elif op[0] == 'I':
            out.append(dict(kind='bool', b=op[1] in store))
        else:
            out.append(dict(kind='tasks', ts=[f'{t}:{store[t][1]}' for t in sorted(store) if case['ty'][t] in op[1]]))
        out[-1]['keys'] = sorted(store)
    return out


# ------------------------------------------------------------------ the real Lab
def make_storage(kind, d):
    from labtech.storage import FsspecStorage, LocalStorage
    if kind == 'none':
        return None
    if kind == 'local':
        return LocalStorage(os.path.join(d, 'store'))
    if kind == 'counted':
        class CountedStorage(LocalStorage):
            """a user subclass of the provided LocalStorage with container manners: len() is the number of
            cached results, so a brand-new store is FALSY"""

            def __len__(self):
                return len(self.find_keys())
        return CountedStorage(os.path.join(d, 'store'))
    from pathlib import Path
    from fsspec.implementations.local import LocalFileSystem

    class LocalFsspecStorage(FsspecStorage):
        # the reference implementation at the end of labtech/storage.py
        def __init__(self, storage_dir, **kwargs):
            if isinstance(storage_dir, str):
                storage_dir = Path(storage_dir)
            super().__init__(storage_dir.resolve())

        def fs_constructor(self):
            return LocalFileSystem()
    return LocalFsspecStorage(os.path.join(d, 'store'))


def iso_meta(m):
    return None if m is None else [m.start.isoformat() if m.start else None,
                                   m.duration.total_seconds() if m.duration is not None else None]


def run_real(case, snap_root=None):
    """the whole history on ONE Lab object over ONE storage object (per run only the context and the
    runner backend of that Lab change). With snap_root: after every step the storage directory is
    copied there (step<i>/) and the result_meta seen in-process is recorded, for comparison with what
    a fresh interpreter reads from that snapshot (props/c06x.py)."""
    import labtech
    import histtasks as H
    from labtech.runners import ForkRunnerBackend, SerialRunnerBackend, SpawnRunnerBackend
    backends = {'serial': SerialRunnerBackend, 'fork': ForkRunnerBackend, 'spawn': SpawnRunnerBackend}
    labtech.logger.setLevel(logging.CRITICAL)
    d = tempfile.mkdtemp(prefix='verif-c08-')
    try:
        H.configure(case['ca'])
        objs = H.build(case)
        H.EXEC_LOG = os.path.join(d, 'exec.log')
        os.environ['VERIF_HIST_LOG'] = H.EXEC_LOG     # spawned workers
        storage = make_storage(case['storage'], d)
        lab = labtech.Lab(storage=storage, runner_backend='serial', max_workers=2, continue_on_failure=True)
        key_tid = {o.cache_key: o.k for o in objs}
        rec_meta = {}   # tid -> (g, start, duration) recorded when the task was executed
        out = []

        def keys_now(lab):
            ks = []
            for key in lab._storage.find_keys():
                if key in key_tid:
                    ks.append(key_tid[key])
                elif not key.startswith('.'):
                    ks.append('UNKNOWN:' + key)
            return sorted(ks, key=str)

        for step, op in enumerate(case['ops']):
            g = op[2] if op[0] == 'R' else 0
            seen = {}     # tid -> result_meta this step showed (loaded, executed or listed)
            if op[0] == 'R':
                lab.context = {'g': g, 'fail': list(op[4]) if len(op) > 4 else []}
                lab.runner_backend = backends[op[5] if len(op) > 5 else case.get('backend', 'serial')]()
                objs = H.build(case)   # fresh objects for every run (no result_meta carried over)
                pos = os.path.getsize(H.EXEC_LOG) if os.path.exists(H.EXEC_LOG) else 0
                try:
                    r = lab.run_tasks([objs[t] for t in op[3]], bust_cache=bool(op[1]), disable_progress=True, disable_top=True)
                    ret = {t.k: v for t, v in r.items()}
                    err = None
                except BaseException as e:
                    ret, err = {'raised': type(e).__name__}, type(e).__name__
                lines = []
                if os.path.exists(H.EXEC_LOG):
                    with open(H.EXEC_LOG) as f:
                        f.seek(pos)
                        lines = [l.split() for l in f.read().splitlines()]
                execd = sorted(int(l[1]) for l in lines if l[0] == 'X')
                loaded = {}
                for l in lines:
                    if l[0] == 'L':
                        k = int(l[1])
                        m = objs[k].result_meta
                        rm = rec_meta.get(k)
                        stamp = rm[0] if (rm and m is not None and m.start == rm[1] and m.duration == rm[2]) else 'X'
                        loaded[k] = [int(l[2]) if l[2].lstrip('-').isdigit() else l[2], stamp]
                        seen[k] = iso_meta(m)
                for k in execd:
                    m = objs[k].result_meta
                    if m is not None:
                        rec_meta[k] = (g, m.start, m.duration)
                        seen[k] = iso_meta(m)
                o = dict(kind='ran', ret=ret, execd=execd, loaded=loaded, err=err, dup_exec=len(execd) != len(set(execd)))
            elif op[0] == 'U':
                try:
                    lab.uncache_tasks([objs[t] for t in op[1]])
                    o = dict(kind='unit')
                except BaseException as e:
                    o = dict(kind='raised', err=type(e).__name__)
            elif op[0] == 'I':
                try:
                    o = dict(kind='bool', b=bool(lab.is_cached(objs[op[1]])))
                except BaseException as e:
                    o = dict(kind='raised', err=type(e).__name__)
            else:
                try:
                    ts = []
                    for x in sorted(lab.cached_tasks([H.TYPES[T] for T in op[1]]), key=lambda x: x.k):
                        m, rm = x.result_meta, rec_meta.get(x.k)
                        # the run stamp whose recorded start/duration the listed task carries
                        ts.append(f"{x.k}:{rm[0] if (rm and m is not None and m.start == rm[1] and m.duration == rm[2]) else 'X'}")
                        seen[x.k] = iso_meta(m)
                    o = dict(kind='tasks', ts=ts)
                except BaseException as e:
                    o = dict(kind='tasks', ts=['raised ' + type(e).__name__])
            try:
                o['keys'] = keys_now(lab)
            except BaseException as e:
                o['keys'] = ['find_keys raised ' + type(e).__name__]
            o['seen'] = seen
            if snap_root is not None and case['storage'] != 'none':
                shutil.copytree(os.path.join(d, 'store'), os.path.join(snap_root, f'step{step}'))
            out.append(o)
        return out
    finally:
        H.EXEC_LOG = None
        shutil.rmtree(d, ignore_errors=True)


def show(o):
    def lst(l):
        return ','.join(str(x) for x in l)
    if o['kind'] == 'ran':
        ret = ','.join(f'{t}:{v}' for t, v in o['ret'].items())
        loaded = ','.join(f'{t}:{v[0]}:{v[1]}' for t, v in sorted((int(t), v) for t, v in o['loaded'].items()))
        s = f"ran ret={ret} exec={lst(o['execd'])} loaded={loaded}"
    elif o['kind'] == 'unit':
        s = 'unit'
    elif o['kind'] == 'raised':
        s = 'raised ' + o['err']
    elif o['kind'] == 'bool':
        s = f"bool {int(o['b'])}"
    else:
        s = 'tasks ' + lst(o['ts'])
    return s + ' K=' + lst(o['keys'])


def same_ret(o, case_op):
    # run_tasks returns results in request order
    return [t for t in case_op[3] if t in o['ret'] or str(t) in o['ret']]


def worker_main(spec_path, out_path):
    spec = json.load(open(spec_path))
    out = []
    for case in spec['cases']:
        try:
            real = run_real(case)
            out.append(dict(case=case, real=[show(o) for o in real],
                            ref=[show(o) for o in reference(case)]))
        except BaseException:
            import traceback
            out.append(dict(case=case, infra=traceback.format_exc()[-800:]))
    json.dump(out, open(out_path, 'w'), default=str)


def run_parallel(cases, workers, timeout):
    tmp = tempfile.mkdtemp(prefix='verif-c08w-')
    try:
        chunks = [cases[i::workers] for i in range(workers)]
        procs = []
        for i, ch in enumerate(chunks):
            if not ch:
                continue
            sp, op, lp = (os.path.join(tmp, f'{x}{i}.json') for x in ('spec', 'out', 'log'))
            json.dump(dict(cases=ch), open(sp, 'w'))
            lf = open(lp, 'w')
            env = dict(os.environ, PYTHONPATH=HERE + os.pathsep + os.environ.get('VERIF_REPO', '/repo'),
                       PYTHONHASHSEED=str(i))
            procs.append((subprocess.Popen([sys.executable, os.path.abspath(__file__), '--worker', sp, op],
                                           stdout=lf, stderr=lf, stdin=subprocess.DEVNULL,
                                           start_new_session=True, env=env), op, lp, lf))
        recs, errors = [], []
        deadline = time.time() + timeout
        for p, op, lp, lf in procs:
            try:
                p.wait(timeout=max(0.1, deadline - time.time()))
            except subprocess.TimeoutExpired:
                errors.append('worker timeout')
            try:
                os.killpg(p.pid, signal.SIGKILL)
            except (ProcessLookupError, PermissionError):
                pass
            p.wait()
            lf.close()
            if os.path.exists(op):
                recs += json.load(open(op))
            else:
                errors.append('worker produced no output: ' + open(lp).read()[-400:])
        return recs, errors
    finally:
        shutil.rmtree(tmp, ignore_errors=True)


def first_diff(a, b):
    for i, (x, y) in enumerate(zip(a, b)):
        if x != y:
            return i, x, y
    return None


def evaluate(recs):
    import driver
    recs = [r for r in recs if not r.get('infra')]
    outs = driver.run_lines([encode(r['case']) for r in recs]) if recs else []
    violations, disagreements = [], []
    for r, mo in zip(recs, outs):
        model = mo.split(' | ') if mo else []
        r['model'] = model
        dm = first_diff(r['real'], model) if len(model) == len(r['real']) else (0, r['real'][:1], mo[:200])
        if dm:
            disagreements.append(dict(case=r['case'], step=dm[0], real=dm[1], model=dm[2], line=encode(r['case'])))
        dr = first_diff(r['real'], r['ref'])
        if dr:
            i = dr[0]
            violations.append(dict(
                what=f"operation {i} ({r['case']['ops'][i]}) on storage={r['case']['storage']} caches={r['case']['ca']}: the Lab did not behave like a plain task->result map: real '{dr[1]}' vs map '{dr[2]}'",
                replay=dict(kind='history', case=(shrink(r['case'], i) if len(violations) < 2 else r['case']),
                            full_case=r['case'], step=i, real=dr[1], reference=dr[2])))
    return violations, disagreements


def shrink(case, step):
    """drop operations that are not needed for the first divergence (greedy, re-running the real code)"""
    cur = dict(case, ops=case['ops'][:step + 1])

    def bad(c):
        try:
            real = [show(o) for o in run_real(c)]
            ref = [show(o) for o in reference(c)]
            return real != ref
        except BaseException:
            return False
    if not bad(cur):
        return case
    changed = True
    while changed and len(cur['ops']) > 1:
        changed = False
        for i in range(len(cur['ops']) - 1):
            c = dict(cur, ops=cur['ops'][:i] + cur['ops'][i + 1:])
            if bad(c):
                cur, changed = c, True
                break
    return cur


def run(ctx):
    tier, seed = ctx['tier'], ctx['seed']
    t0 = time.time()
    if ctx.get('replay'):
        rp = json.load(open(ctx['replay']))
        rep = rp.get('replay') or {}
        from props import c06x
        if rep.get('kind') in c06x.KINDS:
            # a history of the families of props/c06x.py / c08x.py (round trips through cached_tasks, ...)
            return c06x.replay_result(c06x.run_for(ctx, 'C08', c06x.FAMILIES, 108))
        if rep.get('kind') == 'main-script':
            from props import c08x
            rs = c08x.run_scripts((rep['backend'],))
            if any(r.get('infra') for r in rs):
                return dict(infra_error=rs[0]['infra'])
            return dict(evaluations=1, distinct_nontrivial=1, rule='replay of the __main__ script history', samples=rs,
                        violations=[dict(what=w, replay=rep) for r in rs for w in c08x.monitor(r)], disagreements=[])
        case = rep.get('case')
        if case is None:
            return dict(infra_error='replay file holds no history case')
        recs = [dict(case=case, real=[show(o) for o in run_real(case)], ref=[show(o) for o in reference(case)])]
        viol, dis = evaluate(recs)
        return dict(evaluations=1, distinct_nontrivial=1, rule='replay of one recorded history',
                    samples=[recs[0]['real']], violations=viol, disagreements=dis)
    if not ctx['driver_ok']:
        return dict(evaluations=0, disagreements=[dict(diff='driver does not build')], violations=[])
    rng = random.Random(seed * 1000003 + 8)
    n_hist = 260 if tier == 'quick' else 1500
    max_len = 10 if tier == 'quick' else 40
    cases = []
    for _ in range(n_hist):
        base = gen_case(rng, max_len)
        for st in STORAGES:          # the same history on every storage provider
            cases.append(dict(base, storage=st))
    # alongside: the history on a generated __main__ script with spawn / fork workers (props/c08x.py)
    import threading
    from props import c08x
    sbox = {}
    sth = threading.Thread(target=lambda: sbox.update(recs=c08x.run_scripts()))
    sth.start()
    # alongside: round trips run -> cached_tasks -> is_cached / cache_key / run_tasks(listed) / uncache_tasks(listed) over
    # dict parameters with unsorted keys (props/c08x.py rt_*); the violations that are labelled with C08 are this check's
    from props import c06x
    rbox = {}
    rth = threading.Thread(target=c06x.run_for_thread, args=(ctx, 'C08', ('round-trip',), 108, rbox))
    rth.start()
    recs, errors = run_parallel(cases, 13, 50 if tier == 'quick' else 800)
    sth.join()
    rth.join()
    rt = rbox.get('x') or dict(errors=['round-trip family did not finish'])
    errors += rt.get('errors', [])
    infra = [r for r in recs if r.get('infra')]
    sinfra = [r['infra'] for r in sbox.get('recs', []) if r.get('infra')] + ([] if 'recs' in sbox else ['script history did not finish'])
    if errors or infra or sinfra:
        return dict(infra_error='; '.join(errors + [r['infra'] for r in infra[:2]] + sinfra))
    viol, dis = evaluate(recs)
    viol = rt['violations'] + viol
    dis = rt['disagreements'] + dis
    import driver
    mp = c08x.model_pattern(driver.run_lines([c08x.MODEL])[0])
    for r in sbox['recs']:
        rp_ = c08x.real_pattern(r)
        if rp_ != mp:
            dis.append(dict(family='main-script', backend=r['backend'], real=rp_, model=mp, line=c08x.MODEL))
        for what in c08x.monitor(r):
            viol.insert(0, dict(what=what, replay=dict(kind='main-script', backend=r['backend'], steps=r['steps'], case=None)))
    if (dis or not ctx['proof_ok']) and not viol:
        rng2 = random.Random(seed * 7919 + 13)
        more = []
        for _ in range(n_hist * 2):
            base = gen_case(rng2, max_len + 10)
            for st in STORAGES:
                more.append(dict(base, storage=st))
        recs2, _ = run_parallel(more, 16, 900)
        v2, _ = evaluate(recs2)
        viol += v2
        recs += [r for r in recs2 if not r.get('infra')]
    recs = [r for r in recs if not r.get('infra')]

    def nontrivial(c):
        kinds = {op[0] for op in c['ops']}
        runs = [op for op in c['ops'] if op[0] == 'R']
        return c['storage'] != 'none' and len(runs) >= 2 and (('U' in kinds) or any(op[1] for op in runs))
    dist = dict(
        main_script_histories=[r['backend'] for r in sbox['recs']],
        **{k: v for k, v in rt['dist'].items() if k.startswith('round_trip')},
        histories=len(recs), operations=sum(len(r['case']['ops']) for r in recs),
        by_storage={s: sum(1 for r in recs if r['case']['storage'] == s) for s in STORAGES},
        runs_by_backend={b: sum(1 for r in recs for op in r['case']['ops'] if op[0] == 'R' and (op[5] if len(op) > 5 else 'serial') == b) for b in ('serial', 'fork')},
        histories_mixing_serial_and_fork=sum(1 for r in recs if len({op[5] for op in r['case']['ops'] if op[0] == 'R' and len(op) > 5}) > 1),
        runs_with_context_failures=sum(1 for r in recs for op in r['case']['ops'] if op[0] == 'R' and len(op) > 4 and op[4]),
        bust_runs_with_failures=sum(1 for r in recs for op in r['case']['ops'] if op[0] == 'R' and op[1] and len(op) > 4 and op[4]),
        op_mix={k: sum(1 for r in recs for op in r['case']['ops'] if op[0] == k) for k in 'RUIC'},
        bust_runs=sum(1 for r in recs for op in r['case']['ops'] if op[0] == 'R' and op[1]),
        cache_kinds={k: sum(r['case']['ca'].count(k) for r in recs) for k in 'pon'},
        histories_with_an_always_failing_task=sum(1 for r in recs if any(r['case']['fl'])),
        runs_that_loaded_something=sum(1 for r in recs for s in r['real'] if s.startswith('ran') and 'loaded= ' not in s + ' ' and not s.split(' K=')[0].endswith('loaded=')),
        history_length={'min': min(len(r['case']['ops']) for r in recs), 'max': max(len(r['case']['ops']) for r in recs)},
        wall_s=round(time.time() - t0, 1),
    )
    return dict(
        evaluations=len(recs) + rt['evaluations'], distinct_nontrivial=rt['nontrivial'] + len({json.dumps(r['case'], sort_keys=True) for r in recs if nontrivial(r['case'])}),
        rule='generated operation histories (8 tasks with dependencies, 3 task types with cache kind pickle/second BaseCache subclass/None each, ~10% always-failing tasks, per-run failure sets chosen through the Lab context, 30% of the histories mixing serial and real fork runs), each history on ONE Lab and ONE storage object, each replayed on LocalStorage, FsspecStorage(LocalFileSystem), storage=None and a LocalStorage subclass that is falsy while empty (defines __len__); + round trips run -> cached_tasks -> (is_cached, cache_key vs entry, run_tasks(listed), uncache_tasks(listed)) over tasks of both cache kinds whose dict / frozendict parameters have keys in unsorted order, also inside lists, nested dicts and nested tasks; non-trivial = real storage, >= 2 runs and at least one bust_cache run or uncache_tasks call',
        samples=[dict(line=encode(r['case']), real=r['real']) for r in recs[:2]],
        violations=viol[:5], disagreements=dis[:5], distribution=dist,
        assumptions=['run() is the deterministic family of harness/histtasks.py (value = 1000*k + run stamp + dependency results)',
                     'distinct tasks have distinct cache keys (C07) - the universe uses distinct k',
                     'serial backend and real fork workers (per run) on one Lab object'],
        explanation='real Lab (run_tasks / bust_cache / uncache_tasks / is_cached / cached_tasks, real caches, real LocalStorage and FsspecStorage) vs the Lean HIST model step by step (outputs, executed set, loaded values and cached_tasks() results with the stamp of the run whose start/duration they carry, find_keys as a sorted set), and vs a plain Python dict reference as monitor',
    )


if __name__ == '__main__':
    if len(sys.argv) == 4 and sys.argv[1] == '--worker':
        worker_main(sys.argv[2], sys.argv[3])
