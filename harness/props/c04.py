from props import dagprop


def run(ctx):
    return dagprop.run(ctx, 'C04')
