"""C08, extra history: task classes defined in the executed `__main__` script, workers started with the
spawn (and fork) backend. One generated script plays

    run_tasks -> is_cached (each task) -> cached_tasks -> find_keys -> uncache_tasks(all) -> find_keys
    -> is_cached -> run_tasks again (must execute everything again)

and reports every output; compared with the Lean `HIST` model of the same history and with the plain
map: after a successful run every task is cached and listed, storage holds exactly their 5 key
directories, uncache removes exactly those (storage empty: no orphan entry), and the next run executes
all of them again."""
import json
import os
import shutil
import signal
import subprocess
import sys
import tempfile
import time

HERE = os.path.dirname(os.path.dirname(os.path.abspath(__file__)))

SCRIPT = r'''
import json
import logging
import os
import sys

import labtech


def mark(line):
    fd = os.open(os.environ['VERIF_SCRIPT_LOG'], os.O_WRONLY | os.O_APPEND | os.O_CREAT)
    try:
        os.write(fd, (line + '\n').encode())
    finally:
        os.close(fd)


@labtech.task
class Square:
    base: int

    def run(self):
        mark(f'X {self.base - 1}')
        return self.base ** 2


@labtech.task
class Total:
    squares: list
    offset: int

    def run(self):
        mark(f'X {3 + self.offset // 100}')
        return self.offset + sum(s.result for s in self.squares)


def execs(pos):
    path = os.environ['VERIF_SCRIPT_LOG']
    if not os.path.exists(path):
        return [], pos
    with open(path) as f:
        f.seek(pos)
        data = f.read()
    return sorted(int(l.split()[1]) for l in data.splitlines()), pos + len(data)


def main():
    backend, storage, out = sys.argv[1], sys.argv[2], sys.argv[3]
    labtech.logger.setLevel(logging.CRITICAL)
    lab = labtech.Lab(storage=storage, runner_backend=backend, max_workers=2, continue_on_failure=True)

    def build():
        squares = [Square(base=b) for b in (1, 2, 3)]
        return squares + [Total(squares=squares, offset=o) for o in (0, 100)]
    want = [1, 4, 9, 14, 114]
    steps, pos = [], 0
    kw = dict(disable_progress=True, disable_top=True)
    ts = build()
    r = lab.run_tasks(ts[3:] + ts[:3], **kw)
    ex, pos = execs(pos)
    steps.append(dict(op='run', ok=[r.get(t) == w for t, w in zip(ts, want)], execd=ex, keys=len(lab._storage.find_keys())))
    steps.append(dict(op='is_cached', b=[bool(lab.is_cached(t)) for t in ts]))
    steps.append(dict(op='cached_tasks', n=sorted(ts.index(t) for t in lab.cached_tasks([Square, Total]) if t in ts),
                      total=len(lab.cached_tasks([Square, Total]))))
    lab.uncache_tasks(ts)
    steps.append(dict(op='uncache', keys=len(lab._storage.find_keys()), b=[bool(lab.is_cached(t)) for t in ts]))
    ts = build()
    r = lab.run_tasks(ts[3:] + ts[:3], **kw)
    ex, pos = execs(pos)
    steps.append(dict(op='run', ok=[r.get(t) == w for t, w in zip(ts, want)], execd=ex, keys=len(lab._storage.find_keys())))
    json.dump(dict(steps=steps, module=Square.__module__), open(out, 'w'))


if __name__ == '__main__':
    main()
'''

MODEL = 'HIST ns=0 ty=0,0,0,1,1 ca=p,p deps=;;;0,1,2;0,1,2 fl=0,0,0,0,0 np= ops=R0:1:3,4,0,1,2/I:0/I:1/I:2/I:3/I:4/C:0,1/U:0,1,2,3,4/I:0/I:1/I:2/I:3/I:4/R0:2:3,4,0,1,2'


def run_scripts(backends=('spawn', 'fork'), timeout=45):
    root = tempfile.mkdtemp(prefix='verif-c08s-')
    try:
        recs, procs = [], []
        for i, b in enumerate(backends):
            d = os.path.join(root, f's{i}')
            os.makedirs(d)
            open(os.path.join(d, 'experiment.py'), 'w').write(SCRIPT)
            lf = open(os.path.join(d, 'log.txt'), 'w')
            env = dict(os.environ, PYTHONPATH=HERE + os.pathsep + os.environ.get('VERIF_REPO', '/repo'),
                       PYTHONHASHSEED=str(80 + i), VERIF_SCRIPT_LOG=os.path.join(d, 'exec.log'))
            procs.append((subprocess.Popen([sys.executable, os.path.join(d, 'experiment.py'), b, os.path.join(d, 'store'),
                                            os.path.join(d, 'out.json')], stdout=lf, stderr=lf, stdin=subprocess.DEVNULL,
                                           start_new_session=True, env=env), lf))
            recs.append(dict(backend=b, dir=d))
        deadline = time.time() + timeout
        for p, lf in procs:
            try:
                p.wait(timeout=max(0.1, deadline - time.time()))
            except subprocess.TimeoutExpired:
                pass
            try:
                os.killpg(p.pid, signal.SIGKILL)
            except (ProcessLookupError, PermissionError):
                pass
            p.wait()
            lf.close()
        for r in recs:
            op = os.path.join(r['dir'], 'out.json')
            if os.path.exists(op):
                r.update(json.load(open(op)))
            else:
                r['infra'] = 'the __main__ script produced no output: ' + open(os.path.join(r['dir'], 'log.txt')).read()[-500:]
            r.pop('dir')
        return recs
    finally:
        shutil.rmtree(root, ignore_errors=True)


def lst(l):
    return ','.join(str(x) for x in l)


def real_pattern(r):
    s = r['steps']
    out = [f"exec={lst(s[0]['execd'])} ok={int(all(s[0]['ok']))} K={s[0]['keys']}"]
    out += [f'bool {int(b)}' for b in s[1]['b']]
    out.append(f"tasks {lst(s[2]['n'])} total={s[2]['total']}")
    out.append(f"unit K={s[3]['keys']}")
    out += [f'bool {int(b)}' for b in s[3]['b']]
    out.append(f"exec={lst(s[4]['execd'])} ok={int(all(s[4]['ok']))} K={s[4]['keys']}")
    return out


def model_pattern(mo):
    out = []
    for seg in mo.split(' | '):
        body, k = seg.rsplit(' K=', 1)
        nk = len([x for x in k.split(',') if x])
        if body.startswith('ran'):
            ex = body.split(' exec=')[1].split(' ')[0]
            nret = len([x for x in body.split('ret=')[1].split(' ')[0].split(',') if x])
            out.append(f'exec={ex} ok={int(nret == 5)} K={nk}')
        elif body.startswith('tasks'):
            ts = [x.split(':')[0] for x in body[6:].split(',') if x]
            out.append(f'tasks {lst(ts)} total={len(ts)}')
        elif body == 'unit':
            out.append(f'unit K={nk}')
        else:
            out.append(body)
    return out


def monitor(r):
    """the plain-map behaviour, directly"""
    out = []
    tag = f"task classes defined in the __main__ script, '{r['backend']}' workers"
    s = r['steps']
    if not all(s[0]['ok']):
        out.append(f"{tag}: the first run did not return the tasks' values")
        return out
    if not all(s[1]['b']):
        out.append(f"{tag}: after a successful run is_cached is {s[1]['b']} (successful executions of cacheable types add their own entry)")
    if s[2]['n'] != [0, 1, 2, 3, 4] or s[2]['total'] != 5:
        out.append(f"{tag}: cached_tasks lists {s[2]['n']} ({s[2]['total']} tasks) after all 5 tasks ran successfully")
    if s[0]['keys'] != 5:
        out.append(f"{tag}: storage holds {s[0]['keys']} entries after 5 tasks ran")
    if s[3]['keys'] != 0:
        out.append(f"{tag}: after uncache_tasks of every task {s[3]['keys']} entries are still in storage (uncache removes exactly the named entries; here an orphan entry nobody can address stays behind)")
    if any(s[3]['b']):
        out.append(f"{tag}: is_cached is {s[3]['b']} after uncache_tasks")
    if s[4]['execd'] != [0, 1, 2, 3, 4]:
        out.append(f"{tag}: the run after uncache_tasks executed {s[4]['execd']}, not all 5 tasks")
    return out


# =================================================================== (RT) round trips through cached_tasks
"""Round-trip histories (used by C08; the same records are labelled for C03 / C06 / C01 by `rt_monitor`):

    run_tasks(tasks) -> cached_tasks(all types) [a fresh Lab over the same directory in half of the cases]
      for every listed task: is_cached is true; its cache_key is the key of the entry it was rebuilt from;
      it equals the task that was run and carries the recorded result_meta
    mode 'run':     run_tasks(listed) executes nothing, loads every listed task, returns the stored values and adds
                    no entry; cached_tasks lists the same tasks again; uncache_tasks(listed) empties the storage
    mode 'uncache': uncache_tasks(listed) empties the storage, is_cached is false for every original task, and
                    run_tasks(tasks) executes every task again

over tasks of both cache kinds (PickleCache / a second BaseCache subclass) whose parameters hold dicts and
frozendicts with keys that are NOT in sorted order (at the top level, inside lists / dicts, and in the parameters of
tasks nested in parameters), enum members (also of classes nested in holder classes) and nested tasks.
Compared with the Lean `HIST` model on executed / loaded / listed / cached tids and the set of entries after every step."""
RT_KEYS = ['zeta', 'alpha', 'mid', 'b', 'a', 'Z', '_x', 'é', '10', '9', 'k', 'name', 'x y']
RT_KINDS = ('round-trip',)


def rt_enums():
    import conftasks as C
    import conftasks2 as C2
    return [C.Variant.SMALL, C.ModelA.Variant.LARGE, C.ModelB.Variant.SMALL, C2.ModelA.Variant.SMALL, C2.Variant.LARGE,
            C.Depth.DEEP, C.TextSets.TEST]


def rt_scalar(rng):
    k = rng.randrange(7)
    if k == 0:
        return ['n']
    if k == 1:
        return ['b', rng.random() < 0.5]
    if k == 2:
        return ['i', rng.choice([0, 1, -1, 7, 2 ** 40])]
    if k == 3:
        return ['f', rng.choice(['0.0', '1.0', '-2.5', '1e-07'])]
    if k == 4:
        return ['s', rng.choice(['', 'a', 'train', 'é', 'x y'])]
    return ['e', rng.randrange(7)]


def rt_dict(rng, depth, force_unsorted):
    n = rng.choice([2, 2, 3, 4]) if force_unsorted else rng.choice([0, 1, 2, 3])
    keys = rng.sample(RT_KEYS, n)
    if n >= 2:
        # insertion order differs from sorted order (mostly: descending or a rotation of the sorted order)
        for _ in range(10):
            if keys != sorted(keys):
                break
            rng.shuffle(keys)
        if keys == sorted(keys):
            keys.reverse()
    return [rng.choice('dz'), [[k, rt_value(rng, depth + 1)] for k in keys]]


def rt_value(rng, depth, force_unsorted=False):
    if force_unsorted:
        # an unsorted dict at this level, or one level down inside a list / a nested task's parameter
        k = rng.randrange(4)
        if k <= 1 or depth >= 2:
            return rt_dict(rng, depth, True)
        if k == 2:
            items = [rt_value(rng, depth + 1) for _ in range(rng.randrange(0, 2))] + [rt_dict(rng, depth + 1, True)]
            rng.shuffle(items)
            return [rng.choice('lu'), items]
        return ['t', rng.choice('po'), rt_dict(rng, depth + 1, True)]
    if depth >= 3 or rng.random() < 0.45:
        return rt_scalar(rng)
    k = rng.randrange(5)
    if k == 0:
        return [rng.choice('lu'), [rt_value(rng, depth + 1) for _ in range(rng.randrange(0, 3))]]
    if k in (1, 2):
        return rt_dict(rng, depth, rng.random() < 0.6)
    if k == 3:
        return ['t', rng.choice('po'), rt_value(rng, depth + 1)]
    return rt_scalar(rng)


def rt_gen(rng, tier):
    cases = []
    for i in range(40 if tier == 'quick' else 600):
        tops = []
        for _ in range(rng.choice([1, 2, 2, 3])):
            v = rt_value(rng, 0, force_unsorted=True)
            tops.append(['w', v] if rng.random() < 0.25 else ['t', rng.choice('po'), v])
        cases.append(dict(tops=tops, backend='fork' if i % 5 == 4 else 'serial', mode='uncache' if i % 3 == 2 else 'run',
                          fresh_lab=bool(i % 2)))
    # the same round trip on a Lab whose storage directory is given as a RELATIVE path ('str' / 'path': pathlib.Path), with an
    # os.chdir() between the first run and everything after it; under the new working directory a decoy directory of the
    # same relative name holds one foreign entry.  The storage directory is fixed when the Lab is made: nothing may change.
    for i in range(10 if tier == 'quick' else 100):
        tops = []
        for _ in range(rng.choice([1, 2, 2, 3])):
            v = rt_value(rng, 0, force_unsorted=True)
            tops.append(['w', v] if rng.random() < 0.25 else ['t', rng.choice('po'), v])
        cases.append(dict(tops=tops, backend='fork' if i % 5 == 4 else 'serial', mode='uncache' if i % 3 == 2 else 'run',
                          fresh_lab=False, rel='path' if i % 2 else 'str'))
    return cases


def rt_build(case):
    """(top-level tasks, all tasks by k, direct dependencies per k); k = position in depth-first POST-order, so
    that a task's dependencies have smaller numbers (as the HIST model's universe expects)"""
    import conftasks as C
    from frozendict import frozendict
    enums = rt_enums()
    everything, deps = [], []

    def val(s, found):
        t = s[0]
        if t == 'n':
            return None
        if t in 'bis':
            return s[1]
        if t == 'f':
            return float(s[1])
        if t == 'e':
            return enums[s[1]]
        if t == 'l':
            return [val(x, found) for x in s[1]]
        if t == 'u':
            return tuple(val(x, found) for x in s[1])
        if t in 'dz':
            d = {}
            for k, x in s[1]:
                d[k] = val(x, found)
            return d if t == 'd' else frozendict(d)
        obj = task(s)
        found.append(obj.k)
        return obj

    def add(make, direct):
        k = len(everything)
        everything.append(make(k))
        deps.append(sorted(direct))
        return everything[k]

    def task(s):
        found = []
        if s[0] == 'w':
            v = val(s[1], found)
            inner = add(lambda k: C.Describe(value=v, k=k), found)
            return add(lambda k: C.Wrap(inner=inner, k=k), [inner.k])
        v = val(s[2], found)
        return add(lambda k: (C.Describe if s[1] == 'p' else C.DescribeJ)(value=v, k=k), found)
    tops = [task(s) for s in case['tops']]
    return tops, everything, deps


def rt_want(t, canon=False):
    import conftasks as C
    return 'Wrap<' + C.reveal(t.inner.value, canon) + '>' if type(t).__name__ == 'Wrap' else C.reveal(t.value, canon)


def rt_unsorted(spec):
    """number of dict / frozendict nodes whose keys are not in sorted order"""
    if not isinstance(spec, list) or not spec:
        return 0
    if spec[0] in ('d', 'z'):
        keys = [k for k, _ in spec[1]]
        return int(keys != sorted(keys)) + sum(rt_unsorted(x) for _, x in spec[1])
    if spec[0] in ('l', 'u'):
        return sum(rt_unsorted(x) for x in spec[1])
    if spec[0] in ('t', 'w'):
        return rt_unsorted(spec[-1])
    return 0


def sk(l):
    return sorted(l, key=lambda x: (not isinstance(x, int), x if isinstance(x, int) else str(x)))


def rt_type_index(t):
    return {'Describe': 0, 'DescribeJ': 1, 'Wrap': 2}[type(t).__name__]


def rt_meta(m):
    return None if m is None else [m.start.isoformat() if m.start else None, m.duration.total_seconds() if m.duration is not None else None]


def rt_run(case, root):
    """the history on the real code; returns a JSON-able record (a case with `rel` changes the working directory: only
    ever called in worker processes, and the directory is restored)"""
    cwd0 = os.getcwd()
    try:
        return _rt_run(case, root)
    finally:
        os.chdir(cwd0)


def _rt_run(case, root):
    import logging
    import labtech
    import conftasks as C
    from labtech.exceptions import TaskNotFound
    labtech.logger.setLevel(logging.CRITICAL)
    d = tempfile.mkdtemp(prefix='rt-', dir=root)
    log = os.path.join(d, 'exec.log')
    os.environ['VERIF_HIST_LOG'] = log
    sd = os.path.join(d, 'store')
    kw = dict(disable_progress=True, disable_top=True)
    types = [C.Describe, C.DescribeJ, C.Wrap]
    tops, everything, deps = rt_build(case)
    n = len(everything)
    key_of = {t.cache_key: t.k for t in everything}
    pos = [0]

    def log_lines():
        if not os.path.exists(log):
            return []
        with open(log, 'rb') as f:
            f.seek(pos[0])
            data = f.read()
        pos[0] += len(data)
        return [l.split(' ', 2) for l in data.decode().splitlines()]

    def keys_now(lab):
        return sk((key_of[k] if k in key_of else 'UNKNOWN:' + k) for k in lab._storage.find_keys() if not k.startswith('.'))

    def guarded(f):
        try:
            return f()
        except BaseException as e:
            return 'raised ' + type(e).__name__ + ': ' + str(e)[:120]

    rec = dict(case=case, n=n, ty=[rt_type_index(t) for t in everything], deps=deps, tops=[t.k for t in tops],
               want={t.k: rt_want(t) for t in everything}, distinct_keys=len(key_of),
               unsorted_dicts=sum(rt_unsorted(s) for s in case['tops']))
    rel = case.get('rel')
    if rel:
        from pathlib import Path
        os.makedirs(os.path.join(d, 'elsewhere', 'store'))
        os.chdir(d)
        lab = labtech.Lab(storage=Path('store') if rel == 'path' else 'store', runner_backend=case['backend'], max_workers=2)
    else:
        lab = labtech.Lab(storage=sd, runner_backend=case['backend'], max_workers=2)
    res1 = guarded(lambda: lab.run_tasks(tops, **kw))
    lines = log_lines()
    rec['ret1'] = res1 if isinstance(res1, str) else {t.k: res1.get(t, 'MISSING') for t in tops}
    rec['exec1'] = sorted(int(l[1]) for l in lines if l[0] == 'X')
    rec['val1'] = {int(l[1]): l[2] for l in lines if l[0] == 'X'}
    rec['keys1'] = keys_now(lab)
    rec['meta1'] = {t.k: rt_meta(t.result_meta) for t in everything}
    if rel:
        # the program moves on to another working directory, where a directory of the same relative name holds a foreign entry
        stored = sorted(k for k in os.listdir(sd) if os.path.isdir(os.path.join(sd, k)))
        if stored:
            shutil.copytree(os.path.join(sd, stored[0]), os.path.join(d, 'elsewhere', 'store', stored[0][:-8] + 'decoy000'))
        os.chdir(os.path.join(d, 'elsewhere'))
    if case['fresh_lab'] and not rel:
        lab2 = labtech.Lab(storage=sd, runner_backend='serial')
    else:
        from labtech.runners import SerialRunnerBackend
        lab2 = lab
        lab2.runner_backend = SerialRunnerBackend()
    listed = guarded(lambda: list(lab2.cached_tasks(types)))
    if isinstance(listed, str):
        rec['listed'] = listed
        return rec
    # the entry every rebuilt task comes from: what cached_tasks does, key by key
    came = {}
    for key in lab2._storage.find_keys():
        for ty in types:
            try:
                x = ty._lt.cache.load_task(lab2._storage, ty, key)
            except TaskNotFound:
                continue
            except BaseException:
                break
            came.setdefault(x.cache_key, []).append(key)
            break
    rows = []
    for x in listed:
        k = getattr(x, 'k', None)
        orig = everything[k] if isinstance(k, int) and 0 <= k < n else None
        rows.append(dict(k=k, key=x.cache_key, from_keys=came.get(x.cache_key, []), in_storage=x.cache_key in set(lab2._storage.find_keys()),
                         cached=guarded(lambda: bool(lab2.is_cached(x))),
                         # equal: Python ==, same class, and type-exactly the same values (dict insertion order is not compared)
                         equal=bool(orig is not None and x == orig and type(x) is type(orig) and rt_want(x, True) == rt_want(orig, True)),
                         orig_key=None if orig is None else orig.cache_key, meta=rt_meta(x.result_meta)))
    rec['listed'] = rows
    rec['entry_of_key'] = {k: v for k, v in came.items()}
    if case['mode'] == 'run':
        log_lines()
        res2 = guarded(lambda: lab2.run_tasks(listed, **kw))
        lines = log_lines()
        rec['ret2'] = res2 if isinstance(res2, str) else [[x.k, res2.get(x, 'MISSING')] for x in listed]
        rec['exec2'] = sorted(int(l[1]) for l in lines if l[0] == 'X')
        rec['loaded2'] = sorted(int(l[1]) for l in lines if l[0] == 'L')
        rec['keys2'] = keys_now(lab2)
        rec['raw_keys2'] = len([k for k in lab2._storage.find_keys() if not k.startswith('.')])
        again = guarded(lambda: list(lab2.cached_tasks(types)))
        rec['listed_again'] = again if isinstance(again, str) else sk(getattr(x, 'k', None) for x in again)
        rec['uncache'] = guarded(lambda: lab2.uncache_tasks(listed))
        rec['keys3'] = keys_now(lab2)
        rec['cached3'] = [bool(lab2.is_cached(t)) for t in everything]
        after = guarded(lambda: list(lab2.cached_tasks(types)))
        rec['listed_after'] = after if isinstance(after, str) else sk(getattr(x, 'k', None) for x in after)
    else:
        rec['uncache'] = guarded(lambda: lab2.uncache_tasks(listed))
        rec['keys3'] = keys_now(lab2)
        rec['cached3'] = [bool(lab2.is_cached(t)) for t in everything]
        tops4, everything4, _ = rt_build(case)
        log_lines()
        res4 = guarded(lambda: lab2.run_tasks(tops4, **kw))
        lines = log_lines()
        rec['ret4'] = res4 if isinstance(res4, str) else {t.k: res4.get(t, 'MISSING') for t in tops4}
        rec['exec4'] = sorted(int(l[1]) for l in lines if l[0] == 'X')
        rec['keys4'] = keys_now(lab2)
    return rec


def rt_worker(spec_path, out_path):
    spec = json.load(open(spec_path))
    out = []
    for case in spec['seqs']:
        try:
            out.append(rt_run(case, spec['root']))
        except BaseException:
            import traceback
            out.append(dict(case=case, infra=traceback.format_exc()[-800:]))
    json.dump(out, open(out_path, 'w'), default=str)


def rt_monitor(rec):
    """[(what, [properties whose statement it violates])]"""
    out = []
    case = rec['case']
    n = rec['n']
    alln = list(range(n))
    tag = (f"round trip through cached_tasks ({len(case['tops'])} requested / {n} tasks, dict parameters with unsorted keys, "
           f"first run '{case['backend']}', {'fresh Lab' if case['fresh_lab'] else 'same Lab'}"
           + (f", Lab(storage={'Path(' if case['rel'] == 'path' else ''}'store'{')' if case['rel'] == 'path' else ''}) - a relative path - and os.chdir() "
              "after the first run to a directory that holds another 'store' with a foreign entry" if case.get('rel') else '') + ')')
    want = {int(k): v for k, v in rec['want'].items()}
    if isinstance(rec['ret1'], str) or any(rec['ret1'].get(str(k)) != want[k] for k in rec['tops']):
        out.append((f"{tag}: the first run_tasks did not return the tasks' own values: {rec['ret1']}", ['C01']))
        return out
    if rec['exec1'] != alln:
        out.append((f"{tag}: the first run_tasks (empty storage) executed {rec['exec1']}, not each of the {n} tasks once", ['C03']))
        return out
    if rec['keys1'] != alln:
        out.append((f"{tag}: after {n} tasks executed successfully the storage holds the entries of {rec['keys1']} (one entry per task expected)", ['C08']))
    if isinstance(rec['listed'], str):
        out.append((f"{tag}: cached_tasks {rec['listed']}", ['C08', 'C09']))
        return out
    rows = rec['listed']
    ks = sk(r['k'] for r in rows)
    if ks != alln or len(rows) != n:
        out.append((f"{tag}: cached_tasks lists the tasks {[r['k'] for r in rows]} after the tasks {alln} were stored", ['C08', 'C09']))
    for r in rows:
        if not r['equal']:
            out.append((f"{tag}: task {r['k']} listed by cached_tasks is not equal to the task that was run", ['C08', 'C09']))
        if r['cached'] is not True:
            out.append((f"{tag}: task {r['k']} was just listed by cached_tasks, but is_cached says {r['cached']} for it "
                        f"(its cache_key is {r['key']}, it was rebuilt from the entry {r['from_keys']})", ['C08']))
        if r['from_keys'] != [r['key']]:
            out.append((f"{tag}: task {r['k']} listed by cached_tasks has the cache_key {r['key']} but was rebuilt from the entry "
                        f"{r['from_keys']} (the task that was run has {r['orig_key']})", ['C08', 'C07', 'C09']))
        m1 = rec['meta1'].get(str(r['k']))
        if r['equal'] and r['meta'] != m1:
            out.append((f"{tag}: task {r['k']} listed by cached_tasks carries result_meta {r['meta']}, the run recorded {m1}", ['C06', 'C09']))
    val1 = {int(k): v for k, v in rec['val1'].items()}
    if case['mode'] == 'run':
        if isinstance(rec['ret2'], str):
            out.append((f"{tag}: run_tasks(cached_tasks(...)) {rec['ret2']}", ['C06', 'C09']))
        else:
            if rec['exec2']:
                out.append((f"{tag}: run_tasks(cached_tasks(...)) called run() again for the tasks {rec['exec2']} although every listed task is cached "
                            "(a task whose result is already cached is loaded instead of executed)", ['C03', 'C06']))
            for k, v in rec['ret2']:
                if isinstance(k, int) and k in val1 and v != val1[k]:
                    out.append((f"{tag}: run_tasks(cached_tasks(...)) returned {v!r} for task {k}; the stored result of its run is {val1[k]!r}", ['C01', 'C06']))
            if not rec['exec2'] and rec['loaded2'] != ks:
                out.append((f"{tag}: run_tasks(cached_tasks(...)) loaded the entries of {rec['loaded2']}, listed were {ks}", ['C03']))
        if rec['keys2'] != rec['keys1'] or rec['raw_keys2'] != len(rec['keys1']):
            out.append((f"{tag}: run_tasks over the tasks listed by cached_tasks changed the set of entries from {rec['keys1']} to {rec['keys2']} "
                        f"({rec['raw_keys2']} key directories): a cache hit adds no entry; now one task has two entries", ['C08']))
        if rec['listed_again'] != ks:
            out.append((f"{tag}: after run_tasks over the listed tasks cached_tasks lists {rec['listed_again']} (before: {ks})", ['C08']))
    if rec['uncache'] is not None:
        out.append((f"{tag}: uncache_tasks(cached_tasks(...)) {rec['uncache']}", ['C08']))
    if rec['keys3']:
        out.append((f"{tag}: after uncache_tasks(cached_tasks(...)) over every listed task the storage still holds the entries of {rec['keys3']} "
                    "(uncache_tasks removes exactly the named entries)", ['C08']))
    if any(rec['cached3']):
        out.append((f"{tag}: after uncache_tasks of every listed task is_cached is still true for {[k for k, b in enumerate(rec['cached3']) if b]}", ['C08']))
    if case['mode'] == 'run' and rec.get('listed_after') not in ([], None):
        out.append((f"{tag}: after uncache_tasks of every listed task cached_tasks still lists {rec['listed_after']}", ['C08']))
    if case['mode'] == 'uncache':
        if rec['exec4'] != alln and not rec['keys3']:
            out.append((f"{tag}: the run after uncache_tasks of every entry executed {rec['exec4']}, not all of {alln}", ['C08', 'C03']))
        if rec['keys4'] != alln:
            out.append((f"{tag}: after the re-run the storage holds the entries of {rec['keys4']}", ['C08']))
    return out


def rt_kind(what):
    """which alarm a message is, without the case description and without numbers"""
    import re
    return re.sub(r'[0-9]+', 'N', what.split('): ', 1)[-1])[:45]


def rt_candidates(case):
    """smaller round-trip cases: fewer requested tasks, a sub-tree in place of a parameter, fewer items, simpler options"""
    out = []
    tops = case['tops']
    for i in range(len(tops)):
        if len(tops) > 1:
            out.append(dict(case, tops=tops[:i] + tops[i + 1:]))

    def smaller(s):
        t = s[0]
        res = []
        if t in 'lu':
            res += [[t, s[1][:i] + s[1][i + 1:]] for i in range(len(s[1]))]
            res += [x for x in s[1] if x[0] in 'dzlut']
            for i, x in enumerate(s[1]):
                res += [[t, s[1][:i] + [y] + s[1][i + 1:]] for y in smaller(x)]
        elif t in 'dz':
            res += [[t, s[1][:i] + s[1][i + 1:]] for i in range(len(s[1]))]
            res += [x for _, x in s[1] if x[0] in 'dzlut']
            for i, (k, x) in enumerate(s[1]):
                res += [[t, s[1][:i] + [[k, y]] + s[1][i + 1:]] for y in smaller(x)]
                if x[0] not in 'ni':
                    res.append([t, s[1][:i] + [[k, ['i', 0]]] + s[1][i + 1:]])
        elif t == 't':
            res += [s[2]] if s[2][0] in 'dzlut' else []
            res += [['t', s[1], y] for y in smaller(s[2])]
        return res
    for i, top in enumerate(tops):
        if top[0] == 'w':
            out.append(dict(case, tops=tops[:i] + [['t', 'p', top[1]]] + tops[i + 1:]))
            subs = [['w', y] for y in smaller(top[1])]
        else:
            subs = [y if y[0] == 't' else ['t', top[1], y] for y in smaller(top)]
        out += [dict(case, tops=tops[:i] + [y] + tops[i + 1:]) for y in subs]
    if case['backend'] != 'serial':
        out.append(dict(case, backend='serial'))
    if case['fresh_lab']:
        out.append(dict(case, fresh_lab=False))
    return out


def rt_shrink(case, kind, run_cases, rounds=16, deadline=None):
    """greedy: a smaller case on which the real code still raises the alarm `kind`; `run_cases(cases) -> records`"""
    cur = case
    for _ in range(rounds):
        if deadline is not None and time.time() > deadline:
            break
        cands, seen = [], {json.dumps(cur, sort_keys=True)}
        for c in rt_candidates(cur):
            key = json.dumps(c, sort_keys=True)
            if key not in seen:
                seen.add(key)
                cands.append(c)
        cands = cands[:60]
        if not cands:
            break
        recs = run_cases(cands)
        nxt = next((r['case'] for r in recs if not r.get('infra') and any(rt_kind(w) == kind for w, _ in rt_monitor(r))), None)
        if nxt is None:
            break
        cur = nxt
    return cur


def rt_model_line(rec):
    lst_ = lambda l: ','.join(str(x) for x in l)
    n = rec['n']
    alln = lst_(range(n))
    ops = [f"R0:1:{lst_(rec['tops'])}", 'C:0,1,2'] + [f'I:{k}' for k in range(n)]
    if rec['case']['mode'] == 'run':
        ops += [f'R0:2:{alln}', 'C:0,1,2', f'U:{alln}'] + [f'I:{k}' for k in range(n)] + ['C:0,1,2']
    else:
        ops += [f'U:{alln}'] + [f'I:{k}' for k in range(n)] + [f"R0:2:{lst_(rec['tops'])}"]
    return (f"HIST ns=0 ty={lst_(rec['ty'])} ca=p,o,p deps={';'.join(lst_(d) for d in rec['deps'])} fl={lst_([0] * n)} np=0:1 "
            f"ops={'/'.join(ops)}")


def rt_pattern_model(mo):
    out = []
    for seg in mo.split(' | '):
        body, k = seg.rsplit(' K=', 1)
        if body.startswith('ran'):
            ex = body.split(' exec=')[1].split(' ')[0]
            ld = ','.join(x.split(':')[0] for x in body.split(' loaded=')[1].split(',') if x)
            out.append(f'exec={ex} loaded={ld} K={k}')
        elif body.startswith('tasks'):
            out.append('tasks ' + ','.join(x.split(':')[0] for x in body[6:].split(',') if x) + f' K={k}')
        else:
            out.append(f'{body} K={k}')
    return out


def rt_pattern_real(rec):
    n = rec['n']
    k1 = lst(rec['keys1'])
    rows = rec['listed']
    if isinstance(rows, str):
        return [f"exec={lst(rec['exec1'])} loaded= K={k1}", rows]
    out = [f"exec={lst(rec['exec1'])} loaded= K={k1}", f"tasks {lst(sk(r['k'] for r in rows))} K={k1}"]
    cached = {r['k']: r['cached'] for r in rows}
    out += [f'bool {int(cached.get(k) is True)} K={k1}' for k in range(n)]
    if rec['case']['mode'] == 'run':
        out.append(f"exec={lst(rec['exec2'])} loaded={lst(rec['loaded2'])} K={lst(rec['keys2'])}")
        out.append(f"tasks {lst(rec['listed_again']) if isinstance(rec['listed_again'], list) else rec['listed_again']} K={lst(rec['keys2'])}")
        out.append(f"unit K={lst(rec['keys3'])}")
        out += [f"bool {int(b)} K={lst(rec['keys3'])}" for b in rec['cached3']]
        out.append(f"tasks {lst(rec['listed_after']) if isinstance(rec['listed_after'], list) else rec['listed_after']} K={lst(rec['keys3'])}")
    else:
        out.append(f"unit K={lst(rec['keys3'])}")
        out += [f"bool {int(b)} K={lst(rec['keys3'])}" for b in rec['cached3']]
        out.append(f"exec={lst(rec['exec4'])} loaded= K={lst(rec['keys4'])}")
    return out


if __name__ == '__main__':
    if len(sys.argv) == 4 and sys.argv[1] == '--rt':
        sys.path.insert(0, HERE)
        rt_worker(sys.argv[2], sys.argv[3])
