"""C08, extra history: task classes defined in the executed `__main__` script, workers started with the
spawn (and fork) backend. One generated script plays

    run_tasks -> is_cached (each task) -> cached_tasks -> find_keys -> uncache_tasks(all) -> find_keys
    -> is_cached -> run_tasks again (must execute everything again)

and reports every output; compared with the Lean `HIST` model of the same history and with the plain
map: after a successful run every task is cached and listed, storage holds exactly their 5 key
directories, uncache removes exactly those (storage empty: no orphan entry), and the next run executes
all of them again."""
import json
import os
import shutil
import signal
import subprocess
import sys
import tempfile
import time

HERE = os.path.dirname(os.path.dirname(os.path.abspath(__file__)))

SCRIPT = r'''
import json
import logging
import os
import sys

import labtech


def mark(line):
    fd = os.open(os.environ['VERIF_SCRIPT_LOG'], os.O_WRONLY | os.O_APPEND | os.O_CREAT)
    try:
        os.write(fd, (line + '\n').encode())
    finally:
        os.close(fd)


@labtech.task
class Square:
    base: int

    def run(self):
        mark(f'X {self.base - 1}')
        return self.base ** 2


@labtech.task
class Total:
    squares: list
    offset: int

    def run(self):
        mark(f'X {3 + self.offset // 100}')
        return self.offset + sum(s.result for s in self.squares)


def execs(pos):
    path = os.environ['VERIF_SCRIPT_LOG']
    if not os.path.exists(path):
        return [], pos
    with open(path) as f:
        f.seek(pos)
        data = f.read()
    return sorted(int(l.split()[1]) for l in data.splitlines()), pos + len(data)


def main():
    backend, storage, out = sys.argv[1], sys.argv[2], sys.argv[3]
    labtech.logger.setLevel(logging.CRITICAL)
    lab = labtech.Lab(storage=storage, runner_backend=backend, max_workers=2, continue_on_failure=True)

    def build():
        squares = [Square(base=b) for b in (1, 2, 3)]
        return squares + [Total(squares=squares, offset=o) for o in (0, 100)]
    want = [1, 4, 9, 14, 114]
    steps, pos = [], 0
    kw = dict(disable_progress=True, disable_top=True)
    ts = build()
    r = lab.run_tasks(ts[3:] + ts[:3], **kw)
    ex, pos = execs(pos)
    steps.append(dict(op='run', ok=[r.get(t) == w for t, w in zip(ts, want)], execd=ex, keys=len(lab._storage.find_keys())))
    steps.append(dict(op='is_cached', b=[bool(lab.is_cached(t)) for t in ts]))
    steps.append(dict(op='cached_tasks', n=sorted(ts.index(t) for t in lab.cached_tasks([Square, Total]) if t in ts),
                      total=len(lab.cached_tasks([Square, Total]))))
    lab.uncache_tasks(ts)
    steps.append(dict(op='uncache', keys=len(lab._storage.find_keys()), b=[bool(lab.is_cached(t)) for t in ts]))
    ts = build()
    r = lab.run_tasks(ts[3:] + ts[:3], **kw)
    ex, pos = execs(pos)
    steps.append(dict(op='run', ok=[r.get(t) == w for t, w in zip(ts, want)], execd=ex, keys=len(lab._storage.find_keys())))
    json.dump(dict(steps=steps, module=Square.__module__), open(out, 'w'))


if __name__ == '__main__':
    main()
'''

MODEL = 'HIST ns=0 ty=0,0,0,1,1 ca=p,p deps=;;;0,1,2;0,1,2 fl=0,0,0,0,0 np= ops=R0:1:3,4,0,1,2/I:0/I:1/I:2/I:3/I:4/C:0,1/U:0,1,2,3,4/I:0/I:1/I:2/I:3/I:4/R0:2:3,4,0,1,2'


def run_scripts(backends=('spawn', 'fork'), timeout=45):
    root = tempfile.mkdtemp(prefix='verif-c08s-')
    try:
        recs, procs = [], []
        for i, b in enumerate(backends):
            d = os.path.join(root, f's{i}')
            os.makedirs(d)
            open(os.path.join(d, 'experiment.py'), 'w').write(SCRIPT)
            lf = open(os.path.join(d, 'log.txt'), 'w')
            env = dict(os.environ, PYTHONPATH=HERE + os.pathsep + os.environ.get('VERIF_REPO', '/repo'),
                       PYTHONHASHSEED=str(80 + i), VERIF_SCRIPT_LOG=os.path.join(d, 'exec.log'))
            procs.append((subprocess.Popen([sys.executable, os.path.join(d, 'experiment.py'), b, os.path.join(d, 'store'),
                                            os.path.join(d, 'out.json')], stdout=lf, stderr=lf, stdin=subprocess.DEVNULL,
                                           start_new_session=True, env=env), lf))
            recs.append(dict(backend=b, dir=d))
        deadline = time.time() + timeout
        for p, lf in procs:
            try:
                p.wait(timeout=max(0.1, deadline - time.time()))
            except subprocess.TimeoutExpired:
                pass
            try:
                os.killpg(p.pid, signal.SIGKILL)
            except (ProcessLookupError, PermissionError):
                pass
            p.wait()
            lf.close()
        for r in recs:
            op = os.path.join(r['dir'], 'out.json')
            if os.path.exists(op):
                r.update(json.load(open(op)))
            else:
                r['infra'] = 'the __main__ script produced no output: ' + open(os.path.join(r['dir'], 'log.txt')).read()[-500:]
            r.pop('dir')
        return recs
    finally:
        shutil.rmtree(root, ignore_errors=True)


def lst(l):
    return ','.join(str(x) for x in l)


def real_pattern(r):
    s = r['steps']
    out = [f"exec={lst(s[0]['execd'])} ok={int(all(s[0]['ok']))} K={s[0]['keys']}"]
    out += [f'bool {int(b)}' for b in s[1]['b']]
    out.append(f"tasks {lst(s[2]['n'])} total={s[2]['total']}")
    out.append(f"unit K={s[3]['keys']}")
    out += [f'bool {int(b)}' for b in s[3]['b']]
    out.append(f"exec={lst(s[4]['execd'])} ok={int(all(s[4]['ok']))} K={s[4]['keys']}")
    return out


def model_pattern(mo):
    out = []
    for seg in mo.split(' | '):
        body, k = seg.rsplit(' K=', 1)
        nk = len([x for x in k.split(',') if x])
        if body.startswith('ran'):
            ex = body.split(' exec=')[1].split(' ')[0]
            nret = len([x for x in body.split('ret=')[1].split(' ')[0].split(',') if x])
            out.append(f'exec={ex} ok={int(nret == 5)} K={nk}')
        elif body.startswith('tasks'):
            ts = [x.split(':')[0] for x in body[6:].split(',') if x]
            out.append(f'tasks {lst(ts)} total={len(ts)}')
        elif body == 'unit':
            out.append(f'unit K={nk}')
        else:
            out.append(body)
    return out


def monitor(r):
    """the plain-map behaviour, directly"""
    out = []
    tag = f"task classes defined in the __main__ script, '{r['backend']}' workers"
    s = r['steps']
    if not all(s[0]['ok']):
        out.append(f"{tag}: the first run did not return the tasks' values")
        return out
    if not all(s[1]['b']):
        out.append(f"{tag}: after a successful run is_cached is {s[1]['b']} (successful executions of cacheable types add their own entry)")
    if s[2]['n'] != [0, 1, 2, 3, 4] or s[2]['total'] != 5:
        out.append(f"{tag}: cached_tasks lists {s[2]['n']} ({s[2]['total']} tasks) after all 5 tasks ran successfully")
    if s[0]['keys'] != 5:
        out.append(f"{tag}: storage holds {s[0]['keys']} entries after 5 tasks ran")
    if s[3]['keys'] != 0:
        out.append(f"{tag}: after uncache_tasks of every task {s[3]['keys']} entries are still in storage (uncache removes exactly the named entries; here an orphan entry nobody can address stays behind)")
    if any(s[3]['b']):
        out.append(f"{tag}: is_cached is {s[3]['b']} after uncache_tasks")
    if s[4]['execd'] != [0, 1, 2, 3, 4]:
        out.append(f"{tag}: the run after uncache_tasks executed {s[4]['execd']}, not all 5 tasks")
    return out
