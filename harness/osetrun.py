"""`labtech.utils.OrderedSet` against its Lean model (`lean/LabtechModel/Model/OSet.lean`, driver word `OSET`).

C01 ("keys are exactly the requested tasks, in request order"), C03 (`pending_tasks`, `get_direct_dependencies`) and
C02/C17 (`complete_task`) lean on this class; the run model writes `dedup` for it. Here the class itself is driven
through its public interface only (`OrderedSet(items)`, `add`, `remove`, `in`, iteration, `+`, `len`) on generated
operation sequences over a few named sets, and every observable result is compared with the model.

ELEMENTS. The model's element is (equality class, identity). The pool below realises each class by several Python
objects that are `==` and hash-equal but distinguishable by identity (and mostly by type): `1`/`True`/`1.0`/`Fraction(1)`,
`0`/`False`/`0.0`/`-0.0`, equal-but-distinct instances of a frozen dataclass, equal labtech task objects, equal strings and
tuples that are different objects, objects whose hashes all collide although they are unequal (a class is decided by `==`,
not by the hash), two task types with equal parameters (hash-equal, not `==`). `list:<n>` reports WHICH object came out
(`is` against the pool), so "the first-added object of a class is what iteration yields" is observed, not only the
class.

PROTOCOL (one line per sequence, see Driver/OsetCmd.lean):
  OSET new:0:c1i1,c1i2,c2i3 add:0:c3i4 rem:0:c1i0 plus:2:0:1 mem:0:c2i3 len:0 list:0   ->   ok ok ok ok T 2 i3,i4

`explore(seed, n)` -> (evaluations, disagreements, distribution). The real side runs in a fresh interpreter (labtech
imported from $VERIF_REPO, output to a file); every random choice derives from `random.Random(seed)`."""
import json
import os
import random
import shutil
import signal
import subprocess
import sys
import tempfile
import time

HERE = os.path.dirname(os.path.abspath(__file__))
if HERE not in sys.path:
    sys.path.insert(0, HERE)

# (equality class, constructor kind, argument); the identity of an object is its index in this table
SPEC = [
    (0, 'lit', '1'), (0, 'lit', 'True'), (0, 'lit', '1.0'), (0, 'frac', 1),
    (1, 'lit', '0'), (1, 'lit', 'False'), (1, 'lit', '0.0'), (1, 'lit', '-0.0'),
    (2, 'dc', (1, 'a')), (2, 'dc', (1, 'a')), (2, 'dc', (True, 'a')),
    (3, 'dc', (2, 'a')), (3, 'dc', (2, 'a')), (3, 'dc', (2.0, 'a')),
    (4, 'task', 1), (4, 'task', 1), (4, 'task', 1),
    (5, 'task', 2), (5, 'task', 2), (5, 'task', 2),
    (6, 'str', 'ab'), (6, 'str', 'ab'),
    (7, 'tup', (1, 2)), (7, 'tup', (True, 2.0)),
    (8, 'coll', 'x'), (8, 'coll', 'x'), (8, 'coll', 'x'),
    (9, 'coll', 'y'), (9, 'coll', 'y'),
    (10, 'lit', 'None'),
    (11, 'fset', (1, 2)), (11, 'fset', (2, 1)),
    (12, 'task2', 1), (12, 'task2', 1),
]
CLASSES = sorted({c for c, _, _ in SPEC})
IDENTS = {c: [i for i, (cc, _, _) in enumerate(SPEC) if cc == c] for c in CLASSES}
# groups of classes whose members collide in hash() without being equal (a dict must keep them apart)
HASH_COLLIDING = [(8, 9), (4, 12)]


def build_pool():
    """objs[ident] = the Python object; needs labtech (task objects)"""
    import dataclasses
    from fractions import Fraction

    import labtech

    @dataclasses.dataclass(frozen=True)
    class P:
        x: object
        y: str

    class K:
        """equal iff same key; every hash collides"""
        def __init__(self, key):
            self.key = key

        def __eq__(self, other):
            return isinstance(other, K) and other.key == self.key

        def __hash__(self):
            return 7

    @labtech.task
    class T:
        a: int

        def run(self):
            return self.a

    @labtech.task
    class U:
        a: int

        def run(self):
            return -self.a

    objs = []
    for _, kind, arg in SPEC:
        if kind == 'lit':
            o = eval(arg, {})
        elif kind == 'frac':
            o = Fraction(arg)
        elif kind == 'dc':
            o = P(*arg)
        elif kind == 'task':
            o = T(a=arg)
        elif kind == 'task2':
            o = U(a=arg)
        elif kind == 'str':
            o = ''.join(list(arg))         # a fresh string object each time
        elif kind == 'tup':
            o = tuple(list(arg))
        elif kind == 'coll':
            o = K(arg)
        elif kind == 'fset':
            o = frozenset(arg)
        objs.append(o)
    # the pool really is what the model assumes: same class <=> == and hash-equal; different idents = different objects
    for i, (ci, _, _) in enumerate(SPEC):
        for j, (cj, _, _) in enumerate(SPEC):
            same = objs[i] == objs[j] and hash(objs[i]) == hash(objs[j])
            assert same == (ci == cj), ('pool', i, j)
            assert (objs[i] is objs[j]) == (i == j), ('pool identity', i, j)
    for a, b in HASH_COLLIDING:
        assert hash(objs[IDENTS[a][0]]) == hash(objs[IDENTS[b][0]])
    return objs


# ------------------------------------------------------------------------------------------------ generator

def tok(ident):
    return 'c%di%d' % (SPEC[ident][0], ident)


def gen_sequence(rng, max_ops):
    """one operation sequence (list of op tokens) + statistics; a shadow of which classes each set holds is kept only to
    bias the choices (remove something present, add something colliding) and to measure the distribution"""
    ncls = rng.choice([1, 2, 2, 3, 3, 4, 6])
    classes = rng.sample(CLASSES, ncls)
    if rng.random() < 0.3:      # prefer a hash-colliding pair of classes
        classes = list(dict.fromkeys(list(rng.choice(HASH_COLLIDING)) + classes))[:max(2, ncls)]
    idents = [i for c in classes for i in IDENTS[c]]
    nsets = rng.choice([1, 2, 2, 3])
    ops, shadow = [], {}
    st = dict(collide_add=0, keyerror=0, plus_shared=0, readd=0, init_dups=0)
    removed = {}

    def pick():
        return rng.choice(idents)

    for n in range(nsets):
        r = rng.random()
        if r < 0.15:
            ops.append('new:%d' % n)
            shadow[n] = {}
        else:
            items = [pick() for _ in range(rng.choice([0, 1, 2, 3, 4, 6, 9]))]
            ops.append('new:%d:%s' % (n, ','.join(tok(i) for i in items)))
            shadow[n] = {}
            for i in items:
                if SPEC[i][0] in shadow[n]:
                    st['init_dups'] += shadow[n][SPEC[i][0]] != i
                else:
                    shadow[n][SPEC[i][0]] = i
        removed[n] = set()
    for _ in range(rng.randint(1, max_ops)):
        n = rng.choice(list(shadow))
        r = rng.random()
        if r < 0.30:
            i = pick()
            c = SPEC[i][0]
            if c in shadow[n]:
                st['collide_add'] += shadow[n][c] != i
            else:
                st['readd'] += c in removed[n]
                shadow[n][c] = i
            ops.append('add:%d:%s' % (n, tok(i)))
        elif r < 0.50:
            if shadow[n] and rng.random() < 0.7:
                c = rng.choice(list(shadow[n]))
                i = rng.choice(IDENTS[c])          # any object of the class removes it
            else:
                i = pick()
                c = SPEC[i][0]
            if c in shadow[n]:
                del shadow[n][c]
                removed[n].add(c)
            else:
                st['keyerror'] += 1
            ops.append('rem:%d:%s' % (n, tok(i)))
        elif r < 0.65:
            a, b = rng.choice(list(shadow)), rng.choice(list(shadow))
            tgt = rng.choice(list(shadow) + [len(shadow)]) if len(shadow) < 4 else rng.choice(list(shadow))
            st['plus_shared'] += any(c in shadow[a] and shadow[a][c] != shadow[b][c] for c in shadow[b])
            new = dict(shadow[a])
            for c, i in shadow[b].items():
                new.setdefault(c, i)
            shadow[tgt] = new
            removed[tgt] = set()
            ops.append('plus:%d:%d:%d' % (tgt, a, b))
        elif r < 0.78:
            ops.append('mem:%d:%s' % (n, tok(pick())))
        elif r < 0.85:
            ops.append('len:%d' % n)
        else:
            ops.append('list:%d' % n)
    for n in sorted(shadow):
        ops.append('list:%d' % n)
        ops.append('len:%d' % n)
    return ops, st


def gen(seed, n, max_ops=12):
    rng = random.Random(seed * 1000003 + 4242)
    seqs, dist = [], dict(ops={}, adds_of_a_present_class_with_another_object=0, removes_of_an_absent_class=0,
                          plus_with_a_shared_class_of_two_objects=0, add_after_remove_of_the_class=0,
                          constructor_items_repeating_a_class_with_another_object=0, sequences_with_an_identity_collision=0,
                          lengths={})
    for _ in range(n):
        ops, st = gen_sequence(rng, max_ops)
        seqs.append(ops)
        for o in ops:
            k = o.split(':')[0]
            dist['ops'][k] = dist['ops'].get(k, 0) + 1
        dist['adds_of_a_present_class_with_another_object'] += st['collide_add']
        dist['removes_of_an_absent_class'] += st['keyerror']
        dist['plus_with_a_shared_class_of_two_objects'] += st['plus_shared']
        dist['add_after_remove_of_the_class'] += st['readd']
        dist['constructor_items_repeating_a_class_with_another_object'] += st['init_dups']
        dist['sequences_with_an_identity_collision'] += bool(st['collide_add'] or st['plus_shared'] or st['init_dups'])
        b = str(min(len(ops) // 5 * 5, 20))
        dist['lengths'][b] = dist['lengths'].get(b, 0) + 1
    return seqs, dist


# ------------------------------------------------------------------------------------------------ the real class

def run_real(ops, objs, OrderedSet):
    """the observation line of one sequence on the real class (public interface only)"""
    sets, out = {}, []

    def elem(t):
        return objs[int(t.split('i')[1])]

    def ident(o):
        for i, p in enumerate(objs):
            if p is o:
                return 'i%d' % i
        return '?' + type(o).__name__

    for op in ops:
        p = op.split(':')
        try:
            if p[0] == 'new':
                n = int(p[1])
                if len(p) == 2:
                    sets[n] = OrderedSet()
                else:
                    sets[n] = OrderedSet([elem(t) for t in p[2].split(',')] if p[2] else [])
                o = 'ok'
            elif p[0] == 'add':
                r = sets[int(p[1])].add(elem(p[2]))
                o = 'ok' if r is None else 'returned:' + type(r).__name__
            elif p[0] == 'rem':
                r = sets[int(p[1])].remove(elem(p[2]))
                o = 'ok' if r is None else 'returned:' + type(r).__name__
            elif p[0] == 'plus':
                a, b = sets[int(p[2])], sets[int(p[3])]
                r = a + b
                o = 'ok' if (type(r) is OrderedSet and r is not a and r is not b) else 'not-a-new-OrderedSet'
                sets[int(p[1])] = r
            elif p[0] == 'mem':
                o = 'T' if (elem(p[2]) in sets[int(p[1])]) else 'F'
            elif p[0] == 'len':
                o = str(len(sets[int(p[1])]))
            elif p[0] == 'list':
                l = [ident(x) for x in sets[int(p[1])]]
                o = ','.join(l) if l else '-'
            else:
                o = 'bad-op'
        except KeyError:
            o = 'KeyError'
        except Exception as e:      # noqa: BLE001 - any other exception is an observation
            o = 'raised:' + type(e).__name__
        out.append(o)
    return ' '.join(out)


def real_main(spec_path, out_path):
    from labtech.utils import OrderedSet
    objs = build_pool()
    seqs = json.load(open(spec_path))
    res = [run_real(ops, objs, OrderedSet) for ops in seqs]
    tmp = out_path + '.tmp'
    json.dump(res, open(tmp, 'w'))
    os.replace(tmp, out_path)


def real_batch(seqs, timeout=120):
    """observations of the real class in a fresh interpreter; (list | None, error | None)"""
    d = tempfile.mkdtemp(prefix='verif-oset-')
    try:
        spec, out, log = os.path.join(d, 'spec.json'), os.path.join(d, 'out.json'), os.path.join(d, 'log.txt')
        json.dump(seqs, open(spec, 'w'))
        env = dict(os.environ, PYTHONPATH=HERE + os.pathsep + os.environ.get('VERIF_REPO', '/repo'))
        with open(log, 'w') as lf:
            p = subprocess.Popen([sys.executable, os.path.abspath(__file__), '--real', spec, out], stdout=lf, stderr=lf,
                                 stdin=subprocess.DEVNULL, start_new_session=True, env=env)
            try:
                p.wait(timeout=timeout)
            except subprocess.TimeoutExpired:
                pass
            try:
                os.killpg(p.pid, signal.SIGKILL)
            except (ProcessLookupError, PermissionError):
                pass
            p.wait()
        if not os.path.exists(out):
            return None, 'OrderedSet worker produced no output: ' + open(log).read()[-600:]
        return json.load(open(out)), None
    finally:
        shutil.rmtree(d, ignore_errors=True)


def line_of(ops):
    return 'OSET ' + ' '.join(ops)


def both(seqs):
    """(real observations, model observations, error)"""
    import threading

    import driver
    box = {}

    def model():
        try:
            box['m'] = driver.run_lines([line_of(o) for o in seqs])
        except Exception as e:      # noqa: BLE001
            box['e'] = 'driver: ' + str(e)[:300]
    th = threading.Thread(target=model)
    th.start()
    real, err = real_batch(seqs)
    th.join()
    if err or 'e' in box:
        return None, None, err or box['e']
    return real, box['m'], None


def first_diff(ops, real, model):
    r, m = real.split(' '), model.split(' ')
    for k, op in enumerate(ops):
        a = r[k] if k < len(r) else '<missing>'
        b = m[k] if k < len(m) else '<missing>'
        if a != b:
            return 'op %d `%s`: real %s, model %s' % (k, op, a, b)
    return 'lengths differ'


def shrink(ops, rounds=24):
    """greedy: drop operations and constructor items while real and model still differ (each round = one batch on both
    sides)"""
    cur = list(ops)
    for _ in range(rounds):
        cands = [cur[:k] + cur[k + 1:] for k in range(len(cur))]
        for k, op in enumerate(cur):
            p = op.split(':')
            if p[0] == 'new' and len(p) == 3 and p[2]:
                items = p[2].split(',')
                for j in range(len(items)):
                    cands.append(cur[:k] + ['new:%s:%s' % (p[1], ','.join(items[:j] + items[j + 1:]))] + cur[k + 1:])
        cands = [c for c in cands if c]
        if not cands:
            break
        real, model, err = both(cands)
        if err:
            break
        # a candidate that the model rejects (an unbound set name after the deletion) is not a smaller case
        good = [c for c, r, m in zip(cands, real, model) if r != m and m != 'bad-op']
        if not good:
            break
        cur = min(good, key=lambda c: len(' '.join(c)))
    return cur


def record(ops, real, model):
    return dict(kind='oset', diff='OrderedSet differs from its model at ' + first_diff(ops, real, model), line=line_of(ops),
                real=real, model=model, replay=dict(kind='oset', ops=ops))


def explore(seed, n, max_ops=12):
    """run the real OrderedSet and the Lean model on `n` generated sequences -> (evaluations, disagreements, distribution)"""
    t0 = time.time()
    seqs, dist = gen(seed, n, max_ops)
    real, model, err = both(seqs)
    if err:
        raise RuntimeError(err)
    bad = [(o, r, m) for o, r, m in zip(seqs, real, model) if r != m]
    dis = []
    if bad:
        small = shrink(min(bad, key=lambda x: len(x[0]))[0])
        r2, m2, err = both([small])
        if not err and r2[0] != m2[0]:
            dis.append(record(small, r2[0], m2[0]))
        dis += [record(o, r, m) for o, r, m in bad[:4]]
    dist['sequences'] = len(seqs)
    dist['sequences_that_differ'] = len(bad)
    dist['keyerrors_observed'] = sum(r.count('KeyError') for r in real)
    dist['distinct_sequences'] = len({' '.join(o) for o in seqs})
    dist['pool'] = '%d objects in %d equality classes' % (len(SPEC), len(CLASSES))
    dist['wall_s'] = round(time.time() - t0, 2)
    return len(seqs), dis, dist


# ------------------------------------------------------------------------------------------------ hooks for props/c01.py

NOTE = ('labtech.utils.OrderedSet itself against its Lean model (Model/OSet.lean, driver word OSET) on generated sequences of '
        'OrderedSet(items) / add / remove / in / iteration / + / len over objects that are ==-equal but distinct '
        '(1/True/1.0, equal dataclass instances, equal task objects, colliding hashes): which OBJECT comes out and in which order')


def replay_ops(ctx):
    """the operation list of an `oset` replay file (a disagreement has no failing input of C01 itself, so check.py files it
    under `broken[].first`), else None"""
    if not ctx.get('replay'):
        return None
    try:
        rp = json.load(open(ctx['replay']))
    except Exception:      # noqa: BLE001
        return None
    cands = [rp.get('replay')] + [(b.get('first') or {}).get('replay') for b in rp.get('broken', []) if isinstance(b, dict)]
    for c in cands:
        if isinstance(c, dict) and c.get('kind') == 'oset' and c.get('ops'):
            return list(c['ops'])
    return None


def replay_result(ctx):
    ops = replay_ops(ctx)
    real, model, err = both([ops])
    if err:
        return dict(infra_error=err)
    return dict(evaluations=1, distinct_nontrivial=1, rule='replay of one recorded OrderedSet operation sequence',
                samples=[dict(line=line_of(ops), real=real[0], model=model[0])], violations=[],
                disagreements=[] if real[0] == model[0] else [record(ops, real[0], model[0])])


def phase(ctx):
    """the extra phase of the C01 check: dict(evaluations, disagreements, dist) or dict(error)"""
    n = 4000 if ctx['tier'] == 'quick' else 60000
    try:
        ev, dis, dist = explore(ctx['seed'], n, 12 if ctx['tier'] == 'quick' else 20)
    except Exception as e:      # noqa: BLE001
        return dict(error='OrderedSet phase: ' + str(e)[:600])
    return dict(evaluations=ev, disagreements=dis, dist=dist)


def merge_into(res, x):
    """add the phase's counts to the result dict of the C01 check; its disagreements are correspondence breaks of C01"""
    if res.get('infra_error'):
        return res
    if x.get('error'):
        return dict(infra_error=x['error'])
    res['evaluations'] = res.get('evaluations', 0) + x['evaluations']
    # first: check.py files only the first disagreement, and this one is a small sequence that `--replay` can re-run
    res['disagreements'] = x['disagreements'] + list(res.get('disagreements', []))
    res['distribution'] = dict(res.get('distribution', {}), ordered_set=x['dist'])
    res['rule'] = res.get('rule', '') + '; + ' + NOTE
    return res


if __name__ == '__main__':
    if len(sys.argv) == 4 and sys.argv[1] == '--real':
        real_main(sys.argv[2], sys.argv[3])
    else:
        seed = int(sys.argv[1]) if len(sys.argv) > 1 else 1
        n = int(sys.argv[2]) if len(sys.argv) > 2 else 4000
        ev, dis, dist = explore(seed, n)
        print(json.dumps(dict(evaluations=ev, disagreements=dis[:2], distribution=dist), indent=1))
