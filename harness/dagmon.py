"""Implementation-side monitors for the scheduler properties: direct, model-independent checks of
what the real code did on one DAG case (the "search for a concrete failing input")."""
from dagcase import CPU


def derive(case):
    n = len(case['ty'])
    kids = case['kids']
    tid_of = [t for t, _ in case['inst']]
    req_tids = []
    for i in case['req']:
        if tid_of[i] not in req_tids:
            req_tids.append(tid_of[i])

    def cached(t):
        return (not case['bust']) and bool(case['ca'][case['ty'][t]]) and t in case['pre']
    closure = set()
    stack = list(req_tids)
    while stack:
        t = stack.pop()
        if t in closure:
            continue
        closure.add(t)
        if not cached(t):
            stack.extend(kids[t])
    # effective values (loads included)
    val = {}
    for t in sorted(closure):
        f = case['fl'][t]
        if cached(t):
            # loaded, not executed: only the death of the loading worker can fail it
            val[t] = None if (f & 2) else case['pre'][t]
            continue
        reads = [val[d] for d in kids[t]]
        if f & 3 or ((f & 32) and case['ctx'] % 2 == 1) or ((f & 4) and any(r is None for r in reads)):
            val[t] = None
        elif f & 8:
            val[t] = 999999
        else:
            val[t] = 1000 * t + case['ctx'] + sum(7 if r is None else r for r in reads)
    # instances the run must touch: requested objects and the parameters of expanded tasks
    reach = set()
    stack = list(case['req'])
    while stack:
        i = stack.pop()
        if i in reach:
            continue
        reach.add(i)
        if not cached(tid_of[i]):
            stack.extend(case['inst'][i][1])
    mw = case.get('cpu', CPU) if case['mw'] is None else case['mw']
    return dict(n=n, kids=kids, tid_of=tid_of, req_tids=req_tids, cached=cached, closure=closure, val=val,
                reach=reach, mw=mw)


def phase_case(case, rec):
    """the case as seen by one run_tasks call of a (possibly two-call) case"""
    import dagcase
    ph = dagcase.phases_of(case)[rec.get('phase', 0)]
    return dict(case, req=ph['req'], bust=ph['bust'], ctx=ph['ctx'], sched=ph['sched'], cof=ph.get('cof', case['cof']),
                pre=dict(rec.get('store_before', case['pre'])))


def monitor_ext(case, rec):
    """external-writer cases: a task whose result is in the cache when it is SUBMITTED must be loaded, not executed"""
    viol = []
    ev = rec['events']
    executed = {int(l.split(' ')[1]) for l in rec['execs'] if l.startswith('X ')}
    for x, w in case['ext'].items():
        x, w = int(x), int(w)
        bx = next((i for i, e in enumerate(ev) if e[0] == 'B' and e[1] == x), None)
        sw = next((i for i, e in enumerate(ev) if e[0] == 'S' and e[1] == w), None)
        if bx is None or sw is None or sw < bx or x not in executed:
            continue
        if ev[sw][2] != 1 or w in executed:
            viol.append(f'task {w} was cached (by another writer, while task {x} ran) before it was submitted, but it was '
                        f'submitted with use_cache={ev[sw][2]} and {"executed" if w in executed else "not executed"} instead of loaded')
    return viol


def monitor_extdel(case, rec):
    """external-uncache cases (dagcase.gen_extdel_case): another actor removed the entry of task w during the run,
    before w was submitted ('A') or after w had been loaded ('B'). Returns ({property: [violations]}, what happened).
      * C12 / C08: after the run, no entry may be reported by is_cached (or make cached_tasks fail) that does not load;
      * everything the ordinary monitors say about a run whose cache did not hold w when w's turn came ('A': w is
        submitted with use_cache=0, executed, returned with its own value and cached again - C01/C03/C10) or that held it
        until it was loaded ('B': w is loaded, its dependents read the loaded value; afterwards the entry is gone)."""
    w = int(case['extdel'])
    what = (rec.get('extdel') or 'none x').split(' ')
    mode = what[1] if len(what) > 1 and what[1] in 'AB' else None
    case2, rec2 = case, rec
    if mode == 'A':
        case2 = dict(case, pre={t: v for t, v in case['pre'].items() if int(t) != w})
    elif mode == 'B' and w not in rec['store'] and not any(e.startswith('%d:' % w) for e in rec.get('store_errors', [])):
        rec2 = dict(rec, store={**rec['store'], w: case['pre'][w]})     # gone, as the other actor left it
    viol, _ = monitor(case2, rec2)
    viol['C12'], viol['C08'] = [], []
    how = {'A': f'before task {w} was submitted', 'B': f'after task {w} had been loaded', None: 'never'}[mode]
    for err in rec.get('store_errors', []):
        t, cls = err.split(': ')
        msg = (f'after the call the Lab reports task {t} as cached (is_cached) but the entry does not load ({cls}); another actor '
               f'had removed the entry of task {w} during the call, {how}')
        viol['C12'].append(msg + ': an entry that is reported as cached but cannot be loaded was left behind')
        viol['C08'].append(msg)
    if rec.get('listing_error'):
        msg = (f'after the call cached_tasks raises {rec["listing_error"]}; another actor had removed the entry of task {w} '
               f'during the call, {how}')
        viol['C12'].append(msg + ': an entry that cannot be loaded was left behind')
        viol['C08'].append(msg)
    return viol, mode


def monitor_poison(case, rec):
    """torn-entry cases: a task that is cached (however badly) is loaded, not executed"""
    viol = []
    ev = rec['events']
    executed = {int(l.split(' ')[1]) for l in rec['execs'] if l.startswith('X ')}
    for w in case['poison']:
        w = int(w)
        sw = next((e for e in ev if e[0] == 'S' and e[1] == w), None)
        if sw is None:
            continue
        yw = next((e for e in ev if e[0] == 'Y' and e[1] == w), None)
        if sw[2] != 1 or w in executed:
            viol.append(f'task {w} has a (torn) cache entry, yet it was submitted with use_cache={sw[2]} and '
                        f'{"executed" if w in executed else "not executed"} in the same call: loaded AND executed')
        elif yw is not None and yw[2].startswith('ok'):
            viol.append(f'task {w} has a torn cache entry but reported {yw[2]}')
    return viol


def monitor_poison_c02(case, rec):
    """torn-entry cases, C02: whatever the scheduler believed about the cache, no task's run() may be entered (an X
    record) while one of its direct dependencies has not finished (executed or loaded: a Y event) in this call"""
    viol = []
    ev = rec['events']
    kids = case['kids']
    for line in rec['execs']:
        parts = line.split(' ')
        if parts[0] != 'X':
            continue
        t = int(parts[1])
        if not kids[t]:
            continue
        begun = next((i for i, e in enumerate(ev) if e[0] == 'B' and e[1] == t), None)
        if begun is None:
            begun = next((i for i, e in enumerate(ev) if e[0] == 'S' and e[1] == t), len(ev))
        done_before = {e[1] for e in ev[:begun] if e[0] == 'Y'}
        missing = sorted(set(kids[t]) - done_before)
        if missing:
            reads = parts[2] if len(parts) > 2 else ''
            never = sorted(d for d in missing if not any(e[0] == 'Y' and e[1] == d for e in ev))
            viol.append(f'run() of task {t} was entered (it read [{reads}] from its dependencies) although its '
                        f'dependencies {missing} had not finished in this call'
                        + (f' ({never} never ran or loaded at all)' if never else '')
                        + ('; the task has a torn cache entry' if t in [int(w) for w in case.get('poison', [])] else ''))
    return viol


def ref_plain(case):
    """plain sequential dependency-first evaluation with nothing cached"""
    n = len(case['ty'])
    v = [None] * n
    for t in range(n):
        v[t] = 999999 if case['fl'][t] & 8 else 1000 * t + case['ctx'] + sum(v[d] for d in case['kids'][t])
    return v


def monitor(case, rec):
    """returns ({property: [violation strings]}, {property: nontrivial?})"""
    d = derive(case)
    ev = rec['events']
    viol = {p: [] for p in ('C01', 'C02', 'C03', 'C04', 'C05', 'C10', 'C11', 'C17')}
    nt = {p: False for p in viol}
    status = rec['status']
    closure, val, kids, ty = d['closure'], d['val'], d['kids'], case['ty']
    serial = case['be'] == 'serial'
    returned = None
    if rec['returned'] is not None:
        returned = [(t.k, 999999 if v is None else v) for t, v in rec['returned'].items()]

    # ---- the cache as left behind must be loadable
    for err in rec.get('store_errors', []):
        for pid in ('C01', 'C10'):
            viol[pid].append(f'after the call the Lab reports task {err.split(":")[0]} as cached but its entry does not load ({err})')

    # ---- C11 termination
    if status.startswith('HANG'):
        viol['C11'].append('run_tasks did not terminate: ' + status)
    for e in ev:
        if e[0] == 'W' and not e[1] and not e[2]:
            viol['C11'].append('coordinator polls with nothing in flight (spin)')
            break
    nt['C11'] = len(closure) >= 2

    # ---- C01
    all_succeed = all(case['fl'][t] & 3 == 0 and not ((case['fl'][t] & 32) and case['ctx'] % 2 == 1) for t in closure)
    plain = ref_plain(case)
    sound = bool(case['bust']) or all(case['pre'][t] == plain[t] for t in case['pre'] if t in closure)
    if all_succeed and sound and not status.startswith('HANG'):
        want = [(t, plain[t]) for t in d['req_tids']]
        if returned != want:
            viol['C01'].append(f'run_tasks gave {status!r}, plain evaluation gives {want}')
        nt['C01'] = len(closure) >= 2

    # ---- event walk
    yielded = {}      # tid -> outcome string
    submitted = {}    # tid -> use_cache
    active = set()
    first_fail_idx = None
    serial_open = None
    for idx, e in enumerate(ev):
        k = e[0]
        if k == 'S':
            t = e[1]
            if t in submitted:
                viol['C03'].append(f'task {t} submitted twice')
            submitted[t] = e[2]
            active.add(t)
            L = case['mp'][ty[t]]
            cnt = sum(1 for a in active if ty[a] == ty[t])
            if L is not None and cnt > L:
                viol['C04'].append(f'{cnt} tasks of type {ty[t]} in flight, max_parallel={L}')
            if d['cached'](t) != bool(e[2]):
                viol['C03'].append(f'task {t}: cached={d["cached"](t)} but submitted with use_cache={e[2]}')
        elif k == 'B':
            t = e[1]
            if first_fail_idx is not None and not case['cof']:
                viol['C10'].append(f'task {t} started after the failure that aborts the run')
            if not serial:
                if e[2] > d['mw']:
                    viol['C04'].append(f'{e[2]} worker processes alive, max_workers={d["mw"]}')
            else:
                if serial_open is not None:
                    viol['C04'].append(f'serial runner started {t} while {serial_open} was executing')
                serial_open = t
            if not submitted.get(t, 0):
                for dep in kids[t]:
                    if dep not in yielded:
                        viol['C02'].append(f'task {t} started before its dependency {dep} finished')
                if kids[t]:
                    nt['C02'] = True
        elif k == 'Y':
            t = e[1]
            if t in yielded:
                viol['C03'].append(f'task {t} completed twice')
            yielded[t] = e[2]
            active.discard(t)
            if serial_open == t:
                serial_open = None
            if e[2] in ('exc', 'died') and first_fail_idx is None:
                first_fail_idx = idx
        elif k == 'W':
            q, r = e[1], e[2]
            blocked = False
            alive = e[3] if len(e) > 3 else len(r)
            if not serial and q and alive < d['mw']:
                viol['C05'].append(f'{len(q)} tasks queued while only {alive} of {d["mw"]} worker slots hold a live process')
            if not serial and alive > d['mw']:
                viol['C04'].append(f'{alive} live worker processes, max_workers={d["mw"]}')
            if q:
                blocked = True
            for t in sorted(closure):
                if t in submitted:
                    continue
                if all(dep in yielded for dep in set(kids[t])) or d['cached'](t):
                    L = case['mp'][ty[t]]
                    cnt = sum(1 for a in active if ty[a] == ty[t])
                    if L is None or cnt < L:
                        viol['C05'].append(f'task {t} is runnable (type count {cnt}, limit {L}) but was not started before waiting')
                    else:
                        blocked = True
            if blocked:
                nt['C04'] = nt['C05'] = True
        elif k == 'R':
            rem, left = e[1], e[2]
            need = set()
            for dtid, o in yielded.items():
                if not o.startswith('ok'):
                    continue
                for t in closure:
                    if (not d['cached'](t)) and dtid in kids[t] and t not in yielded:
                        need.add(dtid)
            if set(left) != need:
                viol['C17'].append(f'in-memory results {sorted(left)} but still-needed results are {sorted(need)}')
            if left or len(rem) >= 2:
                nt['C17'] = True

    # ---- C17: a result that was released must not be readable through a task object either
    if not rec.get('after_abort'):
        for line in rec.get('indirect', []):
            parts = line.split(' ')
            t = int(parts[1])
            begun = next((i for i, e in enumerate(ev) if e[0] == 'B' and e[1] == t), None)
            if begun is None:
                continue
            done = {e[1]: e[2] for e in ev[:begun] if e[0] == 'Y'}
            for item in parts[2].split(','):
                g = int(item.split(':')[0])
                held = done.get(g, '').startswith('ok') and any(
                    (not d['cached'](u)) and g in kids[u] and u not in done for u in closure)
                if not held:
                    users = sorted(u for u in closure if (not d['cached'](u)) and g in kids[u])
                    viol['C17'].append(
                        f'inside run() of task {t} (which holds task {g} only through a dependency) `.result` of task {g} '
                        f'answered {item.split(":")[1]} although ' + (
                            f'its direct dependents {users} had all finished before task {t} started: the result had been released'
                            if g in done else f'task {g} had not finished'))
        if status.startswith('returned') and rec.get('readable_after'):
            ra = rec['readable_after']
            viol['C17'].append(
                f'after run_tasks returned, `.result` of {len(ra)} task object(s) still answers instead of raising TaskError: '
                + '; '.join(f'task {k} (object {i}) gave {what}' for i, k, what in ra[:4])
                + ': results are still held when nothing needs them')

    # ---- exec records
    counts = {}
    for line in rec['execs']:
        parts = line.split(' ')
        t = int(parts[1])
        counts[t] = counts.get(t, 0) + 1
        if t not in closure:
            viol['C03'].append(f'task {t} is outside the dependency closure but was executed/loaded')
        if parts[0] == 'X':
            if d['cached'](t):
                viol['C03'].append(f'task {t} is cached but was executed')
            reads = parts[2].split(',') if len(parts) > 2 and parts[2] != '' else []
            for j, dep in enumerate(kids[t]):
                got = reads[j] if j < len(reads) else '?'
                o = yielded.get(dep)
                if o is None:
                    if dep not in rec['inflight']:
                        viol['C02'].append(f'task {t} ran although its dependency {dep} never completed')
                    continue
                want = o[3:] if o.startswith('ok:') else '-'
                if got != want:
                    viol['C02'].append(f'task {t} read {got} for dependency {dep}, whose outcome was {o}')
        elif parts[0] == 'L' and not d['cached'](t):
            viol['C03'].append(f'task {t} was loaded although it is not cached (or bust_cache)')
    for t, c in counts.items():
        if c > 1:
            viol['C03'].append(f'task {t} executed/loaded {c} times')
    dup = len({d['tid_of'][i] for i in d['reach']}) < len(d['reach'])
    nt['C03'] = dup or any(d['cached'](t) for t in closure)

    # ---- result_meta marks
    if not status.startswith('HANG'):
        want_marked = sorted(set(i for i in d['reach'] if yielded.get(d['tid_of'][i], '').startswith('ok'))
                             | set(rec.get('marked_before', [])))
        if rec['marked'] != want_marked:
            viol['C03'].append(f'instances with result_meta {rec["marked"]}, expected {want_marked}')

    # ---- C10
    any_fail = any(val[t] is None for t in closure)
    if case['cof']:
        if not status.startswith('returned'):
            if not status.startswith('HANG'):
                viol['C10'].append(f'continue_on_failure run ended with {status!r}')
            elif any_fail:
                viol['C10'].append('a task failed or died and the run never completed: unrelated tasks were not executed/returned')
        else:
            for t in sorted(closure):
                o = yielded.get(t)
                want = ('ok:%d' % val[t]) if val[t] is not None else None
                if o is None:
                    viol['C10'].append(f'task {t} never completed')
                elif want is not None and o != want:
                    viol['C10'].append(f'task {t} is unrelated to any failure but its outcome was {o}, expected {want}')
                elif want is None and o.startswith('ok'):
                    viol['C10'].append(f'task {t} should have failed but reported {o}')
            want_ret = [(t, val[t]) for t in d['req_tids'] if val[t] is not None]
            if returned != want_ret:
                viol['C10'].append(f'returned {returned}, expected {want_ret}')
            want_store = {t: v for t, v in case['pre'].items() if any(tt == t for tt in d['tid_of'])}
            for t in closure:
                if val[t] is not None and case['ca'][ty[t]] and not d['cached'](t):
                    want_store[t] = val[t]
            if rec['store'] != want_store:
                viol['C10'].append(f'cache holds {rec["store"]}, expected {want_store}')
            if status.startswith('returned') and rec['events'] and any(e[0] == 'R' for e in ev):
                last_r = [e for e in ev if e[0] == 'R'][-1]
                if last_r[2]:
                    viol['C17'].append(f'results {last_r[2]} still in memory when run_tasks returned')
    else:
        for t, o in sorted(yielded.items()):
            if o in ('exc', 'died') and t in rec['store'] and t not in case['pre'] and t not in rec['inflight']:
                viol['C10'].append(f'task {t} failed ({o}) yet the cache holds the value {rec["store"][t]} for it')
        if first_fail_idx is not None:
            ft = ev[first_fail_idx][1]
            if status != f'raised LabError {ft}':
                viol['C10'].append(f'fail-fast run ended with {status!r}, expected LabError for task {ft}')
            else:
                cause = rec.get('lab_error_cause')
                o = ev[first_fail_idx][2]
                own = (cause is not None and (cause[0] == 'TypeError' if (case['fl'][ft] & 257) == 257 else
                                              cause[0] == 'ValueError' and f'task {ft} fails' in cause[1]))
                if cause is not None and o == 'exc' and case['fl'][ft] & 33 and not own:
                    viol['C10'].append(f'LabError is not caused by the failing task\'s own exception: __cause__ is {cause[0]}({cause[1]!r})')
        elif not status.startswith('returned') and not status.startswith('HANG'):
            viol['C10'].append(f'no task failed but run ended with {status!r}')
    nt['C10'] = any_fail
    return viol, nt
