"""Same-qualname classes as in `conftasks`, in a different module (C01 / C06 / C07: the module is part of a
task's and of an enum's type).  `conftasks2.Describe(value=4)` and `conftasks.Describe(value=4)` are different
tasks with equal parameter values; run() here returns a string that starts with this module's name, so a
result that was stored for the other module's task is recognisable.  Likewise `Variant` / `ModelA.Variant` are
enum classes with the same qualified names (and member names) as the ones of `conftasks`."""
from enum import Enum
from typing import Any

import labtech

from histtasks import RecJson, RecPickle, log_line

TAG = 'conftasks2:'


class Variant(Enum):
    SMALL = 1
    LARGE = 2


class ModelA:
    class Variant(Enum):
        SMALL = 1
        LARGE = 2


def _run(self):
    from conftasks import reveal
    r = TAG + reveal(self.value)
    log_line(f'X {self.k} {r}')
    return r


@labtech.task(cache=RecPickle())
class Describe:
    value: Any
    k: int = 0
    run = _run


@labtech.task(cache=RecJson())
class DescribeJ:
    value: Any
    k: int = 0
    run = _run


@labtech.task(cache=RecPickle())
class Wrap:
    inner: Any
    k: int = 0

    def run(self):
        r = TAG + 'Wrap<' + self.inner.result + '>'
        log_line(f'X {self.k} {r}')
        return r
