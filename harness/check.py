"""./check <ID> [--tier quick|thorough] [--replay PATH]

One run of a property check (DESIGN.md section 2.3):
  1. regenerate Model/Generated.lean from /repo, `lake build`, forbidden-token grep, axiom audit of
     the property's theorems (Props/<ID>.lean);
  2. corpus + generated cases through the real code and the Lean driver; diff (correspondence);
  3. implementation-side monitors on every real trace (failing-input search);
  4. decide; 5. write evidence/<ID>.json.
Exit 0 = held on everything explored; 1 = VIOLATION line printed; 2 = infrastructure failure.
"""
import argparse
import glob
import importlib
import json
import os
import re
import subprocess
import sys
import tempfile
import time
import traceback

HERE = os.path.dirname(os.path.abspath(__file__))
ROOT = os.path.dirname(HERE)
LEAN = os.path.join(ROOT, 'lean')
REPO = os.environ.get('VERIF_REPO', '/repo')
sys.path.insert(0, HERE)
if REPO != '/repo' or True:
    sys.path.insert(0, REPO)  # the working tree under test is what gets imported

ALLOWED_AXIOMS = {'propext', 'Classical.choice', 'Quot.sound'}
FORBIDDEN = re.compile(r'\bsorry\b|\badmit\b|^\s*axiom\s|native_decide|bv_decide|implemented_by|\bunsafe\s|maxHeartbeats\s+0')

TRUSTED_BASE = [
    "Lean 4.33.0 kernel (theorems in lean/LabtechModel/Props); axioms allowed and audited per theorem: propext, Classical.choice, Quot.sound; no native_decide / bv_decide / own axioms / sorry",
    "the hand-written Lean model's fidelity, checked on every run by the correspondence harness (real code vs compiled Lean driver on the same cases); strength bounded by the generators whose measured distribution is in this file",
    "the Python harness: case generators, canonicalisation, monitors, fake Process/queue layer under the real ProcessExecutor, injectors",
    "Lean compiler/runtime for the driver executable (a miscompilation would surface as a correspondence diff)",
    "modelled, not verified: CPython and stdlib (pickle, json, hashlib, multiprocessing, os.path, shutil), frozendict, fsspec; user code (run, filter_context, post_init) is a deterministic parameter",
    "the ast extractor that regenerates Model/Generated.lean from /repo",
]


def strip_comments(src):
    src = re.sub(r'/-.*?-/', '', src, flags=re.S)
    return re.sub(r'--.*', '', src)


def sh(cmd, cwd=None, timeout=1800):
    p = subprocess.run(cmd, cwd=cwd, stdout=subprocess.PIPE, stderr=subprocess.STDOUT, text=True,
                       stdin=subprocess.DEVNULL, timeout=timeout)
    return p.returncode, p.stdout


def generate_constants():
    import gen_constants
    gen_constants.write(REPO, os.path.join(LEAN, 'LabtechModel', 'Model', 'Generated.lean'))


def lean_obligations(pid):
    """build the property's Props module, audit axioms; returns dict"""
    out = dict(module=f'LabtechModel.Props.{pid}', theorems=[], examples=0, obligations=0, discharged=0,
               build_ok=False, build_log='', axioms={}, forbidden=[], problems=[])
    path = os.path.join(LEAN, 'LabtechModel', 'Props', f'{pid}.lean')
    if not os.path.exists(path):
        out['problems'].append('no Props module')
        return out
    src = strip_comments(open(path).read())
    ns = re.search(r'^namespace\s+(\S+)', src, flags=re.M)
    prefix = (ns.group(1) + '.') if ns else ''
    out['theorems'] = [prefix + m for m in re.findall(r'^\s*theorem\s+(\S+)', src, flags=re.M)]
    out['examples'] = len(re.findall(r'^\s*example\b', src, flags=re.M))
    out['obligations'] = len(out['theorems']) + out['examples']
    # forbidden tokens anywhere in the library
    for f in glob.glob(os.path.join(LEAN, 'LabtechModel', '**', '*.lean'), recursive=True) + [os.path.join(LEAN, 'Main.lean')]:
        for n, line in enumerate(strip_comments(open(f).read()).splitlines(), 1):
            if FORBIDDEN.search(line):
                out['forbidden'].append(f'{os.path.relpath(f, LEAN)}:{n}: {line.strip()[:80]}')
    rc, log = sh(['lake', 'build', out['module'], 'driver'], cwd=LEAN)
    out['build_ok'] = rc == 0
    out['build_log'] = log[-3000:]
    if rc != 0:
        out['problems'].append('lake build failed')
        # is the driver itself still buildable?
        rc2, _ = sh(['lake', 'build', 'driver'], cwd=LEAN)
        out['driver_ok'] = rc2 == 0
        return out
    out['driver_ok'] = True
    with tempfile.NamedTemporaryFile('w', suffix='.lean', delete=False) as f:
        f.write(f'import {out["module"]}\n')
        for t in out['theorems']:
            f.write(f'#print axioms {t}\n')
        tmp = f.name
    try:
        rc, log = sh(['lake', 'env', 'lean', tmp], cwd=LEAN)
    finally:
        os.unlink(tmp)
    if rc != 0:
        out['problems'].append('axiom audit failed to run: ' + log[-500:])
        return out
    for m in re.finditer(r"'(\S+)' depends on axioms: \[([^\]]*)\]", log):
        out['axioms'][m.group(1)] = [a.strip() for a in m.group(2).split(',') if a.strip()]
    for m in re.finditer(r"'(\S+)' does not depend on any axioms", log):
        out['axioms'][m.group(1)] = []
    good = 0
    for t in out['theorems']:
        ax = out['axioms'].get(t)
        if ax is None:
            out['problems'].append(f'{t}: not found by the audit')
        elif not set(ax) <= ALLOWED_AXIOMS:
            out['problems'].append(f'{t}: depends on {ax}')
        else:
            good += 1
    if out['forbidden']:
        out['problems'].append('forbidden tokens: ' + '; '.join(out['forbidden'][:5]))
    out['discharged'] = (good + out['examples']) if not out['forbidden'] else 0
    return out


def load_known():
    return json.load(open(os.path.join(ROOT, 'known_findings.json')))['known']


def write_replay(pid, seed, n, obj):
    d = os.environ.get('VERIF_REPLAY_DIR') or os.path.join(ROOT, 'replays')
    os.makedirs(d, exist_ok=True)
    path = os.path.join(d, f'{pid}-seed{seed}-{n}.json')
    json.dump(obj, open(path, 'w'), indent=1, default=str)
    return path


def main():
    # A shell that starts a command asynchronously without job control (`cmd &` in a script, nohup) hands it SIGINT
    # *ignored*, and Python then installs no KeyboardInterrupt handler - in this process and in every child. The
    # interrupt checks (C12-C14) deliver real SIGINTs to their own children, so restore the terminal's disposition.
    import signal
    if signal.getsignal(signal.SIGINT) == signal.SIG_IGN:
        signal.signal(signal.SIGINT, signal.default_int_handler)
    ap = argparse.ArgumentParser()
    ap.add_argument('pid')
    ap.add_argument('--tier', default=os.environ.get('VERIF_TIER', 'quick'), choices=['quick', 'thorough'])
    ap.add_argument('--replay')
    ap.add_argument('--seed', type=int, default=int(os.environ.get('VERIF_SEED', '1')))
    a = ap.parse_args()
    pid, tier, seed = a.pid, a.tier, a.seed
    t0 = time.time()
    try:
        mod = importlib.import_module('props.' + pid.lower())
    except ModuleNotFoundError:
        print(f'unknown property {pid}')
        return 2
    try:
        generate_constants()
        ob = lean_obligations(pid)
        if tier == 'thorough' and ob['build_ok']:
            rc, log = sh(['lake', 'env', 'leanchecker', ob['module']], cwd=LEAN, timeout=3000)
            ob['leanchecker'] = 'ok' if rc == 0 else ('failed: ' + log[-400:])
            if rc != 0:
                ob['problems'].append('leanchecker rejected the compiled module')
                ob['discharged'] = 0
        if not ob.get('driver_ok'):
            print('driver does not build:\n' + ob['build_log'][-1500:])
        ctx = dict(pid=pid, tier=tier, seed=seed, replay=a.replay, driver_ok=ob.get('driver_ok', False),
                   proof_ok=(ob['obligations'] > 0 and ob['discharged'] == ob['obligations']))
        res = mod.run(ctx)
    except Exception:
        traceback.print_exc()
        print(f'INFRASTRUCTURE FAILURE in check {pid}')
        return 2
    if res.get('infra_error'):
        print('INFRASTRUCTURE FAILURE: ' + str(res['infra_error'])[:2000])
        return 2

    known = [k for k in load_known() if k['property'] == pid]
    lines = []
    new_violations = []
    known_hit = {}
    for v in res.get('violations', []):
        k = next((k for k in known if k['match'] == v.get('known_match')), None)
        if k is not None:
            known_hit[k['id']] = k
        else:
            new_violations.append(v)
    for k in known:
        # a known finding is announced when the check reproduced it (or replays its witness)
        if k['id'] in known_hit:
            lines.append(f"KNOWN-FINDING: property={pid} {k['what_fails']}")
    exit_code = 0
    n = 0
    seen_what = set()
    for v in new_violations:
        key = v['what'][:60]
        if key in seen_what:
            continue
        seen_what.add(key)
        n += 1
        if n > 3:
            break
        path = write_replay(pid, seed, n, dict(property=pid, kind='failing-input', what=v['what'], replay=v.get('replay')))
        lines.append(f'VIOLATION property={pid} replay={path}')
        exit_code = 1
    broken = []
    if not ctx['proof_ok']:
        broken.append(dict(kind='proof', detail=ob['problems'], build_log=ob['build_log'][-1500:]))
    if res.get('disagreements'):
        broken.append(dict(kind='correspondence', count=len(res['disagreements']), first=res['disagreements'][0]))
    if broken and exit_code == 0:
        # the property is no longer shown to hold and the enlarged search found no failing input
        path = write_replay(pid, seed, 0, dict(property=pid, kind='no-failing-input-found', broken=broken,
                                               searched=res.get('evaluations', 0)))
        lines.append(f'VIOLATION property={pid} replay={path} no-failing-input-found')
        exit_code = 1

    cov = dict(
        obligations=ob['obligations'], discharged=ob['discharged'],
        checker_cmd=f"cd lean && lake build {ob['module']} driver && lake env lean <audit: #print axioms of every theorem in Props/{pid}.lean>"
                    + (' && lake env leanchecker ' + ob['module'] if tier == 'thorough' else ''),
        trusted_base=TRUSTED_BASE,
        theorems=ob['theorems'], axioms=ob['axioms'], proof_problems=ob['problems'],
        evaluations=res.get('evaluations', 0), distinct_nontrivial=res.get('distinct_nontrivial', 0),
        rule=res.get('rule', ''), samples=res.get('samples', [])[:4],
        traces_validated_against_impl=res.get('traces_validated', res.get('evaluations', 0)),
        disagreements=len(res.get('disagreements', [])),
        distribution=res.get('distribution', {}),
        known_findings_reproduced=sorted(known_hit),
        explanation=res.get('explanation', ''),
    )
    if 'leanchecker' in ob:
        cov['leanchecker'] = ob['leanchecker']
    ev = dict(property_id=pid, tier=tier, seed=seed, level='proof', coverage=cov,
              assumptions=res.get('assumptions', []), wall_s=round(time.time() - t0, 2),
              violations=len(new_violations) + (1 if (broken and not new_violations) else 0))
    evdir = os.environ.get('VERIF_EVIDENCE_DIR') or os.path.join(ROOT, 'evidence')   # (tools/mutcheck.sh redirects it)
    os.makedirs(evdir, exist_ok=True)
    json.dump(ev, open(os.path.join(evdir, f'{pid}.json'), 'w'), indent=1, default=str)
    for l in lines:
        print(l)
    print(f'{pid} {tier}: obligations {ob["discharged"]}/{ob["obligations"]}, evaluations {cov["evaluations"]}, '
          f'nontrivial {cov["distinct_nontrivial"]}, disagreements {cov["disagreements"]}, '
          f'violations {len(new_violations)}, wall {ev["wall_s"]}s')
    return exit_code


if __name__ == '__main__':
    code = main()
    sys.stdout.flush()
    os._exit(code) if False else sys.exit(code)
