"""Task types for the environment property C16 (importable by really spawned interpreters)."""
import multiprocessing
import os
import sys
import threading

import labtech

MARK = 0  # parent-side module global; the harness mutates it after import


def _observe(self):
    return dict(
        k=self.k, pid=os.getpid(), ppid=os.getppid(),
        main_thread=threading.current_thread() is threading.main_thread(),
        thread_id=threading.get_ident(),
        start_method=multiprocessing.get_start_method(allow_none=True),
        proc_name=multiprocessing.current_process().name,
        mark=MARK,
        context=self.context,
        deps=[d.result['k'] for d in getattr(self, 'deps', ())],
        lab_tag=(self.context or {}).get('lab_tag'),
        parent_main_file=getattr(sys.modules.get('__main__'), '__file__', None),
    )


@labtech.task(cache=None)
class EnvLeaf:
    k: int

    def run(self):
        return _observe(self)


@labtech.task(cache=None)
class EnvSub:
    """context filter: per-parameter subset"""
    k: int
    keys: tuple
    deps: tuple = ()

    def filter_context(self, context):
        return {key: context[key] for key in self.keys if key in context}

    def run(self):
        return _observe(self)


@labtech.task(cache=None)
class EnvCount:
    """context filter that is not idempotent: applying it twice is visible"""
    k: int
    deps: tuple = ()

    def filter_context(self, context):
        return dict(context, depth=context.get('depth', 0) + 1)

    def run(self):
        return _observe(self)


@labtech.task
class EnvCached:
    k: int
    deps: tuple = ()

    def run(self):
        o = _observe(self)
        # the stored value must not depend on the context for the noninterference comparison; it refers to the
        # task object itself (a legal result), so whatever a pickled task carries ends up in the stored entry
        return dict(k=o['k'], deps=o['deps'], produced_by=self)


@labtech.task(cache=None)
class EnvWait:
    """blocks until a flag file exists (two Labs alive at once in one process)"""
    k: int
    wait_for: str
    touch: str

    def run(self):
        import time
        open(self.touch, 'w').close()
        t0 = time.time()
        while not os.path.exists(self.wait_for) and time.time() - t0 < 20:
            time.sleep(0.02)
        return _observe(self)
