"""Task types for the environment property C16 (importable by really spawned interpreters)."""
import multiprocessing
import os
import sys
import threading

import labtech

MARK = 0  # parent-side module global; the harness mutates it after import


def _observe(self):
    return dict(
        k=self.k, pid=os.getpid(), ppid=os.getppid(),
        main_thread=threading.current_thread() is threading.main_thread(),
        thread_id=threading.get_ident(),
        start_method=multiprocessing.get_start_method(allow_none=True),
        proc_name=multiprocessing.current_process().name,
        mark=MARK,
        context=self.context,
        deps=[d.result['k'] for d in getattr(self, 'deps', ())],
        lab_tag=(self.context or {}).get('lab_tag'),
        parent_main_file=getattr(sys.modules.get('__main__'), '__file__', None),
    )


@labtech.task(cache=None)
class EnvLeaf:
    k: int

    def run(self):
        return _observe(self)


@labtech.task(cache=None)
class EnvSub:
    """context filter: per-parameter subset"""
    k: int
    keys: tuple
    deps: tuple = ()

    def filter_context(self, context):
        return {key: context[key] for key in self.keys if key in context}

    def run(self):
        return _observe(self)


@labtech.task(cache=None)
class EnvCount:
    """context filter that is not idempotent: applying it twice is visible"""
    k: int
    deps: tuple = ()

    def filter_context(self, context):
        return dict(context, depth=context.get('depth', 0) + 1)

    def run(self):
        return _observe(self)


@labtech.task
class EnvCached:
    k: int
    deps: tuple = ()

    def run(self):
        o = _observe(self)
        # the stored value must not depend on the context for the noninterference comparison; it refers to the
        # task object itself (a legal result), so whatever a pickled task carries ends up in the stored entry
        return dict(k=o['k'], deps=o['deps'], produced_by=self)


@labtech.task(cache=None)
class EnvWait:
    """blocks until a flag file exists (two Labs alive at once in one process)"""
    k: int
    wait_for: str
    touch: str

    def run(self):
        import time
        open(self.touch, 'w').close()
        t0 = time.time()
        while not os.path.exists(self.wait_for) and time.time() - t0 < 20:
            time.sleep(0.02)
        return _observe(self)


# ---------------------------------------------------------------------------------------------------------------------
# Task types whose filter_context is INHERITED (not defined in the decorated class's own body), or overrides an
# inherited one, or is absent all the way up (identity).  The filter each of them must end up with is written down
# independently in harness/props/c16.py (FILTER_MODEL); nothing here is consulted for the expectation.

class SubsetFilter:
    """plain (undecorated) mixin: per-parameter subset"""

    def filter_context(self, context):
        return {key: context[key] for key in self.keys if key in context}


class DepthFilter:
    """plain mixin with the non-idempotent filter (changes an empty context too)"""

    def filter_context(self, context):
        return dict(context, depth=context.get('depth', 0) + 1)


class PlainBase:
    """plain base class that has nothing to do with contexts"""

    def describe(self):
        return type(self).__name__


class DeepSubsetFilter(SubsetFilter):
    """plain class between the mixin and the task type: the filter comes from a (plain) grandparent"""


@labtech.task(cache=None)
class EnvMixFirst(SubsetFilter, PlainBase):
    """filter from a plain mixin listed BEFORE another base"""
    k: int
    keys: tuple
    deps: tuple = ()

    def run(self):
        return _observe(self)


@labtech.task(cache=None)
class EnvMixLast(PlainBase, SubsetFilter):
    """filter from a plain mixin listed AFTER another base"""
    k: int
    keys: tuple
    deps: tuple = ()

    def run(self):
        return _observe(self)


@labtech.task(cache=None)
class EnvMixGrand(DeepSubsetFilter, PlainBase):
    """filter from a plain grandparent"""
    k: int
    keys: tuple
    deps: tuple = ()

    def run(self):
        return _observe(self)


@labtech.task(cache=None)
class EnvMixDepth(PlainBase, DepthFilter):
    """non-idempotent filter from a plain mixin"""
    k: int
    deps: tuple = ()

    def run(self):
        return _observe(self)


@labtech.task(cache=None)
class EnvSubChild(EnvSub):
    """re-decorated subclass of a task type that defines the filter (run() inherited too)"""
    extra: int = 0


@labtech.task(cache=None)
class EnvSubGrandChild(EnvSubChild):
    """filter from a grandparent task type, through a parent task type"""
    extra2: int = 0

    def run(self):
        return _observe(self)


class EnvSubMid(EnvSub):
    """NOT decorated: plain subclass of a task type, only used as a base"""


@labtech.task(cache=None)
class EnvSubMidChild(EnvSubMid):
    """filter from a grandparent task type, through an undecorated class"""
    extra: int = 0

    def run(self):
        return _observe(self)


@labtech.task(cache=None)
class EnvMixChild(EnvMixFirst):
    """parent task type inherited the filter itself: it comes from the plain mixin two levels up"""
    extra: int = 0


@labtech.task(cache=None)
class EnvCountChild(EnvCount):
    """inherits the non-idempotent filter from its parent task type"""
    extra: int = 0

    def run(self):
        return _observe(self)


@labtech.task(cache=None)
class EnvSubOverride(EnvSub):
    """OVERRIDES the inherited filter: everything EXCEPT the named keys"""
    extra: int = 0

    def filter_context(self, context):
        return {key: value for key, value in context.items() if key not in self.keys}

    def run(self):
        return _observe(self)


@labtech.task(cache=None)
class EnvOverrideChild(EnvSubOverride):
    """inherits the overriding filter (not the grandparent's original one)"""
    extra2: int = 0


@labtech.task(cache=None)
class EnvCountOverride(EnvCount):
    """overrides the inherited non-idempotent filter with another one"""
    extra: int = 0

    def filter_context(self, context):
        return dict(context, depth=context.get('depth', 0) + 10)

    def run(self):
        return _observe(self)


@labtech.task(cache=None)
class EnvLeafChild(EnvLeaf):
    """subclass of a task type that defines no filter: identity"""
    deps: tuple = ()

    def run(self):
        return _observe(self)


@labtech.task(cache=None)
class EnvLeafGrandChild(EnvLeafChild):
    """identity two levels down"""
    extra: int = 0


@labtech.task(cache=None)
class EnvPlainChild(PlainBase):
    """plain base without a filter anywhere: identity"""
    k: int
    deps: tuple = ()

    def run(self):
        return _observe(self)
