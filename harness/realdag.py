"""DAG cases on the REAL backends (really forked / really spawned workers, real SerialRunner), with the
task monitor and progress bars enabled or disabled. No schedule control: the observation is restricted
to what must not depend on the schedule (status for continue_on_failure runs, values, exec records,
cache contents, result_meta marks, wall-clock spans for the limits, termination within a watchdog).
Run as a worker: realdag.py jobs.json out.json  (stdout/stderr to files)."""
import json
import logging
import os
import shutil
import signal
import sys
import tempfile
import time

HERE = os.path.dirname(os.path.abspath(__file__))


class Watchdog(Exception):
    pass


def worker_exists(pid):
    """a live (not zombie, not vanished) process with this pid that is a child of ours"""
    try:
        import psutil
        p = psutil.Process(pid)
        return p.ppid() == os.getpid() and p.status() != psutil.STATUS_ZOMBIE
    except Exception:
        return False


def run_one(case, top, watchdog_s=40):
    import labtech
    import labtech.runners.process as P
    import labtech.runners.serial as S
    from labtech.exceptions import LabError
    from labtech.types import RunnerBackend, ResultMeta, TaskResult
    from datetime import datetime, timedelta
    import dagcase
    import dagtasks
    labtech.logger.setLevel(logging.CRITICAL)
    n = len(case['ty'])
    dagcase.configure_types(case)
    objs = dagcase.build_objects(case)
    wd = tempfile.mkdtemp(prefix='verif-realdag-')
    exec_log = os.path.join(wd, 'exec.log')
    os.environ['VERIF_DAG_REAL'] = '1'
    os.environ['VERIF_DAG_EXEC_LOG'] = exec_log
    dagtasks.EXEC_LOG = exec_log
    dagtasks.REAL = True
    holder = {}

    class Capture(RunnerBackend):
        def __init__(self, kind):
            self.kind = kind

        def build_runner(self, *, context, storage, max_workers):
            cls = {'fork': P.ForkProcessRunner, 'spawn': P.SpawnProcessRunner, 'serial': S.SerialRunner}[self.kind]
            holder['runner'] = cls(context=context, storage=storage, max_workers=max_workers)
            return holder['runner']

    def on_alarm(signum, frame):
        raise Watchdog()
    try:
        lab = labtech.Lab(storage=os.path.join(wd, 'store'), runner_backend=Capture(case['be']), max_workers=case['mw'],
                          continue_on_failure=bool(case['cof']), context={'c': case['ctx']})
        first = {}
        for o in objs:
            first.setdefault(o.k, o)
        for t, v in case['pre'].items():
            o = first.get(int(t))
            if o is not None:
                o._lt.cache.save(lab._storage, o, TaskResult(value=v, meta=ResultMeta(
                    start=datetime(2020, 1, 1), duration=timedelta(seconds=1))))
        req = [objs[i] for i in case['req']]
        signal.signal(signal.SIGALRM, on_alarm)
        signal.alarm(watchdog_s)
        t0 = time.time()
        try:
            ret = lab.run_tasks(req, bust_cache=bool(case['bust']), disable_progress=not top, disable_top=not top)
            status = 'returned ' + ','.join(f'{t.k}:{dagcase.code(v)}' for t, v in ret.items())
        except Watchdog:
            status = 'HANG watchdog after %ds' % watchdog_s
        except LabError as e:
            status = 'raised LabError'
        except BaseException as e:
            status = 'raised ' + type(e).__name__ + ' ' + str(e)[:100]
        finally:
            signal.alarm(0)
        wall = time.time() - t0
        # public observation: once run_tasks has returned no task object of the case answers `.result` any more
        readable_after = dagcase.readable_results(objs)
        time.sleep(0.05)
        lines = [l.rstrip('\n') for l in open(exec_log)] if os.path.exists(exec_log) else []
        execs = sorted(l for l in lines if l[0] in 'XL')
        spans = [l.split(' ') for l in lines if l[0] == 'T']
        # which bodies were entered / left, and (for a run that hung) whose worker process still exists
        entered = {}
        for l in lines:
            if l[0] == 'E':
                entered[int(l.split(' ')[1])] = int(l.split(' ')[2])
        left = sorted({int(l.split(' ')[1]) for l in lines if l[0] == 'Q'})
        alive = []
        if status.startswith('HANG'):
            alive = sorted(k for k, pid in entered.items() if pid != os.getpid() and worker_exists(pid))
            for k in alive:      # the run is abandoned: its workers must not keep a core busy under the next case
                try:
                    os.kill(entered[k], signal.SIGKILL)
                except OSError:
                    pass
        store = {}
        for t, o in sorted(first.items()):
            try:
                if lab.is_cached(o):
                    store[t] = dagcase.code(o._lt.cache.load_result_with_meta(lab._storage, o).value)
            except BaseException as e:     # reported cached but does not load: shows up as a cache that is not the expected one
                store[t] = 'does not load: ' + type(e).__name__
        marked = sorted(i for i, o in enumerate(objs) if o.result_meta is not None)
        runner = holder.get('runner')
        results_left = sorted(t.k for t in runner.results_map) if runner is not None else []
        return dict(status=status, execs=execs, store={str(k): v for k, v in store.items()}, marked=marked,
                    results_left=results_left, wall=round(wall, 3), top=top, readable_after=readable_after,
                    entered=sorted(entered), left=left, alive=alive,
                    spans=[dict(k=int(s[1]), start=float(s[2]), end=float(s[3]), pid=int(s[4]), type=s[5]) for s in spans])
    finally:
        shutil.rmtree(wd, ignore_errors=True)
        # stray workers of a hung run
        try:
            import psutil
            for ch in psutil.Process().children(recursive=True):
                if 'multiprocessing' not in ' '.join(ch.cmdline()[:3]) or True:
                    pass
        except Exception:
            pass


def main():
    sys.path.insert(0, HERE)
    import dagrun
    jobs = json.load(open(sys.argv[1]))
    out = []
    for job in jobs:
        case = dagrun.normalise(job['case'])
        try:
            rec = run_one(case, job['top'])
        except BaseException as e:
            import traceback
            rec = dict(status='HARNESS-ERROR ' + traceback.format_exc()[-500:], execs=[], store={}, marked=[], results_left=[],
                       wall=0, top=job['top'], spans=[], readable_after=[], entered=[], left=[], alive=[])
        rec['index'] = job['index']
        out.append(rec)
        json.dump(out, open(sys.argv[2], 'w'))


if __name__ == '__main__':
    main()
