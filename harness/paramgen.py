"""Parameter-tree cases for C07 / C09 / C15: generator over the raw value grammar, builder of the real
objects, encoder to the driver's line protocol, type-exact printer of real values (the same normal-form
syntax the driver prints), shrinker.

A *spec* is a JSON-able tree (so that replay files can hold it):
  ["none"] ["bool",b] ["int",i] ["float",tok] ["str",s] ["enum",mod,qual,member]
  ["list",[spec..]] ["tuple",[..]] ["dict",[[key,spec]..]] ["fdict",[[key,spec]..]]
      key = ["k",str] | ["x",kind]          (kind names a non-string key)
  ["bad",kind]                               (an unsupported value)
  ["sub",kind,base]                          an instance of a non-Enum SUBCLASS of a scalar type (SUB_KINDS: ptasks.Celsius(float),
                                             ptasks.Label(str), ptasks.Seed(int), numpy.float64, numpy.str_); base = ["float",tok] |
                                             ["str",s] | ["int",i] is the plain value it is == to
      key = .. | ["ks",kind,str]             a dict key that is an instance of a str subclass (ptasks.Label, numpy.str_)
                | ["ke",mod,qual,member]     a dict key that is a member of a str-mixin enum ((str, Enum) / StrEnum)
Towards the Lean model (`words`) a "sub" value is its base scalar and a "ks"/"ke" key is its plain str (`key_str`): json.dumps
writes them so, hence the cache key and what cached_tasks rebuilds.  `show` marks them ('~' + hex of the subclass name);
`strip_marks` removes the marks again (the form the model prints).
  ["task",mod,qual,[[fieldname,spec]..]]     (a constructor call)
"""
import importlib
import json
import math
import re
from enum import Enum

from frozendict import frozendict

from labtech.types import is_task

TASK_TYPES = {
    # (module, qualname): field names
    ('ptasks', 'Leaf'): ['x'], ('ptasks', 'Box'): ['a', 'b'], ('ptasks', 'Exp'): ['p'],
    ('ptasks', 'Experiment'): ['p'], ('ptasks', 'WithPost'): ['p'], ('ptasks', 'NoCache'): ['p'],
    ('ptasks', 'AltT'): ['p'],
    ('ptasks2', 'Leaf'): ['x'], ('ptasks2', 'Box'): ['a', 'b'], ('ptasks2', 'Exp'): ['p'],
    # a type whose identifier has a non-ASCII letter (in two modules), and a type whose cache format has a KEY_PREFIX with
    # characters outside [A-Za-z0-9_] ('pickle-v2 é__'): both are part of the cache key = name of the entry's directory
    ('ptasks', 'Étude'): ['p'], ('ptasks2', 'Étude'): ['p'], ('ptasks', 'Archive'): ['p'],
}
ENUM_TYPES = {
    ('ptasks', 'Color'): ['RED', 'BLUE'], ('ptasks', 'Shade'): ['DARK', 'LIGHT'], ('ptasks2', 'Color'): ['RED', 'BLUE'],
    # int- / str-mixin enums (IntEnum, (int, Enum), StrEnum, (str, Enum)): members are ints / strs too
    ('ptasks', 'Verbosity'): ['QUIET', 'LOUD'], ('ptasks', 'Retries'): ['NONE', 'ONCE'], ('ptasks2', 'Verbosity'): ['QUIET', 'LOUD'],
    ('ptasks', 'Dataset'): ['TRAIN', 'TEST'], ('ptasks', 'Split'): ['TRAIN', 'TEST'], ('ptasks2', 'Dataset'): ['TRAIN', 'TEST'],
    # enum classes nested in holder classes (dotted qualname): same __name__ in two holders and at module level, same
    # qualname in two modules, two levels deep, an int-mixin one
    ('ptasks', 'Variant'): ['SMALL', 'LARGE'], ('ptasks', 'ModelA.Variant'): ['SMALL', 'LARGE'], ('ptasks', 'ModelB.Variant'): ['SMALL', 'LARGE'],
    ('ptasks2', 'ModelA.Variant'): ['SMALL', 'LARGE'], ('ptasks', 'Outer.Inner.Kind'): ['SMALL', 'OTHER'], ('ptasks', 'ModelA.Level'): ['LOW', 'HIGH'],
    # Flag enums: members, combinations ('R|W'), the empty flag and - IntFlag - values without a member ('8', 'A|8');
    # the names are the ones the serialiser writes (D27)
    ('ptasks', 'Perm'): ['R', 'W', 'R|W', 'R|W|X', '0'], ('ptasks', 'Bits'): ['A', 'B', 'A|B', '8', '16', 'A|8', '0'],
}
# the bare value a mixin enum member is an instance of (and Python-equal to), as a spec
MIXIN_VALUE = {}
for _cls in [('ptasks', 'Verbosity'), ('ptasks', 'Retries'), ('ptasks2', 'Verbosity')]:
    MIXIN_VALUE[_cls + ('QUIET' if _cls[1] == 'Verbosity' else 'NONE',)] = ['int', 0]
    MIXIN_VALUE[_cls + ('LOUD' if _cls[1] == 'Verbosity' else 'ONCE',)] = ['int', 1]
MIXIN_VALUE[('ptasks', 'ModelA.Level', 'LOW')] = ['int', 0]
MIXIN_VALUE[('ptasks', 'ModelA.Level', 'HIGH')] = ['int', 1]
for _cls in [('ptasks', 'Dataset'), ('ptasks', 'Split'), ('ptasks2', 'Dataset')]:
    MIXIN_VALUE[_cls + ('TRAIN',)] = ['str', 'train']
    MIXIN_VALUE[_cls + ('TEST',)] = ['str', 'test']
EDGE_INTS = [0, -1, 1, 2, 2 ** 63, -2 ** 63 - 1, 10 ** 30, 255]
EDGE_FLOATS = ['0.0', '-0.0', '1.0', '1e-320', 'Infinity', '-Infinity', '0.1', '1e+22', '-2.5', '1.7976931348623157e+308', '5e-324']
EDGE_STRS = ['', 'a', '1', 'True', 'null', ' ', 'é', 'naïve ☃', '😀', '\u007f', '\x00\x1f', 'line\nbreak\ttab', '"q"', 'back\\slash',
             '{"_is_task": true}', '[1, 2]', '1.0', 'ptasks.Leaf', 'train', 'test', ' ', 'x' * 40, '😀\U00010000', '/', '..']
RESERVED_KEYS = ['_is_task', '_is_enum', '__class__', 'name', 'x', 'p', 'a', 'b', '', 'é', 'k"q', 'cache_key', '_lt']
BAD_KINDS = ['set', 'frozenset', 'bytes', 'object', 'complex', 'range', 'bytearray', 'class', 'func']
KEY_KINDS = ['int', 'none', 'tuple', 'float', 'bytes', 'bool', 'enum']
# non-Enum subclasses of the scalar types: kind -> (base spec tag, how to find the class)
SUB_KINDS = {'Celsius': 'float', 'Label': 'str', 'Seed': 'int'}
try:
    import numpy as _np
    SUB_KINDS.update({'npfloat64': 'float', 'npstr': 'str'})
except ImportError:      # (numpy is an optional extra of the environment)
    _np = None
# The generators draw from the plain Python subclasses only.  numpy scalars do not have a boolean == with sequences
# (numpy.float64(1.0) == (1.0, 2.0) is an array whose truth value raises ValueError, == (1.0,) is a truthy array), so any ==
# between two tasks of one type - the harness's or labtech's own, e.g. check_cycle's `dependency == task` - misbehaves when
# one holds a numpy scalar where the other holds a tuple: numpy's semantics, outside the property.  They appear in the fixed
# constructor calls of `numpy_probes` instead, where no such pair exists.
GEN_SUB_KINDS = ['Celsius', 'Label', 'Seed']
# str-mixin enum members usable as dict keys (they are instances of str)
STR_ENUM_KEYS = sorted(k for k, v in MIXIN_VALUE.items() if v[0] == 'str')


def sub_cls(kind):
    import ptasks
    if kind == 'npfloat64':
        return _np.float64
    if kind == 'npstr':
        return _np.str_
    return getattr(ptasks, kind)


def numpy_probes():
    """fixed constructor calls with numpy scalars (numpy.float64 is a float subclass, numpy.str_ a str subclass) as
    parameters - top level, in lists / dicts / nested tasks of ANOTHER type, as dict keys; [] without numpy.
    (numpy.str_ values do not end in NUL: numpy strips trailing NULs when it unpickles its own scalar.)"""
    if _np is None:
        return []
    f = lambda tok: ['sub', 'npfloat64', ['float', tok]]
    st = lambda x: ['sub', 'npstr', ['str', x]]
    return [
        ['task', 'ptasks', 'Exp', [['p', f('0.5')]]],
        ['task', 'ptasks', 'Experiment', [['p', f('-0.0')]]],
        ['task', 'ptasks2', 'Leaf', [['x', st('a')]]],
        ['task', 'ptasks', 'WithPost', [['p', ['list', [f('1e-320'), f('Infinity'), ['dict', [[['k', 'k'], st('é 😀')]]]]]]]],
        ['task', 'ptasks', 'AltT', [['p', ['dict', [[['ks', 'npstr', 'train'], f('1.7976931348623157e+308')], [['ks', 'npstr', ''], st('')]]]]]],
        ['task', 'ptasks', 'Étude', [['p', ['tuple', [f('1e+22'), ['task', 'ptasks', 'Leaf', [['x', f('2.5')]]]]]]]],
        ['task', 'ptasks', 'Archive', [['p', ['fdict', [[['ke', 'ptasks', 'Split', 'TEST'], ['task', 'ptasks2', 'Exp', [['p', st('line\nbreak')]]]]]]]]],
        ['task', 'ptasks', 'Box', [['a', ['task', 'ptasks', 'Leaf', [['x', f('0.1')]]]], ['b', st('x')]]],
        ['task', 'ptasks', 'NoCache', [['p', ['list', [f('5e-324'), st('1.0')]]]]],
    ]


def key_str(k):
    """the plain str a string-key spec is == to (and is written as by json.dumps)"""
    if k[0] == 'k':
        return k[1]
    if k[0] == 'ks':
        return k[2]
    if k[0] == 'ke':
        return MIXIN_VALUE[(k[1], k[2], k[3])][1]
    raise ValueError(k)


def key_obj(k):
    """the Python object a key spec denotes"""
    if k[0] == 'k':
        return k[1]
    if k[0] == 'ks':
        return sub_cls(k[1])(k[2])
    if k[0] == 'ke':
        return enum_member(cls_of(k[1], k[2]), k[3])
    return _xkey(k[1])


def plain_key(k):
    return ['k', key_str(k)] if k[0] in ('ks', 'ke') else k


def strip_marks(nf):
    """a normal form printed by `show` without the subclass marks: every scalar-subclass instance as its base scalar,
    every str-subclass key as its plain str - the value the Lean model is given"""
    return re.sub(r'~[0-9a-f]*', '', nf) if nf is not None else None


def float_token(x):
    """the token json.dumps prints for a float"""
    if x == math.inf:
        return 'Infinity'
    if x == -math.inf:
        return '-Infinity'
    return float.__repr__(x)


class Gen:
    def __init__(self, rnd, max_depth=4, malformed=0.0, max_width=4, sub_p=0.06, subkey_p=0.1):
        self.r = rnd
        self.max_depth = max_depth
        self.malformed = malformed
        self.max_width = max_width
        self.sub_p = sub_p            # share of scalars that are instances of a non-Enum subclass of float / str / int
        self.subkey_p = subkey_p      # share of dict keys that are instances of a str subclass

    def scalar(self):
        r = self.r
        if self.sub_p and r.random() < self.sub_p:
            return self.sub_scalar()
        return self.plain_scalar()

    def sub_scalar(self):
        r = self.r
        kind = r.choice(GEN_SUB_KINDS)
        while True:
            base = self.plain_scalar()
            if base[0] == SUB_KINDS[kind]:
                break
        return ['sub', kind, base]

    def plain_scalar(self):
        r = self.r
        k = r.randrange(12)
        if k == 0:
            return ['none']
        if k == 1:
            return ['bool', r.random() < 0.5]
        if k in (2, 3):
            return ['int', r.choice(EDGE_INTS) if r.random() < 0.6 else r.randrange(-1000, 1000)]
        if k in (4, 5):
            if r.random() < 0.7:
                return ['float', r.choice(EDGE_FLOATS)]
            return ['float', float_token(r.uniform(-1e6, 1e6) * 10 ** r.randrange(-30, 30))]
        if k in (6, 7):
            if r.random() < 0.7:
                return ['str', r.choice(EDGE_STRS)]
            return ['str', ''.join(chr(r.choice([r.randrange(32, 127), r.randrange(0, 32), r.randrange(128, 0x800),
                                                   r.randrange(0x800, 0xD800), r.randrange(0xE000, 0x10000),
                                                   r.randrange(0x10000, 0x10FFFF)])) for _ in range(r.randrange(0, 6)))]
        (mod, qual), members = r.choice(sorted(ENUM_TYPES.items()))
        return ['enum', mod, qual, r.choice(members)]

    def key(self, used):
        r = self.r
        for _ in range(20):
            if self.subkey_p and r.random() < self.subkey_p and r.random() < 0.6:
                m = r.choice(STR_ENUM_KEYS)
                if MIXIN_VALUE[m][1] not in used:
                    used.add(MIXIN_VALUE[m][1])
                    return ['ke'] + list(m)
                continue
            k = r.choice(RESERVED_KEYS) if r.random() < 0.5 else r.choice(EDGE_STRS + ['k%d' % r.randrange(5)])
            if k not in used:
                used.add(k)
                if self.subkey_p and r.random() < self.subkey_p * 0.4:
                    return ['ks', 'Label', k]
                return ['k', k]
        k = 'u%d' % len(used)
        used.add(k)
        return ['k', k]

    def value(self, depth):
        r = self.r
        if self.malformed and r.random() < self.malformed:
            return ['bad', r.choice(BAD_KINDS)]
        if depth >= self.max_depth or r.random() < (0.15 if depth <= 1 else 0.35):
            return self.scalar()
        k = r.randrange(10)
        if k in (0, 1):
            return [r.choice(['list', 'tuple']), [self.value(depth + 1) for _ in range(self.width())]]
        if k in (2, 3, 4):
            used = set()
            items = []
            xkinds = list(KEY_KINDS)
            for _ in range(self.width()):
                if self.malformed and r.random() < self.malformed and xkinds:
                    key = ['x', xkinds.pop(r.randrange(len(xkinds)))]
                else:
                    key = self.key(used)
                items.append([key, self.value(depth + 1)])
            return [r.choice(['dict', 'fdict']), items]
        if k in (5, 6, 7):
            return self.task(depth + 1)
        return self.scalar()

    def width(self):
        r = self.r
        return 0 if r.random() < 0.15 else r.randrange(1, self.max_width + 1)

    def task(self, depth, types=None):
        (mod, qual), fields = self.r.choice(types or sorted(TASK_TYPES.items()))
        return ['task', mod, qual, [[f, self.value(depth)] for f in fields]]


# ---------------------------------------------------------------- building the real objects

class _Obj:
    pass


def _bad(kind):
    return {'set': lambda: {1, 2}, 'frozenset': lambda: frozenset([1]), 'bytes': lambda: b'xy', 'object': _Obj,
            'complex': lambda: 1j, 'range': lambda: range(2), 'bytearray': lambda: bytearray(b'z'),
            'class': lambda: _Obj, 'func': lambda: len}[kind]()


def _xkey(kind):
    import ptasks
    return {'int': 1, 'none': None, 'tuple': (1, 2), 'float': 2.5, 'bytes': b'k', 'bool': True, 'enum': ptasks.Color.RED}[kind]


def enum_member(cls, name):
    """the member a serialised enum name denotes; for Flag enums also combinations ('R|W'), values without a
    member ('8', 'A|8') and the empty flag ('0')"""
    try:
        return cls[name]
    except KeyError:
        out = cls(0)
        for part in name.split('|'):
            out |= cls[part] if part in cls.__members__ else cls(int(part))
        return out


def enum_name(v):
    """the name the serialiser writes for an enum member (unnamed Flag values are written by value)"""
    return v.name if v.name is not None else str(v.value)


def cls_of(mod, qual):
    """the class `qual` (a qualified name: 'Leaf', 'ModelA.Variant') of module `mod`"""
    obj = importlib.import_module(mod)
    for part in qual.split('.'):
        obj = getattr(obj, part)
    return obj


def model_ref(mod, qual):
    """how a class is named towards the Lean model, whose `ClassRef` is the pair that `rsplit('.', 1)` of the
    serialised class string gives: for a class nested in a holder class (dotted qualname) the holder path is
    written into the module part - ('ptasks', 'ModelA.Variant') is ('ptasks.ModelA', 'Variant').  Both spellings
    serialise to the same string 'ptasks.ModelA.Variant' (which is all the cache key and metadata.json see); the
    import-the-longest-prefix search of deserialize_class is not modelled, the model's registry is asked with the pair."""
    if '.' in qual:
        outer, inner = qual.rsplit('.', 1)
        return mod + '.' + outer, inner
    return mod, qual


def build(spec):
    """the Python object a spec denotes; nested constructor calls may raise (TaskError)"""
    t = spec[0]
    if t == 'none':
        return None
    if t in ('bool', 'int', 'str'):
        return spec[1]
    if t == 'float':
        return float(spec[1])
    if t == 'strcp':
        # a str given by its code points (may hold lone surrogates, which JSON replay files cannot carry as text)
        return ''.join(chr(c) for c in spec[1])
    if t == 'enum':
        return enum_member(cls_of(spec[1], spec[2]), spec[3])
    if t == 'sub':
        return sub_cls(spec[1])(build(spec[2]))
    if t == 'list':
        return [build(s) for s in spec[1]]
    if t == 'tuple':
        return tuple(build(s) for s in spec[1])
    if t in ('dict', 'fdict'):
        d = {}
        for k, v in spec[1]:
            d[key_obj(k)] = build(v)
        return d if t == 'dict' else frozendict(d)
    if t == 'bad':
        return _bad(spec[1])
    if t == 'task':
        return cls_of(spec[1], spec[2])(**{f: build(v) for f, v in spec[3]})
    raise ValueError(spec)


def hx(s):
    return s.encode('utf-8', 'surrogatepass').hex()


def words(spec, out=None):
    """prefix-notation words of the driver protocol"""
    if out is None:
        out = []
    t = spec[0]
    if t == 'none':
        out.append('N')
    elif t == 'bool':
        out.append('B1' if spec[1] else 'B0')
    elif t == 'int':
        out.append('I%d' % spec[1])
    elif t == 'float':
        out.append('F' + spec[1])
    elif t == 'str':
        out.append('S' + hx(spec[1]))
    elif t == 'enum':
        out.append('E%s:%s:%s' % (tuple(hx(x) for x in model_ref(spec[1], spec[2])) + (hx(spec[3]),)))
    elif t == 'sub':
        words(spec[2], out)        # towards the model: the base scalar
    elif t in ('list', 'tuple'):
        out.append(('L' if t == 'list' else 'T') + str(len(spec[1])))
        for s in spec[1]:
            words(s, out)
    elif t in ('dict', 'fdict'):
        out.append(('D' if t == 'dict' else 'Z') + str(len(spec[1])))
        for k, v in spec[1]:
            out.append('K' + hx(key_str(k)) if k[0] != 'x' else 'X')
            words(v, out)
    elif t == 'bad':
        out.append('U')
    elif t == 'task':
        out.append('O%s:%s:%d' % (hx(spec[1]), hx(spec[2]), len(spec[3])))
        for f, v in spec[3]:
            out.append('K' + hx(f))
            words(v, out)
    else:
        raise ValueError(spec)
    return out


# ---------------------------------------------------------------- printing real values, type-exact

def show(v, canon=False):
    """normal-form syntax of the driver, computed from a real object; exact types at every depth
    (`canon`: frozendict items sorted by key, so that dicts differing only in key order print alike)"""
    from dataclasses import fields
    if canon:
        return _show_canon(v)
    if v is None:
        return 'N'
    if type(v) is bool:
        return 'B1' if v else 'B0'
    if type(v) is int:
        return 'I%d' % v
    if type(v) is float:
        return 'F' + float_token(v)
    if type(v) is str:
        return 'S' + hx(v)
    if isinstance(v, Enum):
        return 'E%s:%s:%s' % (tuple(hx(x) for x in model_ref(type(v).__module__, type(v).__qualname__)) + (hx(enum_name(v)),))
    # instances of non-Enum subclasses of float / int / str: the base scalar, marked with the subclass name
    if isinstance(v, float):
        return 'F' + float_token(v) + '~' + hx(type(v).__qualname__)
    if isinstance(v, int):
        return 'I%d' % v + '~' + hx(type(v).__qualname__)
    if isinstance(v, str):
        return 'S' + hx(v) + '~' + hx(type(v).__qualname__)
    if type(v) is tuple:
        return 'T%d(%s)' % (len(v), ','.join(show(i) for i in v))
    if type(v) is frozendict:
        return 'Z%d(%s)' % (len(v), ','.join(_show_key(k) + '=' + show(i) for k, i in v.items()))
    if is_task(v):
        fs = [(f.name, getattr(v, f.name)) for f in fields(v)]
        return 'O%s:%s:%d(%s)' % (hx(type(v).__module__), hx(type(v).__qualname__), len(fs),
                                  ','.join('K%s=%s' % (hx(k), show(i)) for k, i in fs))
    if type(v) is list:
        return 'L%d(%s)' % (len(v), ','.join(show(i) for i in v))
    if type(v) is dict:
        return 'D%d(%s)' % (len(v), ','.join('K%s=%s' % (hx(str(k)), show(i)) for k, i in v.items()))
    return '?' + type(v).__qualname__


def _show_key(k):
    """a dict key: plain str, instance of a str subclass (marked; a (str, Enum) member prints its str VALUE), anything else"""
    if type(k) is str:
        return 'K' + hx(k)
    if isinstance(k, str):
        return 'K' + hx(k) + '~' + hx(type(k).__qualname__)
    return 'X'


def _show_canon(v):
    from dataclasses import fields
    if type(v) is tuple:
        return 'T%d(%s)' % (len(v), ','.join(_show_canon(i) for i in v))
    if type(v) is frozendict:
        return 'Z%d(%s)' % (len(v), ','.join(sorted((_show_key(k) if isinstance(k, str) else 'K' + hx(str(k))) + '=' + _show_canon(i)
                                                    for k, i in v.items())))
    if is_task(v):
        fs = [(f.name, getattr(v, f.name)) for f in fields(v)]
        return 'O%s:%s:%d(%s)' % (hx(type(v).__module__), hx(type(v).__qualname__), len(fs),
                                  ','.join('K%s=%s' % (hx(k), _show_canon(i)) for k, i in fs))
    return show(v)


def json_exact(a, b):
    """type-exact equality of decoded JSON documents (1, 1.0 and True are different; key order matters)"""
    if type(a) is not type(b):
        return False
    if isinstance(a, list):
        return len(a) == len(b) and all(json_exact(x, y) for x, y in zip(a, b))
    if isinstance(a, dict):
        return list(a.keys()) == list(b.keys()) and all(json_exact(a[k], b[k]) for k in a)
    if isinstance(a, float):
        return a == b and math.copysign(1, a) == math.copysign(1, b)
    return a == b


# ---------------------------------------------------------------- facts about specs

def spec_stats(spec, st=None, depth=0):
    st = st if st is not None else dict(nodes=0, depth=0, tasks=0, lists=0, dicts=0, bad=0, xkeys=0, enums=0, strs_nonascii=0, floats=0, empty=0, subs=0, skeys=0)
    st['nodes'] += 1
    st['depth'] = max(st['depth'], depth)
    t = spec[0]
    if t in ('list', 'tuple'):
        st['lists'] += t == 'list'
        st['empty'] += not spec[1]
        for s in spec[1]:
            spec_stats(s, st, depth + 1)
    elif t in ('dict', 'fdict'):
        st['dicts'] += t == 'dict'
        st['empty'] += not spec[1]
        for k, s in spec[1]:
            st['xkeys'] += k[0] == 'x'
            st['skeys'] += k[0] in ('ks', 'ke')
            spec_stats(s, st, depth + 1)
    elif t == 'task':
        st['tasks'] += 1
        for _, s in spec[3]:
            spec_stats(s, st, depth + 1)
    elif t == 'bad':
        st['bad'] += 1
    elif t == 'enum':
        st['enums'] += 1
    elif t == 'float':
        st['floats'] += 1
    elif t == 'sub':
        st['subs'] += 1
        st['floats'] += spec[2][0] == 'float'
    elif t == 'str':
        st['strs_nonascii'] += any(ord(c) > 126 or ord(c) < 32 for c in spec[1])
    return st


def children(spec):
    t = spec[0]
    if t in ('list', 'tuple'):
        return list(spec[1])
    if t in ('dict', 'fdict'):
        return [v for _, v in spec[1]]
    if t == 'task':
        return [v for _, v in spec[3]]
    return []


def shrink_candidates(spec):
    """smaller specs of the same root kind (root task stays a task)"""
    t = spec[0]
    out = []
    if t in ('list', 'tuple'):
        for i in range(len(spec[1])):
            out.append([t, spec[1][:i] + spec[1][i + 1:]])
        for i, s in enumerate(spec[1]):
            for c in shrink_candidates(s) + [x for x in children(s)] + ([['int', 0]] if s != ['int', 0] else []):
                out.append([t, spec[1][:i] + [c] + spec[1][i + 1:]])
    elif t in ('dict', 'fdict'):
        for i in range(len(spec[1])):
            out.append([t, spec[1][:i] + spec[1][i + 1:]])
        for i, (k, s) in enumerate(spec[1]):
            for c in shrink_candidates(s) + [x for x in children(s)] + ([['int', 0]] if s != ['int', 0] else []):
                out.append([t, spec[1][:i] + [[k, c]] + spec[1][i + 1:]])
            if k[0] in ('ks', 'ke'):
                out.append([t, spec[1][:i] + [[plain_key(k), s]] + spec[1][i + 1:]])
    elif t == 'task':
        for i, (f, s) in enumerate(spec[3]):
            for c in shrink_candidates(s) + [x for x in children(s)] + ([['int', 0]] if s != ['int', 0] else []):
                out.append(['task', spec[1], spec[2], spec[3][:i] + [[f, c]] + spec[3][i + 1:]])
    elif t == 'str' and spec[1]:
        out.append(['str', spec[1][:len(spec[1]) // 2]])
    elif t == 'sub':
        out.append(spec[2])
        out += [['sub', spec[1], c] for c in shrink_candidates(spec[2])]
    return out


def shrink(spec, bad, budget=150):
    """greedy: while `bad(spec)` stays true"""
    cur = spec
    steps = 0
    progress = True
    while progress and steps < budget:
        progress = False
        for c in shrink_candidates(cur):
            steps += 1
            if steps > budget:
                break
            try:
                if bad(c):
                    cur = c
                    progress = True
                    break
            except Exception:
                continue
    return cur


def fold_surrogates(spec):
    """the spec with every str written the way json.dumps/json.loads hands it back: a high surrogate
    followed by a low surrogate becomes the astral character they spell (known finding F07c)"""
    if isinstance(spec, list):
        if spec and spec[0] == 'strcp':
            return ['str', ''.join(chr(c) for c in spec[1]).encode('utf-16', 'surrogatepass').decode('utf-16', 'surrogatepass')]
        return [fold_surrogates(x) for x in spec]
    return spec
