# Only active when a coverage measurement of the harness is requested (tools/coverage_all.sh):
# lets coverage.py follow the worker interpreters the checks start.
import os
if os.environ.get('COVERAGE_PROCESS_START'):
    try:
        import coverage
        coverage.process_startup()
    except Exception:
        pass
