"""Shared machinery of the parameter-tree checks (C07, C09, C15): observing the real code on a spec,
asking the Lean driver, fresh-interpreter workers, mutation of specs, known-finding classification."""
import copy
import hashlib
import json
import os
import pickle
import signal
import subprocess
import sys
import tempfile
from dataclasses import fields

from frozendict import frozendict

import paramgen as pg

HERE = os.path.dirname(os.path.abspath(__file__))
KNOWN_F07 = 'dict_param_spells_serialised_task_or_enum'
KNOWN_F07C = 'surrogate_pair_spells_astral_char'


def quiet():
    import logging
    import labtech
    labtech.logger.setLevel(logging.CRITICAL)


# ------------------------------------------------------------------ the real code on one spec

def cache_parts(cls):
    """(is_null, KEY_PREFIX, cache class qualname) of a task type"""
    c = cls._lt.cache
    from labtech.cache import NullCache
    if isinstance(c, NullCache):
        return True, '', type(c).__qualname__
    return False, c.KEY_PREFIX, type(c).__qualname__


def observe(spec):
    """what the real code does with the constructor call `spec`"""
    from labtech.tasks import get_direct_dependencies, get_direct_dependency_instances
    try:
        t = pg.build(spec)
    except BaseException as e:
        return dict(status='err ' + type(e).__name__, task=None)
    try:
        deps = list(get_direct_dependencies(t))
        inst = get_direct_dependency_instances(t)
    except BaseException as e:
        return dict(status='ok', task=t, nf=pg.show(t), deps=['<dependency search raised %s>' % type(e).__name__], key=t.cache_key,
                    pyeq_collapse=False)
    shows = [pg.strip_marks(pg.show(d)) for d in inst]
    # Python's == is coarser than typed equality (1 == True == 1.0): then the OrderedSet merges what the model keeps apart
    pyeq_collapse = len({s for s in shows}) != len(deps)
    return dict(status='ok', task=t, nf=pg.show(t), deps=[pg.show(d) for d in deps], key=t.cache_key,
                pyeq_collapse=pyeq_collapse)


def model_lines(specs):
    import driver
    return driver.run_lines(['NORM ' + ' '.join(pg.words(s)) for s in specs])


def parse_model(line):
    p = line.split(' ')
    if p[0] == 'ok':
        return dict(status='ok', nf=p[1], deps=[] if p[2] == '-' else p[2].split(';'), pre=bytes.fromhex(p[3]))
    return dict(status=line, nf=None, deps=None, pre=None)


def model_key(spec, m):
    """prefix + qualname + '__' + sha1(driver's pre-image)"""
    cls = pg.cls_of(spec[1], spec[2])
    null, prefix, _ = cache_parts(cls)
    if null:
        return 'null'
    return prefix + cls.__qualname__ + '__' + hashlib.sha1(m['pre']).hexdigest()


def compare(spec, real, m):
    """list of differences between the real observation and the model's"""
    out = []
    if real['status'] != m['status']:
        return [f"accept/reject: real {real['status']} model {m['status']}"]
    if real['status'] != 'ok':
        return out
    # (the model is given scalar-subclass instances as their base scalar and str-subclass keys as plain strs: pg.words)
    if pg.strip_marks(real['nf']) != m['nf']:
        out.append('normal form differs')
    if not real['pyeq_collapse'] and [pg.strip_marks(d) for d in real['deps']] != m['deps']:
        out.append('direct dependencies differ')
    if real['key'] != model_key(spec, m):
        out.append(f"cache_key {real['key']} != model {model_key(spec, m)}")
    return out


# ------------------------------------------------------------------ fresh interpreters

def run_worker(specs, hashseed, timeout=120):
    """build every spec in a freshly started interpreter with the given PYTHONHASHSEED;
    returns [(status, nf, key)]"""
    tmp = tempfile.mkdtemp(prefix='verif-pw-')
    try:
        inp, outp, log = (os.path.join(tmp, n) for n in ('in.json', 'out.json', 'log.txt'))
        json.dump(specs, open(inp, 'w'))
        repo = os.environ.get('VERIF_REPO', '/repo')
        env = dict(os.environ, PYTHONHASHSEED=str(hashseed), PYTHONPATH=HERE + os.pathsep + repo)
        with open(log, 'w') as lf:
            p = subprocess.Popen([sys.executable, os.path.join(HERE, 'paramworker.py'), inp, outp], stdout=lf, stderr=lf,
                                 stdin=subprocess.DEVNULL, start_new_session=True, env=env)
            try:
                p.wait(timeout=timeout)
            except subprocess.TimeoutExpired:
                pass
            try:
                os.killpg(p.pid, signal.SIGKILL)
            except ProcessLookupError:
                pass
            p.wait()
        if not os.path.exists(outp):
            raise RuntimeError('parameter worker failed: ' + open(log).read()[-800:])
        return json.load(open(outp))
    finally:
        import shutil
        shutil.rmtree(tmp, ignore_errors=True)


def tasks_inside(t):
    """the task and every task object nested in its parameters, depth first in discovery order"""
    from labtech.tasks import get_direct_dependency_instances
    out = [t]
    for d in get_direct_dependency_instances(t):
        out += tasks_inside(d)
    return out


def start_unpickle_worker(items, hashseed):
    """items: [{spec, key, deps, blobs}] -> a fresh interpreter with its own PYTHONHASHSEED unpickles and checks them"""
    import pickle
    tmp = tempfile.mkdtemp(prefix='verif-px-')
    inp, outp, log = (os.path.join(tmp, n) for n in ('in.pkl', 'out.json', 'log.txt'))
    pickle.dump(items, open(inp, 'wb'))
    repo = os.environ.get('VERIF_REPO', '/repo')
    env = dict(os.environ, PYTHONHASHSEED=str(hashseed), PYTHONPATH=HERE + os.pathsep + repo)
    lf = open(log, 'w')
    p = subprocess.Popen([sys.executable, os.path.join(HERE, 'paramworker.py'), '--unpickle', inp, outp], stdout=lf, stderr=lf,
                         stdin=subprocess.DEVNULL, start_new_session=True, env=env)
    return dict(tmp=tmp, outp=outp, log=log, lf=lf, p=p)


def start_worker(specs, hashseed):
    """non-blocking variant: returns a handle for `finish_worker`"""
    tmp = tempfile.mkdtemp(prefix='verif-pw-')
    inp, outp, log = (os.path.join(tmp, n) for n in ('in.json', 'out.json', 'log.txt'))
    json.dump(specs, open(inp, 'w'))
    repo = os.environ.get('VERIF_REPO', '/repo')
    env = dict(os.environ, PYTHONHASHSEED=str(hashseed), PYTHONPATH=HERE + os.pathsep + repo)
    lf = open(log, 'w')
    p = subprocess.Popen([sys.executable, os.path.join(HERE, 'paramworker.py'), inp, outp], stdout=lf, stderr=lf,
                         stdin=subprocess.DEVNULL, start_new_session=True, env=env)
    return dict(tmp=tmp, outp=outp, log=log, lf=lf, p=p)


def finish_worker(h, timeout=120):
    import shutil
    p = h['p']
    try:
        p.wait(timeout=timeout)
    except subprocess.TimeoutExpired:
        pass
    try:
        os.killpg(p.pid, signal.SIGKILL)
    except ProcessLookupError:
        pass
    p.wait()
    h['lf'].close()
    try:
        if not os.path.exists(h['outp']):
            raise RuntimeError('parameter worker failed: ' + open(h['log']).read()[-800:])
        return json.load(open(h['outp']))
    finally:
        shutil.rmtree(h['tmp'], ignore_errors=True)


# ------------------------------------------------------------------ spec surgery

def paths(spec, here=()):
    """all node paths of a spec"""
    out = [here]
    t = spec[0]
    if t in ('list', 'tuple'):
        for i, s in enumerate(spec[1]):
            out += paths(s, here + (1, i))
    elif t in ('dict', 'fdict'):
        for i, (_, s) in enumerate(spec[1]):
            out += paths(s, here + (1, i, 1))
    elif t == 'task':
        for i, (_, s) in enumerate(spec[3]):
            out += paths(s, here + (3, i, 1))
    return out


def get_at(spec, path):
    for p in path:
        spec = spec[p]
    return spec


def set_at(spec, path, new):
    if not path:
        return new
    spec = copy.deepcopy(spec)
    cur = spec
    for p in path[:-1]:
        cur = cur[p]
    cur[path[-1]] = new
    return spec


def respell(spec, rnd, subs=False):
    """the same parameters with lists/tuples and dicts/frozendicts respelled at random; `subs`: also every instance of a
    scalar subclass replaced by the plain value it is == to, and every str-subclass dict key by the plain str it is == to
    (equal parameters for Python: same ==, same hash)"""
    t = spec[0]
    if t in ('list', 'tuple'):
        return [rnd.choice(['list', 'tuple']), [respell(s, rnd, subs) for s in spec[1]]]
    if t in ('dict', 'fdict'):
        return [rnd.choice(['dict', 'fdict']), [[pg.plain_key(k) if subs else k, respell(s, rnd, subs)] for k, s in spec[1]]]
    if t == 'task':
        return ['task', spec[1], spec[2], [[f, respell(s, rnd, subs)] for f, s in spec[3]]]
    if t == 'sub' and subs:
        return spec[2]
    return spec


def has_subs(spec):
    """does the constructor call hold a scalar-subclass instance or a str-subclass dict key?"""
    if spec[0] == 'sub':
        return True
    if spec[0] in ('dict', 'fdict') and any(k[0] in ('ks', 'ke') for k, _ in spec[1]):
        return True
    return any(has_subs(c) for c in pg.children(spec))


def mutate(spec, rnd):
    """(kind, spec') with spec' a well-formed constructor call that differs from `spec` in exactly one
    place — a scalar's type or value, an enum member or class, a class's module or (prefix-)name, a
    collection's length or key — or None"""
    ps = paths(spec)
    for _ in range(30):
        path = rnd.choice(ps)
        node = get_at(spec, path)
        t = node[0]
        if t in ('int', 'str') and node in pg.MIXIN_VALUE.values() and rnd.random() < 0.5:
            # bare value -> a mixin enum member that is an instance of it (and == it)
            m, q, x = rnd.choice(sorted(k for k, v in pg.MIXIN_VALUE.items() if v == node))
            new = ['enum', m, q, x]
            kind = 'enum-mixin'
        elif t == 'int':
            new = rnd.choice([['bool', bool(node[1])], ['float', pg.float_token(float(node[1]))] if abs(node[1]) < 2 ** 53 else ['str', str(node[1])],
                              ['str', str(node[1])], ['int', node[1] + 1]])
            kind = 'scalar'
        elif t == 'bool':
            new = rnd.choice([['int', int(node[1])], ['bool', not node[1]], ['str', str(node[1])], ['float', '1.0' if node[1] else '0.0']])
            kind = 'scalar'
        elif t == 'float':
            new = rnd.choice([['str', node[1]], ['float', '-0.0' if node[1] == '0.0' else '0.0' if node[1] == '-0.0' else '2.5' if node[1] != '2.5' else '3.5'], ['none']])
            kind = 'scalar'
        elif t == 'str':
            new = rnd.choice([['str', node[1] + ' '], ['str', node[1] + 'é'], ['none'] if node[1] != 'None' else ['int', 0], ['tuple', [node]]])
            kind = 'scalar'
        elif t == 'none':
            new = rnd.choice([['str', 'None'], ['str', 'null'], ['bool', False], ['int', 0], ['tuple', []]])
            kind = 'scalar'
        elif t == 'sub':
            # an instance of a scalar subclass -> another value of the same subclass, or a plain scalar of another type
            inner = mutate(node[2], rnd)
            if inner is None:
                continue
            new = rnd.choice([['sub', node[1], inner[1]] if inner[1][0] == node[2][0] else inner[1], inner[1]])
            kind = 'subclass-scalar'
        elif t == 'enum' and tuple(node[1:]) in pg.MIXIN_VALUE and rnd.random() < 0.7:
            # mixin enum member -> its bare value, or the same-valued member of another mixin enum
            bare = pg.MIXIN_VALUE[tuple(node[1:])]
            others = [['enum', m, q, x] for (m, q, x), v in sorted(pg.MIXIN_VALUE.items()) if v == bare and (m, q, x) != tuple(node[1:])]
            new = rnd.choice([bare] + others)
            kind = 'enum-mixin'
        elif t == 'enum':
            mod, qual, mem = node[1:]
            cands = [['enum', m, q, x] for (m, q), ms in pg.ENUM_TYPES.items() for x in ms if (m, q, x) != (mod, qual, mem)
                     and (x == mem or (m, q) == (mod, qual))]
            new = rnd.choice(cands + [['str', mem]])
            kind = 'enum'
        elif t in ('list', 'tuple'):
            new = rnd.choice([[t, node[1] + [['none']]], [t, node[1][:-1]] if node[1] else [t, [['tuple', []]]], ['fdict', []] if not node[1] else [t, [['tuple', node[1]]]]])
            kind = 'collection'
        elif t in ('dict', 'fdict'):
            if node[1] and rnd.random() < 0.5:
                items = copy.deepcopy(node[1])
                i = rnd.randrange(len(items))
                k = pg.key_str(items[i][0]) + '_'
                if any(pg.key_str(kk) == k for kk, _ in items):
                    continue
                items[i][0] = ['k', k]
                new = [t, items]
            elif len(node[1]) >= 2 and rnd.random() < 0.5:
                new = [t, node[1][1:] + node[1][:1]]   # same items, other order: a different value for labtech's key
            else:
                new = [t, node[1] + [[['k', 'zz_extra'], ['none']]]] if all(pg.key_str(k) != 'zz_extra' for k, _ in node[1]) else None
                if new is None:
                    continue
            kind = 'dict'
        elif t == 'task':
            mod, qual, fs = node[1:]
            same_fields = [(m, q) for (m, q), names in pg.TASK_TYPES.items() if names == [f for f, _ in fs] and (m, q) != (mod, qual)]
            if not same_fields:
                continue
            pref = [(m, q) for m, q in same_fields if q == qual or q.startswith(qual) or qual.startswith(q)]
            m, q = rnd.choice(pref or same_fields)
            new = ['task', m, q, fs]
            kind = 'type-module' if q == qual else ('type-prefix' if (q.startswith(qual) or qual.startswith(q)) else 'type')
        else:
            continue
        if new == node:
            continue
        return kind, set_at(spec, list(path), new)
    return None


def shrink_pair(a, b, bad, budget=120):
    """greedy: flatten subtrees that are identical in both constructor calls (or drop them from both
    collections) while `bad(a, b)` stays true"""
    steps = 0
    progress = True
    while progress and steps < budget:
        progress = False
        for path in sorted(paths(a), key=len):
            if not path:
                continue
            try:
                na, nb = get_at(a, path), get_at(b, path)
            except (IndexError, KeyError, TypeError):
                continue
            if na != nb or na == ['int', 0]:
                continue
            steps += 1
            if steps > budget:
                break
            ca, cb = set_at(a, list(path), ['int', 0]), set_at(b, list(path), ['int', 0])
            try:
                if bad(ca, cb):
                    a, b = ca, cb
                    progress = True
                    break
            except Exception:
                continue
    return a, b


def mixin_groups():
    """constructor calls whose parameter is a mixin enum member, its bare value, or a same-valued member of
    another mixin enum — directly, in a list and in a dict: all different tasks for labtech"""
    out = []
    values = {}
    for k, v in sorted(pg.MIXIN_VALUE.items()):
        values.setdefault(json.dumps(v), [v]).append(['enum'] + list(k))
    for (mod, qual, field) in (('ptasks', 'Exp', 'p'), ('ptasks2', 'Leaf', 'x'), ('ptasks', 'AltT', 'p')):
        for alts in values.values():
            for wrap in (lambda x: x, lambda x: ['list', [x, ['none']]], lambda x: ['dict', [[['k', 'k'], x]]]):
                out.append([['task', mod, qual, [[field, wrap(a)]]] for a in alts])
    return out


def pyeq_respell(spec, rnd, order_only=False):
    """a constructor call whose parameters are Python-equal (==, same hash) to `spec`'s but spelled
    differently for JSON: dict items in another insertion order at every depth and, unless `order_only`,
    numerically equal scalars of another type (0/False/0.0/-0.0, 1/True/1.0, n/n.0) and mixin enum members
    vs their bare value"""
    t = spec[0]
    if t in ('list', 'tuple'):
        return [t, [pyeq_respell(s, rnd, order_only) for s in spec[1]]]
    if t in ('dict', 'fdict'):
        items = [[k, pyeq_respell(s, rnd, order_only)] for k, s in spec[1]]
        rnd.shuffle(items)
        return [t, items]
    if t == 'task':
        return ['task', spec[1], spec[2], [[f, pyeq_respell(s, rnd, order_only)] for f, s in spec[3]]]
    if order_only:
        return spec

    def numeric(v):
        c = [['int', v]]
        if v in (0, 1):
            c += [['bool', bool(v)], ['float', '%d.0' % v]] + ([['float', '-0.0']] if v == 0 else [])
            c += [['enum', m, q, x] for (m, q, x), b in sorted(pg.MIXIN_VALUE.items()) if b == ['int', v]]
        elif abs(v) < 2 ** 53:
            c.append(['float', pg.float_token(float(v))])
        return c
    if t == 'int':
        return rnd.choice(numeric(spec[1]))
    if t == 'bool':
        return rnd.choice(numeric(int(spec[1])))
    if t == 'float':
        x = float(spec[1])
        if x == x and abs(x) < 2 ** 53 and x == int(x):
            return rnd.choice(numeric(int(x)) + [spec])
        return spec
    if t == 'str':
        return rnd.choice([spec] + [['enum', m, q, x] for (m, q, x), b in sorted(pg.MIXIN_VALUE.items()) if b == spec])
    if t == 'enum' and tuple(spec[1:]) in pg.MIXIN_VALUE:
        bare = pg.MIXIN_VALUE[tuple(spec[1:])]
        return rnd.choice([spec, bare] + [['enum', m, q, x] for (m, q, x), b in sorted(pg.MIXIN_VALUE.items()) if b == bare])
    return spec


def ser_truthy(v):
    """truthiness of the *serialised* form of a parameter value, which is what the deserialiser's
    `serialized.get('_is_task', False)` test sees: an enum member or a task serialises to a non-empty
    dict (truthy even for `IntEnum` members whose own value is 0)"""
    from enum import Enum
    from labtech.types import is_task
    if isinstance(v, Enum) or is_task(v):
        return True
    return bool(v)


def flagged_dict_inside(obj):
    """does the real value contain a dict parameter with a truthy `_is_task` / `_is_enum` entry
    (the input class of known finding F07)?"""
    from labtech.types import is_task
    if isinstance(obj, (dict, frozendict)):
        if ser_truthy(obj.get('_is_task', False)) or ser_truthy(obj.get('_is_enum', False)):
            return True
        return any(flagged_dict_inside(v) for v in obj.values())
    if isinstance(obj, (list, tuple)):
        return any(flagged_dict_inside(v) for v in obj)
    if is_task(obj):
        return any(flagged_dict_inside(getattr(obj, f.name)) for f in fields(obj))
    return False


def spec_bad(spec):
    """the property's own reading of 'unsupported parameter value or non-string dict key', at any depth
    (a nested constructor call with such an argument raises too)"""
    t = spec[0]
    if t == 'bad':
        return True
    if t in ('list', 'tuple'):
        return any(spec_bad(s) for s in spec[1])
    if t in ('dict', 'fdict'):
        return any(k[0] == 'x' or spec_bad(s) for k, s in spec[1])
    if t == 'task':
        return any(spec_bad(s) for _, s in spec[3])
    return False


def only_allowed_types(v):
    """no list / dict / anything unsupported at any depth of a real normalised value"""
    from enum import Enum
    from labtech.types import is_task
    # (instances of subclasses of the scalar types are supported values: immutable_param_value tests isinstance)
    if v is None or isinstance(v, (bool, int, float, str)) or isinstance(v, Enum):
        return True
    if type(v) is tuple:
        return all(only_allowed_types(i) for i in v)
    if type(v) is frozendict:
        return all(isinstance(k, str) and only_allowed_types(i) for k, i in v.items())
    if is_task(v):
        return all(only_allowed_types(getattr(v, f.name)) for f in fields(v))
    return False


def usable_protos(spec, protos):
    """pickle protocols 0-2 write a class reference as ASCII text: CPython itself refuses to pickle an instance of a class
    whose name has a non-ASCII letter (ptasks.Étude) with them - a fact about pickle, not about labtech's __getstate__ /
    __setstate__.  Such trees are pickled with protocols >= 3 only."""
    def ascii_names(sp):
        if sp[0] == 'task' and not (sp[1] + sp[2]).isascii():
            return False
        return all(ascii_names(c) for c in pg.children(sp))
    return list(protos) if ascii_names(spec) else [p for p in protos if p >= 3]


def maybe_eq(a, b):
    """a == b between two DIFFERENT generated tasks, for the harness's own bookkeeping (which tasks can share a run_tasks
    call); True when the comparison raises.  numpy scalars compare element-wise with tuples (numpy.float64(1.0) == (1.0, 2.0)
    is an array, whose truth value raises ValueError inside the dataclass ==; == (1.0,) is a truthy array): numpy's
    semantics, not labtech's, so such pairs are just kept apart."""
    try:
        return bool(a == b)
    except Exception:
        return True


def nontrivial(spec):
    st = pg.spec_stats(spec)
    return st['depth'] >= 2 and (st['tasks'] >= 2 or st['enums'] >= 1 or st['lists'] + st['dicts'] >= 1)


def trim(spec, n=400):
    s = json.dumps(spec, ensure_ascii=True)
    return s if len(s) <= n else s[:n] + '…'
