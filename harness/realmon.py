"""Real-backend phase of the scheduler checks: generated small DAG cases on really forked / spawned
workers and the serial runner, monitor on/off. Correspondence on the schedule-independent part of the
observation; monitors per property."""
import json
import os
import random
import shutil
import signal
import subprocess
import sys
import tempfile
import time

import dagcase
import dagmon
import dagtasks

HERE = os.path.dirname(os.path.abspath(__file__))
REPO = os.environ.get('VERIF_REPO', '/repo')


def gen_jobs(seed, n):
    rng = random.Random(seed * 7 + 3)
    out_rng = random.Random(seed * 7 + 5)
    jobs = []
    for i in range(n):
        be = ['fork', 'spawn', 'serial', 'fork'][i % 4]
        c = dagcase.gen_case(rng, max_tids=4 if be == 'spawn' else 6, backend=be)
        c.pop('second', None)
        c.pop('cpu', None)      # real backends use the machine's real CPU count
        c['sched'] = []
        if not c['bust']:
            # on a real backend a worker only "dies" inside run(); a loaded task never gets there
            for t in c['pre']:
                c['fl'][t] &= ~2
        if be != 'serial' and i % 8 == 3:
            # a successful task whose worker process lingers after run() returned: the coordinator must not wait for it
            ok = [t for t in range(len(c['fl'])) if not (c['fl'][t] & 35) and any(tt == t for tt, _ in c['inst'])]
            if ok:
                c['fl'][rng.choice(ok)] |= 128
        # what the task bodies print (real backends capture a worker's stdout/stderr and hand it to the log before the
        # worker reports): nothing, short lines, many lines, ONE very long line without a line break, whitespace only
        for t in range(len(c['fl'])):
            if out_rng.random() < 0.3:
                c['fl'][t] |= out_rng.randrange(1, 8) << dagtasks.OUT_SHIFT
        dagcase.choose_copies(c)     # 6 of 16: the task objects given to run_tasks are pickled / deep-copied copies
        jobs.append(dict(index=i, case=c, top=rng.random() < 0.5))
    # a worker that dies at once next to a quick task, more work queued, task monitor ON: the quick task's result ends
    # the first wait, starting the queued work reaps the dead process, and only then does the monitor sample for the
    # first time (a pid that no longer exists); unrelated tasks must still run and be returned
    li = n + 2
    for be in ('fork', 'spawn'):
        for f in (3, 1, 2):     # the dying task's number selects SIGKILL / exit(0) / exit(1)
            others = [t for t in (1, 2, 3, 4) if t != f] + [0]
            jobs.append(dict(index=li, top=True, lonely=True, case=dict(
                be=be, mw=2, cof=1, bust=0, ty=[0] * 5, mp=[None, None, None], ca=[1, 1, 1],
                fl=[2 if t == f else 0 for t in range(5)], kids=[[] for _ in range(5)], shapes=[[] for _ in range(5)],
                inst=[[t, []] for t in range(5)], req=[f] + others, pre={}, ctx=0, sched=[])))
            li += 1
    # EVERY worker slot is lost to a worker that dies, runnable tasks are queued behind it, task monitor ON and OFF:
    # a dead worker must free its slot (whoever looks at the process in between), the queued tasks must be started
    for be, mw, top in (('fork', 1, True), ('spawn', 1, True), ('fork', 2, True), ('fork', 1, False)):
        nt = mw + 3
        jobs.append(dict(index=li, top=top, slots_lost=True, case=dict(
            be=be, mw=mw, cof=1, bust=0, ty=[0] * nt, mp=[None, None, None], ca=[1, 1, 1],
            fl=[2 if t <= mw else 0 for t in range(nt)], kids=[[] for _ in range(nt)], shapes=[[] for _ in range(nt)],
            inst=[[t, []] for t in range(nt)], req=list(range(nt)), pre={}, ctx=0, sched=[])))
        li += 1
    # chatty tasks: one task per output pattern (dagtasks.OUT_PATTERNS) and a task that depends on all of them
    for be, top in (('fork', False), ('spawn', True), ('serial', False)):
        nt = len(dagtasks.OUT_PATTERNS)
        jobs.append(dict(index=li, top=top, chatty=True, case=dict(
            be=be, mw=3, cof=1, bust=0, ty=[t % 2 for t in range(nt)], mp=[None, 2, None], ca=[1, 0, 1],
            fl=[(t if t else 1) << dagtasks.OUT_SHIFT for t in range(nt)],
            kids=[[] for _ in range(nt - 1)] + [list(range(nt - 1))],
            shapes=[[] for _ in range(nt - 1)] + [[('slot', i) for i in range(nt - 1)]],
            inst=[[t, []] for t in range(nt - 1)] + [[nt - 1, list(range(nt - 1))]], req=[nt - 1, 0], pre={}, ctx=0, sched=[])))
        li += 1
    # task objects that went through pickle / deepcopy (what a worker's result, a user's pickle file hands back), four
    # independent tasks of one type with max_parallel=1, more worker slots than that: the type's limit still holds
    # (the tids are those whose bodies sleep longest: 14-20 ms)
    for be, pk, top in (('fork', 1, False), ('fork', 2, True), ('spawn', 1, False)):
        jobs.append(dict(index=li, top=top, copied=True, case=dict(
            be=be, mw=4, cof=1, bust=0, ty=[0] * 10, mp=[1, None, None], ca=[0, 1, 1], fl=[0] * 10,
            kids=[[] for _ in range(10)], shapes=[[] for _ in range(10)], inst=[[t, []] for t in (1, 3, 6, 9)],
            req=[0, 1, 2, 3], pre={}, ctx=0, sched=[], pk=pk)))
        li += 1
    # very many tasks in one run (queues, counters and displays are exercised far beyond a handful of tasks):
    # WIDE_N independent tasks of two types on really forked workers, displays off and on
    for j, top in enumerate((False, True)):
        jobs.append(dict(index=n + j, case=wide_case(WIDE_N + j, 8), top=top, wide=True))
    return jobs


WIDE_N = 640


def wide_case(n, mw):
    return dict(be='fork', mw=mw, cof=1, bust=0, ty=[k % 2 for k in range(n)], mp=[None, 5, 1], ca=[0, 1, 1], fl=[0] * n,
                kids=[[] for _ in range(n)], shapes=[[] for _ in range(n)], inst=[[k, []] for k in range(n)],
                req=list(range(n)), pre={}, ctx=0, sched=[])


def run_jobs(jobs, workers, timeout):
    tmp = tempfile.mkdtemp(prefix='verif-realmon-')
    procs, out, errors = [], [], []
    try:
        per = [[] for _ in range(workers)]
        for j in jobs:
            per[j['index'] % workers].append(j)
        for w, js in enumerate(per):
            if not js:
                continue
            jp, op = os.path.join(tmp, f'j{w}.json'), os.path.join(tmp, f'o{w}.json')
            json.dump(js, open(jp, 'w'))
            lf = open(os.path.join(tmp, f'l{w}.txt'), 'w')
            env = dict(os.environ, PYTHONPATH=REPO + os.pathsep + HERE, PYTHONHASHSEED=str(w + 11))
            procs.append((w, op, lf, subprocess.Popen([sys.executable, os.path.join(HERE, 'realdag.py'), jp, op],
                                                      stdout=lf, stderr=subprocess.STDOUT, stdin=subprocess.DEVNULL,
                                                      start_new_session=True, env=env, cwd=HERE)))
        deadline = time.time() + timeout
        for w, op, lf, p in procs:
            try:
                p.wait(timeout=max(1, deadline - time.time()))
            except subprocess.TimeoutExpired:
                errors.append(f'real-backend worker {w} timed out')
            try:
                os.killpg(p.pid, signal.SIGKILL)
            except ProcessLookupError:
                pass
            p.wait()
            lf.close()
            if os.path.exists(op):
                out += json.load(open(op))
            else:
                errors.append(f'real-backend worker {w}: no output ' + open(lf.name).read()[-400:])
        return out, errors
    finally:
        shutil.rmtree(tmp, ignore_errors=True)


def max_overlap(spans):
    pts = []
    for s in spans:
        pts.append((s['start'], 1))
        pts.append((s['end'], -1))
    pts.sort(key=lambda x: (x[0], x[1]))
    cur = best = 0
    for _, dlt in pts:
        cur += dlt
        best = max(best, cur)
    return best


def hang_idle_capacity(case, rec, d):
    """C05 on a run that never returned: at the moment the watchdog fired, tasks whose dependencies had all finished
    had never been started although fewer than max_workers worker processes existed and their type was below its
    limit. (Only what the record shows: bodies entered/left, loads, which entered workers still exist. A run that
    is merely slow never gets here - the watchdog is four orders of magnitude above the tasks' durations - and a
    run that hangs with every runnable task started, or with every slot held by a live worker, is C11's alone.)"""
    if not case['cof'] or case['be'] == 'serial' or 'entered' not in rec:
        return []
    closure, kids, ty = d['closure'], d['kids'], case['ty']
    entered, left, alive = set(rec['entered']), set(rec['left']), set(rec['alive'])
    loaded = {int(l.split(' ')[1]) for l in rec['execs'] if l.startswith('L ')}
    started = entered | loaded
    # finished, as far as the coordinator can have seen it: loaded, or entered and the worker process is gone (it
    # reported and exited, or it died). A body that was left but whose worker still exists 40 s later has not reported.
    finished = loaded | (entered - alive)
    waiting = []
    for t in sorted(closure - started):
        if not (d['cached'](t) or all(k in finished for k in kids[t])):
            continue
        L = case['mp'][ty[t]]
        same = sum(1 for a in alive if ty[a] == ty[t])
        if L is None or same < L:
            waiting.append(t)
    if waiting and len(alive) < d['mw']:
        dead = sorted(entered - alive - left)
        return [f'real {case["be"]} run (task monitor {"on" if rec["top"] else "off"}) hung with runnable tasks {waiting} never started '
                f'although only {len(alive)} of {d["mw"]} worker slots hold a live worker'
                + (f' (the workers of tasks {dead} died inside run(); their slots were never reused)' if dead else '')]
    return []


def monitor(case, rec):
    d = dagmon.derive(case)
    v = {p: [] for p in ('C01', 'C02', 'C03', 'C04', 'C05', 'C10', 'C11', 'C17')}
    st = rec['status']
    val, closure, kids = d['val'], d['closure'], d['kids']
    be = case['be']
    if st.startswith('HANG'):
        v['C11'].append(f'real {be} run did not terminate ({st}); monitor display {"on" if rec["top"] else "off"}')
        if any(val[t] is None for t in closure) and case['cof']:
            v['C10'].append(f'real {be} run with a failing/dying task never completed: unrelated tasks were not returned')
        v['C05'] += hang_idle_capacity(case, rec, d)
        return v
    if st.startswith('HARNESS-ERROR'):
        return v
    any_fail = any(val[t] is None for t in closure)
    if any(f & 128 for f in case['fl']) and rec['wall'] > 3.0:
        v['C11'].append(f'real {be} run returned {rec["wall"]}s after start although its tasks take milliseconds: it waited for a worker process that outlives run()')
        if rec['spans'] and max(s['start'] for s in rec['spans']) - min(s['start'] for s in rec['spans']) > 2.5:
            v['C05'].append(f'real {be} run: a runnable task was started {max(s["start"] for s in rec["spans"]) - min(s["start"] for s in rec["spans"]):.1f}s after the first although every task takes milliseconds: the coordinator sat on a finished worker instead of starting queued work')
        dist_note = True
    if case['cof'] or not any_fail:
        want = 'returned ' + ','.join(f'{t}:{val[t]}' for t in d['req_tids'] if val[t] is not None)
        if st != want:
            pid = 'C10' if any_fail else 'C01'
            v[pid].append(f'real {be} run (monitor {"on" if rec["top"] else "off"}) gave {st!r}, expected {want!r}')
        want_store = {str(t): x for t, x in case['pre'].items()}
        for t in closure:
            if val[t] is not None and case['ca'][case['ty'][t]] and not d['cached'](t):
                want_store[str(t)] = val[t]
        if rec['store'] != want_store:
            v['C10' if any_fail else 'C01'].append(f'real {be} run left cache {rec["store"]}, expected {want_store}')
        if rec['results_left']:
            v['C17'].append(f'real {be} run: results {rec["results_left"]} still in the runner when run_tasks returned')
    if st.startswith('returned') and rec.get('readable_after'):
        ra = rec['readable_after']
        v['C17'].append(f'real {be} run: after run_tasks returned, `.result` of {len(ra)} task object(s) still answers instead of '
                        'raising TaskError: ' + '; '.join(f'task {k} (object {i}) gave {what}' for i, k, what in ra[:4])
                        + ': results are still held when nothing needs them')
    counts = {}
    for line in rec['execs']:
        parts = line.split(' ')
        t = int(parts[1])
        counts[t] = counts.get(t, 0) + 1
        if t not in closure:
            v['C03'].append(f'real {be} run executed/loaded task {t} outside the closure')
        if parts[0] == 'X':
            reads = parts[2].split(',') if len(parts) > 2 and parts[2] else []
            want = ['-' if val.get(k) is None else str(val[k]) for k in kids[t]]
            if (case['cof'] or not any_fail) and reads != want:
                v['C02'].append(f'real {be} run: task {t} read {reads} from its dependencies, their outcomes were {want}')
    for t, c in counts.items():
        if c > 1:
            v['C03'].append(f'real {be} run executed/loaded task {t} {c} times')
    spans = rec['spans']
    if be != 'serial':
        ov = max_overlap(spans)
        if ov > d['mw']:
            v['C04'].append(f'real {be} run: {ov} task bodies executing at once, max_workers={d["mw"]}')
    else:
        if max_overlap(spans) > 1:
            v['C04'].append('serial run: two task bodies overlapped')
    for T, L in enumerate(case['mp']):
        if L is not None:
            ov = max_overlap([s for s in spans if s['type'] in dagtasks.type_names(T)])
            if ov > L:
                v['C04'].append(f'real {be} run: {ov} tasks of type {T} executing at once, max_parallel={L}')
    return v


def model_projection(obs):
    keep = []
    for seg in obs.split('; '):
        if seg.startswith(('status=', 'execs=', 'store=', 'marked=')):
            keep.append(seg)
    return '; '.join(keep)


def real_projection(case, rec):
    store = ','.join(f'{t}:{v}' for t, v in sorted(((int(k), v) for k, v in rec['store'].items())))
    return '; '.join(['status=' + rec['status'], 'execs=' + '/'.join(rec['execs']), 'store=' + store,
                      'marked=' + ','.join(str(i) for i in rec['marked'])])


def explore(seed, n, workers=12, timeout=300):
    import driver
    jobs = gen_jobs(seed, n)
    recs, errors = run_jobs(jobs, workers, timeout)
    by = {j['index']: j for j in jobs}
    lines = [dagcase.encode(by[r['index']]['case']) for r in recs]
    model = driver.run_lines(lines) if lines else []
    violations, disagreements = [], []
    dist = {}
    for r, line, m in zip(recs, lines, model):
        case = by[r['index']]['case']
        d = dagmon.derive(case)
        any_fail = any(d['val'][t] is None for t in d['closure'])
        key = 'real_' + case['be'] + ('_top' if r['top'] else '')
        dist[key] = dist.get(key, 0) + 1
        if any(f & 2 for f in case['fl']) and case['be'] != 'serial':
            dist['real_killed_worker'] = dist.get('real_killed_worker', 0) + 1
        if by[r['index']].get('lonely'):
            dist['real_dying_worker_reaped_before_first_monitor_sample'] = dist.get('real_dying_worker_reaped_before_first_monitor_sample', 0) + 1
        if by[r['index']].get('slots_lost'):
            dist['real_every_worker_slot_lost_to_a_dying_worker'] = dist.get('real_every_worker_slot_lost_to_a_dying_worker', 0) + 1
        if any((f >> dagtasks.OUT_SHIFT) & 7 for f in case['fl']):
            dist['real_printing_tasks'] = dist.get('real_printing_tasks', 0) + 1
        if any(dagtasks.OUT_PATTERNS[(f >> dagtasks.OUT_SHIFT) & 7] in ('long', 'long-stderr', 'mixed') for f in case['fl']):
            dist['real_task_prints_40k_chars_on_one_line'] = dist.get('real_task_prints_40k_chars_on_one_line', 0) + 1
        if any(p is not None for p in (case.get('sub') or [])):
            dist['real_redecorated_subclass_type'] = dist.get('real_redecorated_subclass_type', 0) + 1
        if by[r['index']].get('wide'):
            dist['real_run_of_%d_tasks' % len(case['ty'])] = 1
        if case.get('pk'):
            dist['real_task_objects_are_copies'] = dist.get('real_task_objects_are_copies', 0) + 1
        if any(f & 128 for f in case['fl']):
            dist['real_lingering_worker'] = dist.get('real_lingering_worker', 0) + 1
        for pid, vs in monitor(case, r).items():
            for w in vs[:2]:
                violations.append(dict(property=pid, what=w, case=case, line=line, real=real_projection(case, r), top=r['top']))
        if r['status'].startswith(('HANG', 'HARNESS-ERROR')):
            if r['status'].startswith('HARNESS-ERROR'):
                errors.append(r['status'][:300])
            continue
        if case['cof'] or not any_fail:
            a, b = real_projection(case, r), model_projection(m)
            if a != b:
                disagreements.append(dict(line=line, real=a, model=b, diff='real-backend run', case=case))
    return dict(evaluations=len(recs), violations=violations, disagreements=disagreements, dist=dist, errors=errors)
