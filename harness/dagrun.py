"""Exploration of generated DAG cases: real code vs Lean driver (correspondence) + monitors.

`explore(...)` fans the cases out over worker interpreters started with different
PYTHONHASHSEEDs (set iteration order inside TaskState depends on it) and merges their reports.
Run as a script it is one worker: reads a JSON job on argv[1], writes a JSON report to argv[2].
"""
import json
import os
import random
import shutil
import subprocess
import sys
import tempfile
import time

HERE = os.path.dirname(os.path.abspath(__file__))
sys.path.insert(0, HERE)


def first_diff(a, b):
    x, y = a.split('; '), b.split('; ')
    for i in range(max(len(x), len(y))):
        xi = x[i] if i < len(x) else '<end>'
        yi = y[i] if i < len(y) else '<end>'
        if xi != yi:
            return dict(index=i, real=xi, model=yi)
    return None


def worker(job):
    import dagcase
    import dagmon
    import driver
    rng = random.Random(job['seed'])
    only_extdel = job.get('mode') == 'extdel'
    cases = [dagcase.gen_case(rng, max_tids=job['max_tids'], backend=job.get('backend')) for _ in range(0 if only_extdel else job['n'])]
    cases = job.get('corpus', []) + cases
    # another actor UNCACHES a task during the run (before it is submitted / after it was loaded); own generator stream
    rng_x = random.Random(job['seed'] * 31 + 17)
    extdel_cases = []
    for i in range(job['n'] if only_extdel else max(2, job['n'] // 25)):
        c = dagcase.gen_extdel_case(rng_x, variant='AAB'[i % 3], max_tids=max(3, job['max_tids']),
                                    backend=job.get('backend') or ('serial', 'fork', 'spawn', 'fork')[i % 4])
        if c is not None:
            extdel_cases.append(c)
    for _ in range(0 if only_extdel else max(1, job['n'] // 25)):
        c = dagcase.gen_ext_case(rng, max_tids=job['max_tids'], backend=job.get('backend'))
        if c is not None:
            cases.append(c)
        c = dagcase.gen_poison_case(rng, max_tids=job['max_tids'], backend=job.get('backend'))
        if c is not None:
            cases.append(c)
    cases = [normalise(c) for c in cases]
    extdel_cases = [normalise(c) for c in extdel_cases]
    # for 6 of 16 cases the task objects given to run_tasks are pickled / deep-copied COPIES (same model line)
    n_corpus = len(job.get('corpus', []))
    cases = cases[:n_corpus] + [dagcase.choose_copies(c) for c in cases[n_corpus:]] + extdel_cases
    lines = [dagcase.encode(c) for c in cases]
    model = driver.run_lines(lines)
    wd = tempfile.mkdtemp(prefix='verif-dag-')
    rep = dict(evaluations=0, disagreements=[], violations=[], nontrivial={}, dist={}, samples=[],
               hashseed=os.environ.get('PYTHONHASHSEED'))
    dist = rep['dist']

    def bump(k):
        dist[k] = dist.get(k, 0) + 1
    seen = set()
    hangs = 0
    try:
        for c, line, m in zip(cases, lines, model):
            if hangs >= 3:
                bump('skipped_after_three_hangs')     # (each hang costs a watchdog period; three are enough to report)
                continue
            obs, recs = dagcase.run_real(c, wd)
            rec = recs[0]
            rep['evaluations'] += 1
            hangs += sum(1 for r in recs if str(r.get('status', '')).startswith('HANG'))
            if c.get('pk'):
                bump('task_objects_are_copies:' + dagcase.PK_KINDS[c['pk']])
            while dagcase.COPY_FAILED:
                bump('copying_the_task_objects_raised:%s:%s' % dagcase.COPY_FAILED.pop())
            if c.get('ext'):
                # another writer acts during the run: outside the models (CacheStable); property monitor only
                bump('external_writer_cases')
                for v in dagmon.monitor_ext(c, rec):
                    rep['violations'].append(dict(property='C03', what=v, case=c, line=line, real=obs))
                continue
            if c.get('extdel') is not None:
                # another actor removes an entry during the run: outside the models (CacheStable); property monitors only
                viol, mode = dagmon.monitor_extdel(c, rec)
                bump('external_uncache_cases')
                bump('external_uncache:' + {'A': 'entry_removed_before_the_task_was_submitted', 'B': 'entry_removed_after_the_task_was_loaded',
                                            None: 'not_triggered'}[mode])
                for pid, vs in viol.items():
                    for v in vs[:3]:
                        rep['violations'].append(dict(property=pid, what=v, case=c, line=line, real=obs))
                continue
            if c.get('poison'):
                # a torn entry: what a load of it does is C13's subject; here only "cached => loaded, not executed"
                bump('torn_entry_cases')
                for v in dagmon.monitor_poison(c, rec):
                    rep['violations'].append(dict(property='C03', what=v, case=c, line=line, real=obs))
                for v in dagmon.monitor_poison_c02(c, rec):
                    rep['violations'].append(dict(property='C02', what=v, case=c, line=line, real=obs))
                if any(c['kids'][int(w)] for w in c['poison']):
                    bump('torn_entry_of_a_task_with_dependencies')
                continue
            if obs != m:
                rep['disagreements'].append(dict(case=c, line=line, real=obs, model=m, diff=first_diff(obs, m)))
            nt = {}
            for r in recs:
                viol, nt_r = dagmon.monitor(dagmon.phase_case(c, r), r)
                for pid, flag in nt_r.items():
                    nt[pid] = nt.get(pid, False) or flag
                for pid, vs in viol.items():
                    for v in vs[:3]:
                        rep['violations'].append(dict(property=pid, what=('second run: ' if r['phase'] else '') + v,
                                                      case=c, line=line, real=obs))
            if len(recs) > 1:
                bump('two_runs_on_same_objects')
            key = line
            for pid, flag in nt.items():
                if flag and (pid, key) not in seen:
                    seen.add((pid, key))
                    rep['nontrivial'][pid] = rep['nontrivial'].get(pid, 0) + 1
            bump('backend=' + c['be'])
            bump('tids=%d' % len(c['ty']))
            bump('max_workers=%s' % c['mw'])
            bump('status=' + rec['status'].split(' ')[0] + (' ' + rec['status'].split(' ')[1] if rec['status'].startswith('raised') else ''))
            if c['pre']:
                bump('warm_cache')
            if c['bust']:
                bump('bust_cache')
            if any(f & 1 for f in c['fl']):
                bump('has_failing_task')
            if any(f & 2 for f in c['fl']):
                bump('has_dying_task')
            if any(f & 257 == 257 for f in c['fl']):
                bump('has_task_failing_by_bytes_write_to_stdout')
            if any(p is not None for p in (c.get('sub') or [])):
                bump('has_redecorated_subclass_type')
                if any(p is not None and c['mp'][T] != c['mp'][p] for T, p in enumerate(c['sub'])):
                    bump('subclass_type_limit_differs_from_parent')
            if any(r.get('indirect') for r in recs):
                bump('indirect_result_read_answered_while_still_held')
            if len(c['inst']) > len(set(t for t, _ in c['inst'])):
                bump('has_duplicate_objects')
            if len(rep['samples']) < 2:
                rep['samples'].append(dict(line=line, observation=obs[:600]))
    finally:
        shutil.rmtree(wd, ignore_errors=True)
    return rep


def normalise(c):
    """JSON round trip normalisation of a case"""
    c = dict(c)
    c['pre'] = {int(k): v for k, v in c['pre'].items()}
    c['shapes'] = [tuplify(s) for s in c['shapes']]
    c['inst'] = [(t, list(ch)) for t, ch in c['inst']]
    return c


def tuplify(x):
    if isinstance(x, list):
        if len(x) == 2 and x[0] in ('slot', 'scalar', 'list', 'dict') and not isinstance(x[0], list):
            if x[0] == 'dict':
                return ('dict', [(k, tuplify(v)) for k, v in x[1]])
            if x[0] == 'list':
                return ('list', [tuplify(v) for v in x[1]])
            return (x[0], x[1])
        return [tuplify(v) for v in x]
    return x


def explore(*, seed, n_cases, max_tids, workers=12, backend=None, corpus=None, timeout=1500, mode=None):
    """returns the merged report"""
    tmp = tempfile.mkdtemp(prefix='verif-dagrun-')
    per = max(1, (n_cases + workers - 1) // workers)
    procs = []
    try:
        for w in range(workers):
            job = dict(seed=seed * 1000 + w, n=per, max_tids=max_tids, backend=backend, mode=mode,
                       corpus=(corpus or []) if w == 0 else [])
            jp, rp = os.path.join(tmp, f'job{w}.json'), os.path.join(tmp, f'rep{w}.json')
            json.dump(job, open(jp, 'w'))
            env = dict(os.environ, PYTHONHASHSEED=str((seed * 31 + w * 7) % 4294967295), PYTHONPATH=os.environ.get('VERIF_REPO', '/repo') + os.pathsep + HERE)
            lf = open(os.path.join(tmp, f'log{w}.txt'), 'w')
            procs.append((w, rp, lf, subprocess.Popen([sys.executable, os.path.abspath(__file__), jp, rp],
                                                      stdout=lf, stderr=subprocess.STDOUT, stdin=subprocess.DEVNULL,
                                                      start_new_session=True, env=env)))
        merged = dict(evaluations=0, disagreements=[], violations=[], nontrivial={}, dist={}, samples=[],
                      hashseeds=[], worker_errors=[])
        deadline = time.time() + timeout
        for w, rp, lf, p in procs:
            try:
                p.wait(timeout=max(1, deadline - time.time()))
            except subprocess.TimeoutExpired:
                import signal
                os.killpg(p.pid, signal.SIGKILL)
                p.wait()
                merged['worker_errors'].append(f'worker {w} timed out')
                continue
            lf.close()
            if p.returncode != 0 or not os.path.exists(rp):
                merged['worker_errors'].append(f'worker {w} rc={p.returncode}: ' + open(lf.name).read()[-800:])
                continue
            rep = json.load(open(rp))
            merged['evaluations'] += rep['evaluations']
            merged['disagreements'] += rep['disagreements']
            merged['violations'] += rep['violations']
            merged['samples'] += rep['samples'][:1]
            merged['hashseeds'].append(rep['hashseed'])
            for k, v in rep['nontrivial'].items():
                merged['nontrivial'][k] = merged['nontrivial'].get(k, 0) + v
            for k, v in rep['dist'].items():
                merged['dist'][k] = merged['dist'].get(k, 0) + v
        return merged
    finally:
        shutil.rmtree(tmp, ignore_errors=True)


if __name__ == '__main__':
    job = json.load(open(sys.argv[1]))
    rep = worker(job)
    json.dump(rep, open(sys.argv[2], 'w'))
