"""Real SIGINT delivery to real fork/spawn runs at controlled resting points (tasks sleep in run()).
Usage: intr_real.py <backend> <single|double|single_ext|double_block|double_handled_run|double_handled_app> out.json

double_handled_* (driven by the C13 check): the tasks return at once and spend their time inside the SAVE (a result whose
pickling sleeps); both Ctrl-C arrive while the workers are saving, so the second one (ProcessExecutor.stop -> terminate())
delivers SIGTERM mid-save. A raising SIGTERM handler is in force in the workers as far as the user can tell: installed by
the task's own run() (`_run`), or by this "application" before run_tasks and inherited by forked workers (`_app`)."""
import json
import os
import signal
import sys
import tempfile
import threading
import time
import shutil

HERE = os.path.dirname(os.path.abspath(__file__))


def main():
    backend, mode, outp = sys.argv[1], sys.argv[2], sys.argv[3]
    signal.signal(signal.SIGINT, signal.default_int_handler)   # (an inherited SIG_IGN would make every Ctrl-C a no-op)
    signal.signal(signal.SIGTERM, signal.SIG_DFL)              # a defined SIGTERM disposition, whatever was inherited
    signal.pthread_sigmask(signal.SIG_UNBLOCK, {signal.SIGTERM})
    handled = mode.startswith('double_handled')
    import logging
    import labtech
    import rtasks
    labtech.logger.setLevel(logging.CRITICAL)
    wd = tempfile.mkdtemp(prefix='verif-intr-real-')
    rtasks.LOG = os.path.join(wd, 'log')
    os.environ['VERIF_RT_LOG'] = rtasks.LOG
    rec = dict(backend=backend, mode=mode)
    # CPython reports, and then DROPS, an exception raised inside a finalizer / weakref callback / __del__ (here: the
    # KeyboardInterrupt of a SIGINT that happens to be handled while such a callback runs). That instant is not a line
    # boundary of labtech; the run is recorded as such and repeated by the check instead of being judged.
    swallowed = []

    def unraisable(u):
        if isinstance(u.exc_value, KeyboardInterrupt):
            swallowed.append(repr(u.object)[:120])
        else:
            sys.__unraisablehook__(u)
    sys.unraisablehook = unraisable
    rec['swallowed'] = swallowed
    try:
        lab = labtech.Lab(storage=os.path.join(wd, 's'), runner_backend=backend, max_workers=2)
        tasks = [rtasks.Sleeper(k=i, seconds=2.5, block_sigterm=(mode == 'double_block'), external=(mode == 'single_ext')) for i in range(4)]   # 2 run at once, 2 stay queued
        if handled:
            os.environ['VERIF_RT_SLOWSAVE'] = '1'
            if mode == 'double_handled_app':
                signal.signal(signal.SIGTERM, rtasks.exit143)   # the application's graceful-shutdown handler
            tasks = [rtasks.SlowSaver(k=i, seconds=6.0, own_handler=(mode == 'double_handled_run')) for i in range(3)]   # 2 save at once, 1 stays queued
        pid = os.getpid()

        def ctrl_c():
            # what a terminal does: SIGINT to the whole foreground process group (caller AND workers)
            if os.getpgid(0) == pid:
                os.killpg(pid, signal.SIGINT)
            else:
                os.kill(pid, signal.SIGINT)

        sig_times = []

        def fire():
            # resting point: both workers are inside run() (robust against a loaded machine)
            deadline = time.time() + 30
            while time.time() < deadline:
                try:
                    if open(rtasks.LOG).read().count('p' if handled else 's') >= 2:   # (handled: both workers are inside the save)
                        break
                except OSError:
                    pass
                time.sleep(0.02)
            time.sleep(0.2)
            sig_times.append(time.time())
            ctrl_c()
            if mode in ('double', 'double_block') or handled:
                time.sleep(0.25)
                sig_times.append(time.time())
                ctrl_c()
        threading.Thread(target=fire, daemon=True).start()
        t0 = time.time()
        try:
            lab.run_tasks(tasks, disable_progress=True, disable_top=True)
            rec['out'] = 'returned'
        except BaseException as e:
            rec['out'] = type(e).__name__
        signal.signal(signal.SIGINT, signal.SIG_IGN)   # a late signal must not hit the harness itself
        rec['elapsed'] = round(time.time() - (sig_times[0] if sig_times else t0), 2)
        rec['process_group_signal'] = os.getpgid(0) == pid
        if handled:
            signal.signal(signal.SIGTERM, signal.SIG_DFL)
            lines = open(rtasks.LOG).read().split() if os.path.exists(rtasks.LOG) else []
            # the terminated workers may still be unwinding: look at the storage only when they are gone
            deadline = time.time() + 15
            for wp in [int(l[1:]) for l in lines if l[0] == 'w']:
                while time.time() < deadline:
                    try:
                        if open(f'/proc/{wp}/stat').read().rsplit(')', 1)[1].split()[0] in ('Z', 'X'):
                            break      # a zombie (nobody has waited for it yet) has finished executing
                    except OSError:
                        break
                    time.sleep(0.02)
            rec['workers_gone_after'] = round(time.time() - sig_times[-1], 2) if sig_times else None
            lines = open(rtasks.LOG).read().split() if os.path.exists(rtasks.LOG) else []
            rec['started'] = sorted(int(l[1:]) for l in lines if l[0] == 's')
            rec['save_started'] = sorted(int(l[1:]) for l in lines if l[0] == 'p')
            rec['save_resumed'] = sorted(int(l[1:]) for l in lines if l[0] == 'q')
            rec['handler_ran'] = sum(1 for l in lines if l[0] == 'u')
            rec['signals'] = len(sig_times)
            # what a fresh Lab sees: is_cached / cached_tasks / a load of every cached-looking entry
            lab2 = labtech.Lab(storage=os.path.join(wd, 's'), runner_backend='serial', continue_on_failure=True)
            rec['cached'] = [i for i, t in enumerate(tasks) if lab2.is_cached(t)]
            try:
                rec['listed'] = sorted(t.k for t in lab2.cached_tasks([rtasks.SlowSaver]))
            except BaseException as e:
                rec['listed'] = 'raises ' + type(e).__name__
            rec['files'] = {k: sorted(os.listdir(os.path.join(wd, 's', k))) for k in sorted(os.listdir(os.path.join(wd, 's'))) if not k.startswith('.')}
            bad = {}
            for i in rec['cached']:
                try:
                    v = tasks[i]._lt.cache.load_result_with_meta(lab2._storage, tasks[i]).value
                    if getattr(v, 'k', None) != i:
                        bad[i] = 'loads a wrong value'
                except BaseException as e:
                    bad[i] = 'fails to load: ' + type(e).__name__
            rec['unloadable'] = bad
            rec['cached_load_ok'] = not bad
            json.dump(rec, open(outp, 'w'))
            return
        time.sleep(0.3)
        lines = open(rtasks.LOG).read().split() if os.path.exists(rtasks.LOG) else []
        rec['started'] = sorted(int(l[1:]) for l in lines if l[0] == 's')
        rec['finished'] = sorted(int(l[1:]) for l in lines if l[0] == 'f')
        rec['cached'] = [i for i, t in enumerate(tasks) if lab.is_cached(t)]
        ok = []
        for i in rec['cached']:
            try:
                ok.append(tasks[i]._lt.cache.load_result_with_meta(lab._storage, tasks[i]).value == i)
            except BaseException:
                ok.append(False)
        rec['cached_load_ok'] = all(ok)
        # any worker still alive?
        time.sleep(1.2)
        lines2 = open(rtasks.LOG).read().split() if os.path.exists(rtasks.LOG) else []
        rec['finished_later'] = sorted(int(l[1:]) for l in lines2 if l[0] == 'f')
        rec['started_later'] = sorted(int(l[1:]) for l in lines2 if l[0] == 's')
    finally:
        shutil.rmtree(wd, ignore_errors=True)
    json.dump(rec, open(outp, 'w'))


if __name__ == '__main__':
    sys.path.insert(0, HERE)
    main()
