"""Task types used by the reproduction corpus (importable, so that real spawn workers can load them)."""
import os
import sys
import time
from enum import Enum

import labtech


class Color(Enum):
    RED = 1
    BLUE = 2


@labtech.task
class Leaf:
    x: int
    fail: bool = False

    def run(self):
        if self.fail:
            raise ValueError(f'leaf {self.x} fails')
        return self.x * 10


@labtech.task
class Pair:
    a: Leaf
    b: Leaf

    def run(self):
        out = []
        for d in (self.a, self.b):
            try:
                out.append(d.result)
            except Exception as e:
                out.append(type(e).__name__)
        return out


@labtech.task(cache=None)
class Pair2:
    a: Leaf
    b: Leaf

    def run(self):
        return [self.a.result, self.b.result]


@labtech.task
class Agg:
    deps: list
    c: Color = Color.RED

    def run(self):
        return [d.result for d in self.deps]


@labtech.task
class Unpicklable:
    x: int

    def run(self):
        return lambda: 1


@labtech.task
class DictP:
    p: dict

    def run(self):
        return 1


@labtech.task
class TaskP:
    p: Leaf

    def run(self):
        return 2


@labtech.task(cache=None)
class Slow:
    x: int

    def run(self):
        time.sleep(0.2 * self.x)
        return self.x


@labtech.task(cache=None)
class PostInit:
    x: int

    def post_init(self):
        object.__setattr__(self, 'derived', self.x * 2)

    def run(self):
        return self.derived


@labtech.task(cache=None)
class Exits:
    x: int

    def run(self):
        sys.exit(3)


MARK = 'initial'


@labtech.task(cache=None)
class Env:
    x: int

    def run(self):
        import multiprocessing as mp
        return dict(pid=os.getpid(), ppid=os.getppid(),
                    start_method=mp.get_start_method(allow_none=True),
                    mark=MARK, context=self.context)


@labtech.task(cache=None)
class Talk:
    x: int
    flushes: int = 0
    delay: float = 0.0

    def run(self):
        labtech.logger.info(f'LOGMSG {self.x} a')
        time.sleep(self.delay)
        print(f'PRINT {self.x} one')
        for i in range(self.flushes):
            sys.stdout.flush()
        print(f'PRINT {self.x} two')
        labtech.logger.info(f'LOGMSG {self.x} b')
        return self.x


@labtech.task(cache=None)
class BadFilter:
    x: int

    def filter_context(self, context):
        if self.x == 1:
            raise ValueError('bad filter')
        return context

    def run(self):
        return self.x


@labtech.task(cache=None)
class NestedLab:
    """a task whose run() uses a Lab of its own, with the default progress / top displays (D24)"""
    x: int
    inner_backend: str

    def run(self):
        lab = labtech.Lab(storage=None, max_workers=1, runner_backend=self.inner_backend)
        return lab.run_task(Leaf(self.x))
