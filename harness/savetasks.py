"""Task types, result corpus and a second cache format for the save/store properties (C06, C08, C12,
C13). Module-level so that forked / spawned workers and fresh interpreters can import them.

`GEN` selects which *generation* of results run() returns (0 = the earlier save, 1 = the save under
study) so that an overwrite stores a recognisably different value."""
import json
import os

import labtech
from labtech.cache import BaseCache, PickleCache

GEN = 0
EXEC_LOG = None  # path; one line per executed run()

BIG = 70000  # > 64 KiB: pickle protocol 4/5 writes such objects as separate frames / direct writes


def log_exec(line):
    path = EXEC_LOG or os.environ.get('VERIF_SAVE_LOG')   # the env var reaches spawned workers
    if path is not None:
        fd = os.open(path, os.O_WRONLY | os.O_APPEND | os.O_CREAT)
        try:
            os.write(fd, (line + '\n').encode())
        finally:
            os.close(fd)


def _f():  # a module-level function is picklable; lambdas / local closures are not
    return 1


# idx -> (description, builder(gen)); the first GOOD results can be stored by both cache formats
GOOD = {
    0: ('small dict', lambda g: {'a': [1, 2, 'x'], 'gen': g}),
    1: ('scalar', lambda g: 7 + g),
    2: ('multi-frame (3 x 70 kB strings)', lambda g: ['x' * BIG + str(g), 'y' * BIG, 'z' * BIG, g]),
    3: ('nested lists', lambda g: [[g, [g + 1, [g + 2]]], 'é', None, 1.5]),
}
BAD = {
    10: ('unstorable at depth 0', lambda g: (lambda: g)),
    11: ('unstorable at depth 1', lambda g: [g, (lambda: g)]),
    12: ('unstorable at depth 3', lambda g: {'a': [[g, (lambda: g)]]}),
    13: ('multi-frame then unstorable', lambda g: ['x' * BIG + str(g), 'y' * BIG, (lambda: g)]),
}
# an overwrite case first stores GOOD[idx % 10 % 4] with GEN = 0, then tries to store idx with GEN = 1


def make_result(idx, gen):
    if idx in GOOD:
        return GOOD[idx][1](gen)
    if gen == 0:
        return GOOD[idx % 10 % 4][1](0)   # the earlier, successful save of an overwrite case
    return BAD[idx][1](gen)


class JsonCache(BaseCache):
    """A second BaseCache subclass: results as a JSON document wrapped in an object (so that no
    strict prefix of a complete document is itself a complete document)."""
    KEY_PREFIX = 'json__'
    RESULT_FILENAME = 'data.json'

    def save_result(self, storage, task, result):
        data_file = storage.file_handle(task.cache_key, self.RESULT_FILENAME, mode='w')
        with data_file:
            json.dump({'v': result}, data_file)

    def load_result(self, storage, task):
        with storage.file_handle(task.cache_key, self.RESULT_FILENAME, mode='r') as data_file:
            return json.load(data_file)['v']


def _run(self):
    log_exec(f'X {type(self).__name__} {self.idx}')
    return make_result(self.idx, GEN)


@labtech.task(cache=PickleCache())
class PRes:
    idx: int
    run = _run


@labtech.task(cache=JsonCache())
class JRes:
    idx: int
    run = _run


@labtech.task(cache=PickleCache())
class NRes:
    """a task whose post_init() normalises one of its own parameters (documented use of
    object.__setattr__ in post_init): `cache_key` was computed from the parameters as given, so a key
    recomputed later from the task object differs from `task.cache_key`"""
    idx: int
    tag: str = '  Mixed Case  '

    def post_init(self):
        object.__setattr__(self, 'tag', self.tag.strip().lower())

    run = _run


def ctx_result(idx, gen, scale):
    return {'gen': gen, 'scale': scale, 'payload': make_result(idx, gen)}


@labtech.task(cache=PickleCache())
class CRes:
    """a task whose value depends on the Lab context through lookups with defaults"""
    idx: int

    def run(self):
        log_exec(f'X CRes {self.idx}')
        ctx = self.context or {}
        return ctx_result(self.idx, ctx.get('gen', GEN), ctx.get('scale', 1))


KINDS = {'pickle': PRes, 'json': JRes, 'norm': NRes, 'ctx': CRes}
