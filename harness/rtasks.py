"""Sleeping task for the real-signal runs of C14 (importable by spawned interpreters)."""
import os
import time

import labtech

LOG = None


def _log(s):
    path = LOG or os.environ.get('VERIF_RT_LOG')
    fd = os.open(path, os.O_WRONLY | os.O_APPEND | os.O_CREAT)
    try:
        os.write(fd, (s + '\n').encode())
    finally:
        os.close(fd)


@labtech.task
class Sleeper:
    k: int
    seconds: float
    block_sigterm: bool = False
    external: bool = False

    def run(self):
        if self.block_sigterm:
            import signal
            signal.pthread_sigmask(signal.SIG_BLOCK, {signal.SIGTERM})   # a critical section that must not be cut short
        _log(f's{self.k}')
        if self.external:
            # the work is done by a program the task launches and waits for (it inherits the worker's signal dispositions)
            import subprocess
            rc = subprocess.run(['sleep', str(self.seconds)]).returncode
            if rc != 0:
                raise RuntimeError(f'external program ended with {rc}')
        else:
            time.sleep(self.seconds)
        _log(f'f{self.k}')
        return self.k
