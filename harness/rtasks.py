"""Sleeping task for the real-signal runs of C14 (importable by spawned interpreters)."""
import os
import time

import labtech

LOG = None


def _log(s):
    path = LOG or os.environ.get('VERIF_RT_LOG')
    fd = os.open(path, os.O_WRONLY | os.O_APPEND | os.O_CREAT)
    try:
        os.write(fd, (s + '\n').encode())
    finally:
        os.close(fd)


@labtech.task
class Sleeper:
    k: int
    seconds: float

    def run(self):
        _log(f's{self.k}')
        time.sleep(self.seconds)
        _log(f'f{self.k}')
        return self.k
