"""Sleeping task for the real-signal runs of C14 (importable by spawned interpreters)."""
import os
import time

import labtech

LOG = None


def _log(s):
    path = LOG or os.environ.get('VERIF_RT_LOG')
    fd = os.open(path, os.O_WRONLY | os.O_APPEND | os.O_CREAT)
    try:
        os.write(fd, (s + '\n').encode())
    finally:
        os.close(fd)


@labtech.task
class Sleeper:
    k: int
    seconds: float
    block_sigterm: bool = False
    external: bool = False

    def run(self):
        if self.block_sigterm:
            import signal
            signal.pthread_sigmask(signal.SIG_BLOCK, {signal.SIGTERM})   # a critical section that must not be cut short
        _log(f's{self.k}')
        if self.external:
            # the work is done by a program the task launches and waits for (it inherits the worker's signal dispositions)
            import subprocess
            rc = subprocess.run(['sleep', str(self.seconds)]).returncode
            if rc != 0:
                raise RuntimeError(f'external program ended with {rc}')
        else:
            time.sleep(self.seconds)
        _log(f'f{self.k}')
        return self.k


# ---- tasks that spend their time inside the SAVE (C13 end-to-end: double Ctrl-C while saving)
def exit143(signum, frame):
    """the usual graceful-shutdown handler: SIGTERM -> SystemExit, so that cleanup code runs"""
    _log(f'u{os.getpid()}')
    import sys
    sys.exit(143)


class SlowResult:
    """a result whose FIRST pickling (= the save in the worker) blocks for `seconds`: the save is reliably in progress -
    metadata written, result file open - when the worker is terminated"""

    def __init__(self, k, seconds):
        self.k, self.seconds = k, seconds

    def __reduce__(self):
        if self.seconds and os.environ.get('VERIF_RT_SLOWSAVE') == '1':
            seconds, self.seconds = self.seconds, 0
            _log(f'p{self.k}')
            time.sleep(seconds)      # terminated, or interrupted by the handler's SystemExit, here
            _log(f'q{self.k}')
        return (SlowResult, (self.k, 0))


@labtech.task
class SlowSaver:
    k: int
    seconds: float
    own_handler: bool = False

    def run(self):
        if self.own_handler:
            import signal
            signal.signal(signal.SIGTERM, exit143)      # task code that wants its own cleanup to run on termination
        _log(f's{self.k}')
        _log(f'w{os.getpid()}')
        _log(f'f{self.k}')
        return SlowResult(self.k, self.seconds)
