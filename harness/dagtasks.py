"""Task types for generated DAG cases (module-level so that pickled thunks can be re-imported).

A task of tid k holds its dependency task objects somewhere inside `deps` (nested tuples and
frozendicts). run() reads every dependency *object* in discovery order, appends an exec record to
the case's exec log and returns 1000*k + ctx + sum(values read, 7 for a failed read).
mode bits: 1 = run() raises, 2 = worker dies (implemented by the fake process layer),
4 = strict (let the TaskError of a failed dependency read propagate), 8 = the result is None (a legal
value; the model carries it as NONE_CODE), 32 = run() raises iff the Lab context value is odd (a failure
that depends on the call, not on the task), 64 = the raised exception is chained (`raise … from …`), 128 = (real process backends only) the worker
process outlives run() because a non-daemon thread is still busy.
"""
import os

from frozendict import frozendict

import labtech
from labtech.cache import PickleCache
from labtech.exceptions import TaskError
from labtech.types import is_task

NONE_CODE = 999999   # how the model and the observation strings spell a result that is None
MISSING = object()
LINGER_S = 4.0

EXT_HOOK = None   # callable(k): an 'external writer' acting while task k runs (another Lab on the same storage)
EXEC_LOG = None  # path; set by the harness before a case runs (inherited by forked helpers)
REAL = False     # real-backend runs: tasks sleep a little, record wall-clock spans, dying tasks kill themselves


def log_line(line):
    path = EXEC_LOG or os.environ.get('VERIF_DAG_EXEC_LOG')  # a really spawned interpreter has no parent globals
    if path is not None:
        fd = os.open(path, os.O_WRONLY | os.O_APPEND | os.O_CREAT)
        try:
            os.write(fd, (line + '\n').encode())
        finally:
            os.close(fd)


def dep_objects(value):
    """every task object inside a parameter value, left-to-right depth-first (own traversal,
    deliberately not labtech's find_tasks_in_param)"""
    if is_task(value):
        return [value]
    if isinstance(value, (tuple, list)):
        return [t for item in value for t in dep_objects(item)]
    if isinstance(value, (dict, frozendict)):
        return [t for item in value.values() for t in dep_objects(item)]
    return []


class RecPickleCache(PickleCache):
    """PickleCache that records loads in the exec log."""

    def load_result_with_meta(self, storage, task):
        log_line(f'L {task.k}')
        return super().load_result_with_meta(storage, task)


def _run(self):
    import time
    real = REAL or bool(os.environ.get('VERIF_DAG_REAL'))
    if real:
        t_start = time.time()
        if self.mode & 2:
            # the worker dies without reporting: killed outright, a silent exit(0), or exit(1) (by task number)
            import signal
            how = int(os.environ.get('VERIF_DIE_HOW', self.k % 3))
            if how == 0:
                os.kill(os.getpid(), signal.SIGKILL)
            os._exit(0 if how == 1 else 1)
        time.sleep(0.002 * ((self.k * 7) % 11))
        if self.mode & 128:
            # the worker process outlives run(): a non-daemon helper thread is still busy
            import threading
            threading.Thread(target=time.sleep, args=(LINGER_S,)).start()
    if EXT_HOOK is not None:
        EXT_HOOK(self.k)
    reads = []
    for d in dep_objects(self.deps):
        try:
            r = d.result
            reads.append(NONE_CODE if r is None else r)
        except TaskError:
            reads.append(MISSING)
    log_line('X %d %s' % (self.k, ','.join('-' if r is MISSING else str(r) for r in reads)))
    ctx = (self.context or {}).get('c', 0)
    if (self.mode & 1) or ((self.mode & 32) and ctx % 2 == 1):
        if self.mode & 64:
            try:
                raise KeyError('inner cause')
            except KeyError as inner:
                raise ValueError(f'task {self.k} fails') from inner
        raise ValueError(f'task {self.k} fails')
    if (self.mode & 4) and any(r is MISSING for r in reads):
        raise TaskError(f'task {self.k}: a dependency result is unavailable')
    if real:
        log_line('T %d %r %r %d %s' % (self.k, t_start, time.time(), os.getpid(), type(self).__name__))
    if self.mode & 8:
        return None
    return 1000 * self.k + ctx + sum(7 if r is MISSING else r for r in reads)


@labtech.task
class T0:
    k: int
    deps: tuple = ()
    mode: int = 0
    run = _run


@labtech.task
class T1:
    k: int
    deps: tuple = ()
    mode: int = 0
    run = _run


@labtech.task
class T2:
    k: int
    deps: tuple = ()
    mode: int = 0
    run = _run


TYPES = [T0, T1, T2]
