"""Task types for generated DAG cases (module-level so that pickled thunks can be re-imported).

A task of tid k holds its dependency task objects somewhere inside `deps` (nested tuples and
frozendicts). run() reads every dependency *object* in discovery order, appends an exec record to
the case's exec log and returns 1000*k + ctx + sum(values read, 7 for a failed read).
mode bits: 1 = run() raises, 2 = worker dies (implemented by the fake process layer),
4 = strict (let the TaskError of a failed dependency read propagate), 8 = the result is None (a legal
value; the model carries it as NONE_CODE), 32 = run() raises iff the Lab context value is odd (a failure
that depends on the call, not on the task), 64 = the raised exception is chained (`raise … from …`), 128 = (real process backends only) the worker
process outlives run() because a non-daemon thread is still busy.

Harness-only bits (masked out of the line sent to the Lean model, MODEL_BITS; for the model such a task is
just a failing / a succeeding task):
256 = (with bit 1) HOW the task fails: instead of raising itself the body writes a bytes object to sys.stdout - a
TypeError inside run() on every text stream (the worker's LoggerFileProxy, the serial runner's real stdout). Should
the stream accept the write, nothing else in the body fails.
512|1024|2048 = (real backends only) what the body prints before it returns, OUT_PATTERNS[(mode >> 9) & 7].

Type classes: T0, T1, T2 are independent task types. S1, S2 are the classes used when a case declares a type as
a RE-DECORATED SUBCLASS of another type (`case['sub']`): `declare_subtype` builds them the way a user would,
`@labtech.task(cache=..., max_parallel=...) class S1(T0): ...`, and installs them under their module-level name
(so that pickled thunks find them; a really spawned interpreter finds the import-time S1/S2 below, the per-case
configuration travels inside the task's pickled state).

In REAL mode the body also records `E k pid` when run() is entered and `Q k` when it is left (normally or by an
exception; a killed worker leaves none), so that a hung run can be examined: which bodies were executing, which
runnable tasks were never started.
After the X record the body reads `.result` of every task object it holds only INDIRECTLY (a dependency of a direct
dependency) and records those that answered in EXEC_LOG + '.ind' (`G k g:value,...`): the task monitor of C17 flags
an answer for a result that had been released by then.
"""
import os
import sys

from frozendict import frozendict

import labtech
from labtech.cache import PickleCache
from labtech.exceptions import TaskError
from labtech.types import is_task

NONE_CODE = 999999   # how the model and the observation strings spell a result that is None
MISSING = object()
LINGER_S = 4.0

MODEL_BITS = 255     # the mode bits the Lean run model knows
OUT_SHIFT = 9
LONG_LINE = 40961    # longer than any plausible chunking threshold of a stream proxy; no line break in it
OUT_PATTERNS = (None, 'short', 'stderr', 'many', 'long', 'blank', 'mixed', 'long-stderr')

EXT_HOOK = None   # callable(k): an 'external writer' acting while task k runs (another Lab on the same storage)
EXEC_LOG = None  # path; set by the harness before a case runs (inherited by forked helpers)
REAL = False     # real-backend runs: tasks sleep a little, record wall-clock spans, dying tasks kill themselves


def log_line(line, suffix=''):
    path = EXEC_LOG or os.environ.get('VERIF_DAG_EXEC_LOG')  # a really spawned interpreter has no parent globals
    if path is not None:
        fd = os.open(path + suffix, os.O_WRONLY | os.O_APPEND | os.O_CREAT)
        try:
            os.write(fd, (line + '\n').encode())
        finally:
            os.close(fd)


def dep_objects(value):
    """every task object inside a parameter value, left-to-right depth-first (own traversal,
    deliberately not labtech's find_tasks_in_param)"""
    if is_task(value):
        return [value]
    if isinstance(value, (tuple, list)):
        return [t for item in value for t in dep_objects(item)]
    if isinstance(value, (dict, frozendict)):
        return [t for item in value.values() for t in dep_objects(item)]
    return []


class RecPickleCache(PickleCache):
    """PickleCache that records loads in the exec log."""

    def load_result_with_meta(self, storage, task):
        log_line(f'L {task.k}')
        return super().load_result_with_meta(storage, task)


def emit(pattern, k):
    """what a task body prints (real backends): through print and through direct writes, to both streams"""
    if pattern == 'short':
        print(f'task {k} says hello')
    elif pattern == 'stderr':
        print(f'task {k} warns', file=sys.stderr)
        sys.stderr.write('no newline at the end')
    elif pattern == 'many':
        for i in range(400):
            print(f'task {k} line {i} ' + 'x' * (i % 90))      # far more than 32 KiB in all, every line short
    elif pattern == 'long':
        sys.stdout.write('%d:' % k + 'y' * LONG_LINE)           # ONE line, no line break anywhere
    elif pattern == 'long-stderr':
        sys.stderr.write('z' * LONG_LINE)
        sys.stderr.write('\n')
    elif pattern == 'blank':
        for w in ('', ' ', '\n', '\t\n  ', '\r\n'):
            sys.stdout.write(w)
            sys.stderr.write(w)
    elif pattern == 'mixed':
        print(f'task {k}', end='')
        sys.stdout.write('\n\n')
        print('é ∑ 漢 \x00 %s %d', file=sys.stderr)
        sys.stdout.write('w' * LONG_LINE + '\nlast')
        sys.stdout.flush()


def indirect_objects(value):
    """task objects this task holds only through a direct dependency (one level down), de-duplicated by identity"""
    direct = dep_objects(value)
    ids = {id(d) for d in direct}
    out = []
    for d in direct:
        for g in dep_objects(d.deps):
            if id(g) not in ids:
                ids.add(id(g))
                out.append(g)
    return out


def _run(self):
    real = REAL or bool(os.environ.get('VERIF_DAG_REAL'))
    if not real:
        return _body(self, False)
    log_line('E %d %d' % (self.k, os.getpid()))
    try:
        return _body(self, True)
    finally:
        log_line('Q %d' % self.k)


def _body(self, real):
    import time
    if real:
        t_start = time.time()
        if self.mode & 2:
            # the worker dies without reporting: killed outright, a silent exit(0), or exit(1) (by task number)
            import signal
            how = int(os.environ.get('VERIF_DIE_HOW', self.k % 3))
            if how == 0:
                os.kill(os.getpid(), signal.SIGKILL)
            os._exit(0 if how == 1 else 1)
        time.sleep(0.002 * ((self.k * 7) % 11))
        if self.mode & 128:
            # the worker process outlives run(): a non-daemon helper thread is still busy
            import threading
            threading.Thread(target=time.sleep, args=(LINGER_S,)).start()
    if EXT_HOOK is not None:
        EXT_HOOK(self.k)
    reads = []
    for d in dep_objects(self.deps):
        try:
            r = d.result
            reads.append(NONE_CODE if r is None else r)
        except TaskError:
            reads.append(MISSING)
    log_line('X %d %s' % (self.k, ','.join('-' if r is MISSING else str(r) for r in reads)))
    answered = []
    for g in indirect_objects(self.deps):
        try:
            r = g.result
            answered.append('%d:%s' % (g.k, NONE_CODE if r is None else r))
        except Exception:
            pass
    if answered:
        log_line('G %d %s' % (self.k, ','.join(answered)), '.ind')
    ctx = (self.context or {}).get('c', 0)
    fails = bool((self.mode & 1) or ((self.mode & 32) and ctx % 2 == 1))
    if real and (self.mode >> OUT_SHIFT) & 7:
        emit(OUT_PATTERNS[(self.mode >> OUT_SHIFT) & 7], self.k)
    if fails and (self.mode & 256):
        sys.stdout.write(b'raw bytes of task %d' % self.k)    # TypeError: this IS the failure of the task
        fails = False                                         # the stream took it: nothing else fails in this body
    if fails:
        if self.mode & 64:
            try:
                raise KeyError('inner cause')
            except KeyError as inner:
                raise ValueError(f'task {self.k} fails') from inner
        raise ValueError(f'task {self.k} fails')
    if (self.mode & 4) and any(r is MISSING for r in reads):
        raise TaskError(f'task {self.k}: a dependency result is unavailable')
    if real:
        log_line('T %d %r %r %d %s' % (self.k, t_start, time.time(), os.getpid(), type(self).__name__))
    if self.mode & 8:
        return None
    return 1000 * self.k + ctx + sum(7 if r is MISSING else r for r in reads)


@labtech.task
class T0:
    k: int
    deps: tuple = ()
    mode: int = 0
    run = _run


@labtech.task
class T1:
    k: int
    deps: tuple = ()
    mode: int = 0
    run = _run


@labtech.task
class T2:
    k: int
    deps: tuple = ()
    mode: int = 0
    run = _run


@labtech.task
class S1(T0):
    run = _run


@labtech.task
class S2(T0):
    run = _run


TYPES = [T0, T1, T2]
BASE_TYPES = (T0, T1, T2)


def declare_subtype(index, base, *, cache, max_parallel):
    """type `index` of the current case is a re-decorated subclass of the task type `base`:

        @labtech.task(cache=cache, max_parallel=max_parallel)
        class S<index>(base):
            run = _run

    (a class statement as a user writes it; the name is bound at module level as a class statement at module
    level would)"""
    name = 'S%d' % index
    namespace = {'run': _run, '__module__': __name__, '__qualname__': name}
    cls = labtech.task(cache=cache, max_parallel=max_parallel)(type(name, (base,), namespace))
    globals()[name] = cls
    return cls


def type_names(index):
    return ('T%d' % index, 'S%d' % index)
