"""Task types for the probes of the colliding-key input classes (known findings F07 / F07c) in C06."""
from typing import Any

import labtech


@labtech.task
class Leaf:
    x: int

    def run(self):
        return self.x


@labtech.task
class Echo:
    p: Any

    def run(self):
        # a result that tells the two members of a colliding pair apart
        if isinstance(self.p, str):
            return [ord(c) for c in self.p]
        return type(self.p).__name__
