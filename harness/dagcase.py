"""Generated DAG cases: generator, encoding for the Lean driver, execution on the real code
(fake-process layer for fork/spawn, real SerialRunner), canonical observation."""
import copy
import dataclasses
import logging
import os
import pickle
import random
import shutil
import signal
import threading
import tempfile
import zlib
from datetime import datetime, timedelta

from frozendict import frozendict

import labtech
import labtech.lab as L
import labtech.runners.process as P
import labtech.runners.serial as S
from labtech.cache import NullCache
from labtech.exceptions import LabError, TaskDiedError, TaskError
from labtech.types import ResultMeta, RunnerBackend, TaskResult

import dagtasks
import fakeproc

ALL = (1 << 20) - 1
EXT_VALUE = 424242   # what the external writer stores
CPU = os.cpu_count() or 1


# ------------------------------------------------------------------ generation
def gen_shape(rng, m):
    """a nesting template with m task slots in left-to-right depth-first order, plus scalars"""
    items = [('slot', i) for i in range(m)]

    def group(seq, depth):
        out = []
        i = 0
        while i < len(seq):
            r = rng.random()
            if r < 0.15:
                out.append(('scalar', rng.choice([None, 0, 1, True, 'x', 2.5])))
            if depth < 3 and r > 0.6 and i < len(seq):
                j = rng.randint(i + 1, len(seq))
                sub = group(seq[i:j], depth + 1)
                if rng.random() < 0.5:
                    out.append(('list', sub))
                else:
                    out.append(('dict', [(f'k{n}', s) for n, s in enumerate(sub)]))
                i = j
            else:
                out.append(seq[i])
                i += 1
        return out
    return group(items, 0)


def gen_case(rng, *, max_tids=8, backend=None):
    n = rng.randint(1, max_tids)
    ntypes = rng.randint(1, 3)
    ty = [rng.randrange(ntypes) for _ in range(n)]
    mp = [rng.choice([1, 1, 2, 3, None]) for _ in range(3)]
    ca = [rng.choice([1, 1, 0]) for _ in range(3)]
    kids = []
    for t in range(n):
        ks = []
        if t > 0 and rng.random() < 0.75:
            cnt = rng.choice([1, 1, 2, 2, 3, 4])
            # bias towards shared dependencies: pick from a small window of earlier tids
            pool = list(range(t))
            if len(pool) > 3 and rng.random() < 0.6:
                pool = rng.sample(pool, 3)
            ks = [rng.choice(pool) for _ in range(cnt)]
        kids.append(ks)
    shapes = [gen_shape(rng, len(kids[t])) for t in range(n)]
    be = backend or rng.choice(['serial', 'fork', 'spawn', 'fork', 'spawn'])
    failing = rng.random() < 0.45
    fl = []
    for t in range(n):
        f = 0
        if failing and rng.random() < 0.25:
            f |= rng.choice([1, 1, 2]) if be != 'serial' else 1
        if rng.random() < 0.4:
            f |= 4
        if rng.random() < 0.08:
            f |= 8          # result is None
        if failing and rng.random() < 0.12:
            f |= 32         # fails iff the Lab context value is odd
        if f & 33 and rng.random() < 0.3:
            f |= 64         # chained exception
        if f & 1 and rng.random() < 0.25:
            f |= 256        # HOW it fails: a bytes write to sys.stdout (TypeError in run()); for the model a failing task
        fl.append(f)
    # instances
    inst = []          # (tid, [child iids])
    pool = {t: [] for t in range(n)}

    def make(t, fresh_budget):
        ch = []
        for d in kids[t]:
            if pool[d] and (len(inst) > 40 or rng.random() < 0.65):
                ch.append(rng.choice(pool[d]))
            else:
                ch.append(make(d, fresh_budget))
        inst.append((t, ch))
        pool[t].append(len(inst) - 1)
        return len(inst) - 1

    req = []
    nreq = rng.randint(1, min(4, n) + 1)
    for _ in range(nreq):
        t = rng.randrange(n) if rng.random() < 0.6 else n - 1
        if pool[t] and rng.random() < 0.5:
            req.append(rng.choice(pool[t]))
        else:
            req.append(make(t, 0))
    mw = rng.choice([1, 1, 2, 2, 3, None])
    ctx = rng.choice([0, 5])
    case = dict(cpu=rng.choice([2, 3]), be=be, mw=mw, cof=int(rng.random() < 0.8), bust=int(rng.random() < 0.2), ty=ty, mp=mp,
                ca=ca, fl=fl, kids=kids, shapes=shapes, inst=inst, req=req, pre={}, ctx=ctx,
                sched=[rng.randrange(1, 8) if rng.random() < 0.85 else 0 for _ in range(rng.randint(0, 3 * n))])
    # some types are RE-DECORATED SUBCLASSES of another type of the case (their own max_parallel / cache are the ones
    # their decorator declares; for the model a subclass type is just another type index)
    if rng.random() < 0.3:
        case['sub'] = [None, rng.choice([0, 0, None]), rng.choice([0, 1, 1, None])]
    # a second run_tasks call on the same task objects and storage
    if rng.random() < 0.35:
        case['second'] = dict(req=[rng.randrange(len(inst)) for _ in range(rng.randint(1, 3))],
                              bust=int(rng.random() < 0.5), ctx=ctx + 3, cof=int(rng.random() < 0.8),
                              same_lab=int(rng.random() < 0.5),
                              uncache=sorted(rng.sample(range(n), rng.randint(1, n))) if rng.random() < 0.3 else [],
                              sched=[rng.randrange(1, 8) for _ in range(rng.randint(0, n))])
    # scenario bias: a fail-fast call that aborts with work in flight, then a tolerant call on the same objects
    # (often the same Lab) in which context-dependent failures flip
    if be is not None and n >= 2 and rng.random() < 0.15:
        case['cof'] = 0
        case['ctx'] = ctx = 0
        victims = rng.sample(range(n), min(n, 2))
        fl[victims[0]] |= 1
        fl[victims[-1]] = (fl[victims[-1]] | 32) & ~3
        case['second'] = dict(req=list(req), bust=1, ctx=3, cof=1, same_lab=int(rng.random() < 0.7),
                              sched=[rng.randrange(1, 8) for _ in range(rng.randint(0, n))])
    # pre-cached subset (only cacheable types); mostly the value the task would compute
    if rng.random() < 0.6:
        ref = ref_values(case, ignore_store=True)
        for t in range(n):
            if ca[ty[t]] and pool[t] and rng.random() < 0.4:
                v = ref[t] if ref[t] is not None else 1000 * t + 1
                if rng.random() < 0.15:
                    v += 1  # a valid entry holding another value: a load must return what is stored
                case['pre'][t] = v
    return case


def gen_ext_case(rng, **kw):
    """a case in which, while task x runs, ANOTHER writer (as a second Lab on the same storage would) caches the
    result of a task w that depends on x and is therefore submitted later; monitor-only (the models assume no
    other writer during a run)"""
    for _ in range(50):
        c = gen_case(rng, **kw)
        c.pop('second', None)
        n = len(c['ty'])
        pairs = [(x, w) for w in range(n) for x in set(c['kids'][w])
                 if c['ca'][c['ty'][w]] and not (c['fl'][x] & 35) and w not in c['pre']]
        if pairs and not c['bust']:
            x, w = rng.choice(pairs)
            c['ext'] = {x: w}
            return c
    return None


def gen_extdel_case(rng, variant=None, **kw):
    """a case in which ANOTHER actor on the same storage (another Lab's uncache_tasks, a clean-up job, the clean-up of
    somebody's failed overwrite) REMOVES the entry of a task w that was cached when run_tasks planned the run, while
    another task runs, and
      variant 'A': BEFORE w is submitted - w's type has max_parallel=1 and a task x of the same type precedes it, so w
                   is held back while x executes (the decision whether to load w is due at w's submission);
      variant 'B': AFTER w was loaded and before the tasks that follow (its dependents among them) are submitted.
    The entry is never removed between w's submission and w's completion (the load itself racing with the removal is
    another interleaving, and not one the unchanged code survives cleanly). Which of the two happened is decided at run
    time from the events so far and recorded; monitor-only (the models assume no other writer during a run)."""
    for _ in range(50):
        c = gen_case(rng, **kw)
        c.pop('second', None)
        c['bust'] = 0
        n = len(c['ty'])
        have = {t for t, _ in c['inst']}
        leaves = [t for t in range(n) if not c['kids'][t] and t in have and not (c['fl'][t] & 35)]
        if len(leaves) < 2:
            continue
        variant = variant or rng.choice('AAB')
        with_dep = [t for t in leaves if any(t in c['kids'][u] for u in have)]
        w = rng.choice(with_dep if with_dep and variant == 'B' else leaves)
        x = rng.choice([t for t in leaves if t != w])
        T = c['ty'][w]
        c['ty'][x] = T
        c['ca'][T] = 1
        c['mp'][T] = 1
        c['pre'] = {t: v for t, v in c['pre'].items() if t != x and c['ca'][c['ty'][t]]}
        c['pre'][w] = 1000 * w + c['ctx'] + (1 if rng.random() < 0.3 else 0)
        iw = next(i for i, (t, _) in enumerate(c['inst']) if t == w)
        ix = next(i for i, (t, _) in enumerate(c['inst']) if t == x)
        c['req'] = ([ix, iw] if variant == 'A' else [iw, ix]) + list(c['req'])
        c['extdel'] = w
        return c
    return None


def extdel_hook(case, first, storage_dir, events, marker):
    """the other actor: acts while some task other than w executes (inside its body; under the fake-process layer that
    is a forked helper whose copy of `events` is the coordinator's record up to the start of that worker)"""
    w = int(case['extdel'])

    def hook(k):
        if k == w:
            return
        try:
            o = first.get(w)
            submitted = any(e[0] == 'S' and e[1] == w for e in events)
            finished = any(e[0] == 'Y' and e[1] == w for e in events)
            if o is None or (submitted and not finished):
                return
            try:
                fd = os.open(marker, os.O_WRONLY | os.O_CREAT | os.O_EXCL)
            except FileExistsError:
                return      # once per run
            os.write(fd, ('%d %s' % (k, 'B' if finished else 'A')).encode())
            os.close(fd)
            shutil.rmtree(os.path.join(storage_dir, o.cache_key), ignore_errors=True)
        except Exception:
            pass
    return hook


def gen_poison_case(rng, **kw):
    """a case in which a pre-cached entry is torn (as a kill mid-save leaves it): the task must be treated as cached -
    loaded, failing - and must NOT be executed in the same call; monitor-only"""
    for _ in range(50):
        c = gen_case(rng, **kw)
        c.pop('second', None)
        cand = [t for t in c['pre'] if not (c['fl'][t] & 2)]
        if cand and not c['bust']:
            # mostly a task WITH dependencies: being cached it is planned without them, so whatever makes it run after
            # all runs it before (or without) its dependencies
            with_deps = [t for t in cand if c['kids'][t]]
            c['poison'] = [rng.choice(with_deps if with_deps and rng.random() < 0.8 else cand)]
            c['cof'] = 1
            return c
    return None


def ref_values(case, ignore_store=False):
    """plain sequential dependency-first evaluation (None = the task fails / dies)"""
    n = len(case['ty'])
    val = [None] * n
    for t in range(n):
        if (not ignore_store) and (not case['bust']) and t in case['pre'] and case['ca'][case['ty'][t]]:
            val[t] = case['pre'][t]
            continue
        f = case['fl'][t]
        reads = [val[d] for d in case['kids'][t]]
        if f & 3 or ((f & 32) and case['ctx'] % 2 == 1) or ((f & 4) and any(r is None for r in reads)):
            val[t] = None
        elif f & 8:
            val[t] = dagtasks.NONE_CODE
        else:
            val[t] = 1000 * t + case['ctx'] + sum(7 if r is None else r for r in reads)
    return val


# ------------------------------------------------------------------ encoding for the driver
def encode(case):
    def lst(l):
        return ','.join(str(x) for x in l)
    mw = case.get('cpu', CPU) if case['mw'] is None else case['mw']
    inst = ';'.join(f'{t}:{lst(ch)}' for t, ch in case['inst'])
    pre = ','.join(f'{t}:{v}' for t, v in sorted(case['pre'].items()))
    sched = case['sched'] + [ALL] * (len(case['ty']) + 3)
    second = ''
    if case.get('second'):
        s2 = case['second']
        second = (f" req2={lst(s2['req'])} bust2={s2['bust']} ctx2={s2['ctx']} cof2={s2.get('cof', case['cof'])} unc2={lst(s2.get('uncache', []))} "
                  f"sched2={lst(s2['sched'] + [ALL] * (len(case['ty']) + 3))}")
    return (f"RUN be={case['be']} mw={mw} cof={case['cof']} bust={case['bust']} ty={lst(case['ty'])} "
            f"mp={','.join('-' if x is None else str(x) for x in case['mp'])} ca={lst(case['ca'])} "
            f"fl={lst(f & dagtasks.MODEL_BITS for f in case['fl'])} inst={inst} req={lst(case['req'])} pre={pre} sched={lst(sched)} ctx={case['ctx']}" + second)


# ------------------------------------------------------------------ building the real objects
def configure_types(case):
    """the task types of the case: type T is the fixed class dagtasks.T<T>, or - when case['sub'][T] names a parent
    type - a subclass of the parent's class that is decorated again with its OWN cache and max_parallel, declared
    through labtech.task as a user declares them (never by writing the subclass's configuration directly)"""
    sub = case.get('sub') or [None, None, None]
    types = []
    for T, cls in enumerate(dagtasks.BASE_TYPES):
        cache = dagtasks.RecPickleCache() if case['ca'][T] else NullCache()
        parent = sub[T] if T < len(sub) else None
        if parent is None or not (0 <= parent < T):
            cls._lt = dataclasses.replace(cls._lt, cache=cache, max_parallel=case['mp'][T])
        else:
            cls = dagtasks.declare_subtype(T, types[parent], cache=cache, max_parallel=case['mp'][T])
        types.append(cls)
    dagtasks.TYPES[:] = types


def build_objects(case):
    objs = []
    for t, ch in case['inst']:
        children = [objs[c] for c in ch]

        def fill(tmpl):
            out = []
            for node in tmpl:
                kind = node[0]
                if kind == 'slot':
                    out.append(children[node[1]])
                elif kind == 'scalar':
                    out.append(node[1])
                elif kind == 'list':
                    out.append(fill(node[1]))
                else:
                    keys = [k for k, _ in node[1]]
                    vals = fill([s for _, s in node[1]])
                    out.append(dict(zip(keys, vals)))
            return out
        cls = dagtasks.TYPES[case['ty'][t]]
        objs.append(cls(k=t, deps=fill(case['shapes'][t]), mode=case['fl'][t]))
    return copies_of(objs, case.get('pk'))


# ------------------------------------------------------------------ task objects that went through pickle / deepcopy
PK_KINDS = {1: 'pickle', 2: 'deepcopy', 3: 'pickle(protocol 2) of a deepcopy'}
COPY_FAILED = []     # (kind, exception class) of copies that could not be made: the originals are used instead


def copies_of(objs, pk):
    """case option `pk`: the task objects handed to run_tasks are not the constructed ones but COPIES of the whole
    object graph (sharing between objects is kept) - what comes back in a worker's result, what a user's pickle file
    or copy.deepcopy gives. For the run model nothing changes: a copy is the same task."""
    if not pk:
        return objs
    try:
        if pk == 1:
            return pickle.loads(pickle.dumps(objs))
        if pk == 2:
            return copy.deepcopy(objs)
        return pickle.loads(pickle.dumps(copy.deepcopy(objs), protocol=2))
    except Exception as e:      # that a task cannot be copied is C15's subject; the scheduler checks go on with the originals
        COPY_FAILED.append((pk, type(e).__name__))
        return objs


def choose_copies(case):
    """sets case['pk'] for 6 of 16 cases, decided by the case's own content (so that the generated case stream of a
    seed is what it was, whatever the hash seed of the interpreter)"""
    h = zlib.crc32(encode(case).encode()) % 16
    pk = 1 if h < 3 else 2 if h < 5 else 3 if h == 5 else 0
    if pk > 1 and "'dict'" in repr(case['shapes']):
        # copy.deepcopy of a frozendict does not keep the sharing of the task objects inside it (the frozendict package's
        # own __deepcopy__): the copied graph would no longer be the case's instance graph. Such cases are pickled.
        pk = 1
    if pk:
        case['pk'] = pk
    return case


# ------------------------------------------------------------------ recording the real run
class RecordingTaskState(L.TaskState):
    last = None

    def __init__(self, **kw):
        RecordingTaskState.last = self
        super().__init__(**kw)
        self.plan = dict(
            pending=[t.k for t in self.pending_tasks],
            deps={t.k: sorted(d.k for d in ds) for t, ds in self.task_to_direct_dependencies.items()},
            inst={t.k: [id(o) for o in os_] for t, os_ in self.task_to_instances.items()},
        )


CALL_TIMEOUT_S = 20


class HarnessHang(BaseException):   # (BaseException: must not be booked as a task failure by the code under test)
    pass


RUN_HOOK = None  # optional object with begin(events)/end(): brackets exactly the run_tasks call (interrupt injection)


class Spy:
    """pass-through wrapper of a real runner that records what the coordinator sees and, for
    the process runners, releases worker outcomes according to the schedule"""

    def __init__(self, inner, kind, sched, events, max_waits):
        self.inner = inner
        self.kind = kind
        self.sched = list(sched)
        self.events = events
        self.max_waits = max_waits
        self.waits = 0
        self.last_yield = None
        if kind != 'serial':
            fakeproc.bind_result_queue(inner)

    def submit_task(self, task, task_name, use_cache):
        self.events.append(('S', task.k, int(bool(use_cache))))
        return self.inner.submit_task(task, task_name, use_cache)

    def _queued_running(self):
        if self.kind == 'serial':
            return [s.task.k for s in self.inner.task_submissions], [], []
        ex = self.inner.executor
        q = [fakeproc.task_of(th).k for th in ex._pending_future_to_thunk.values()]
        fids = list(ex._running_id_to_future_and_process.keys())
        r = [fakeproc.task_of(ex._running_id_to_future_and_process[f][1].kwargs['thunk']).k for f in fids]
        return q, r, fids

    def wait(self, *, timeout_seconds):
        self.waits += 1
        if self.waits > self.max_waits:
            raise HarnessHang('coordinator keeps polling: %d waits' % self.waits)
        q, r, fids = self._queued_running()
        alive = len(r)
        if self.kind != 'serial':
            ex = self.inner.executor
            alive = sum(1 for f in fids if ex._running_id_to_future_and_process[f][1].is_alive())
        self.events.append(('W', q, r, alive))
        choice = self.sched.pop(0) if self.sched else ALL
        if self.kind == 'serial':
            if q:
                self.events.append(('B', q[0], 1))
        else:
            for pos, fid in enumerate(fids):
                if choice >> pos & 1:
                    fakeproc.CTL.release(fid)
        for task, res in self.inner.wait(timeout_seconds=0):
            if isinstance(res, ResultMeta):
                o = 'ok:%s' % (code(self.inner.results_map[task].value),)
            elif isinstance(res, TaskDiedError):
                o = 'died'
            else:
                o = 'exc'
            self.events.append(('Y', task.k, o))
            self.last_yield = task.k
            yield task, res

    def remove_results(self, tasks):
        ts = [t.k for t in tasks]
        self.inner.remove_results(tasks)
        self.events.append(('R', sorted(ts), sorted(t.k for t in self.inner.results_map)))

    def __getattr__(self, name):
        return getattr(self.inner, name)


class SpyBackend(RunnerBackend):
    def __init__(self, kind, sched, events, max_waits):
        self.kind, self.sched, self.events, self.max_waits = kind, sched, events, max_waits
        self.spy = None

    def build_runner(self, *, context, storage, max_workers):
        cls = {'fork': P.ForkProcessRunner, 'spawn': P.SpawnProcessRunner, 'serial': S.SerialRunner}[self.kind]
        self.spy = Spy(cls(context=context, storage=storage, max_workers=max_workers), self.kind,
                       self.sched, self.events, self.max_waits)
        return self.spy


def lst(l):
    return ','.join(str(x) for x in l)


def code(v):
    """observation spelling of a task value"""
    return dagtasks.NONE_CODE if v is None else v


def readable_results(objs):
    """public observation after a run_tasks call: which task objects of the case still answer `.result`
    ([instance index, tid, what it gave]); a task whose result is not held in memory raises TaskError"""
    out = []
    for i, o in enumerate(objs):
        try:
            v = o.result
            out.append([i, o.k, 'the value %s' % (code(v),)])
        except TaskError:
            pass
        except BaseException as e:
            out.append([i, o.k, 'raised ' + type(e).__name__ + ' instead of TaskError'])
    return out


def phases_of(case):
    """a case is one run_tasks call, optionally followed by a second one on the SAME task objects and
    storage (another Lab: other context, request list, bust flag, schedule)"""
    ph = [dict(req=case['req'], bust=case['bust'], ctx=case['ctx'], sched=case['sched'], cof=case['cof'])]
    if case.get('second'):
        ph.append(case['second'])
    return ph


def run_real(case, workdir):
    """run the case on the real code; returns (observation string, list of per-phase records)"""
    labtech.logger.setLevel(logging.CRITICAL)
    n = len(case['ty'])
    configure_types(case)
    objs = build_objects(case)
    iid_of = {id(o): i for i, o in enumerate(objs)}
    storage_dir = os.path.join(workdir, 'store')
    shutil.rmtree(storage_dir, ignore_errors=True)
    exec_log = os.path.join(workdir, 'exec.log')
    extdel_marker = os.path.join(workdir, 'extdel.marker')
    if os.path.exists(extdel_marker):
        os.unlink(extdel_marker)
    be = case['be']
    die = {t for t in range(n) if case['fl'][t] & 2}
    first = {}
    for i, o in enumerate(objs):
        first.setdefault(o.k, o)
    obs_all, recs = [], []
    store_before = dict(case['pre'])
    marked_before = []
    after_abort = False
    lab = None
    real_cpu_count = os.cpu_count
    if case['mw'] is None and 'cpu' in case:
        os.cpu_count = lambda: case['cpu']      # the default worker count is the CPU count: make it small enough to bite
    try:
        for pi, ph in enumerate(phases_of(case)):
            for path in (exec_log, exec_log + '.ind'):
                if os.path.exists(path):
                    os.unlink(path)
            dagtasks.EXEC_LOG = exec_log
            events = []
            if be != 'serial':
                fakeproc.install(be, die, events)
            backend = SpyBackend(be, ph['sched'], events, max_waits=len(ph['sched']) + n + 6)
            L.TaskState = RecordingTaskState
            RecordingTaskState.last = None
            if pi > 0 and ph.get('same_lab') and lab is not None:
                # a later call on the SAME Lab object (state kept on the Lab must not leak between calls)
                lab.runner_backend = backend
                lab.context = {'c': ph['ctx']}
                lab.continue_on_failure = bool(ph.get('cof', case['cof']))
            else:
                lab = labtech.Lab(storage=storage_dir, runner_backend=backend, max_workers=case['mw'],
                                  continue_on_failure=bool(ph.get('cof', case['cof'])), context={'c': ph['ctx']})
            if pi > 0 and ph.get('uncache'):
                # between the two calls the user removes some entries (on the Lab that will run the second call)
                lab.uncache_tasks([first[t] for t in ph['uncache'] if t in first])
                for t in ph['uncache']:
                    store_before.pop(t, None)
            if case.get('ext'):
                ext_storage = lab._storage

                def ext_hook(k, ext=case['ext'], first=first, storage=ext_storage):
                    w = ext.get(k, ext.get(str(k)))
                    o = first.get(w) if w is not None else None
                    if o is not None:
                        o._lt.cache.save(storage, o, TaskResult(value=EXT_VALUE, meta=ResultMeta(
                            start=datetime(2021, 1, 1), duration=timedelta(seconds=1))))
                dagtasks.EXT_HOOK = ext_hook
            if case.get('extdel') is not None:
                dagtasks.EXT_HOOK = extdel_hook(case, first, storage_dir, events, extdel_marker)
            if pi == 0:
                # pre-populate the cache
                for t, v in case['pre'].items():
                    o = first.get(t)
                    if o is None:
                        continue
                    o._lt.cache.save(lab._storage, o, TaskResult(value=v, meta=ResultMeta(
                        start=datetime(2020, 1, 1, 0, 0, t % 60), duration=timedelta(seconds=t))))
            if pi == 0:
                for t in case.get('poison', []):
                    o = first.get(t)
                    if o is not None:
                        dp = os.path.join(storage_dir, o.cache_key, 'data.pickle')
                        if os.path.exists(dp):
                            data = open(dp, 'rb').read()
                            open(dp, 'wb').write(data[:len(data) // 2])    # what a kill in the middle of a save leaves
            req = [objs[i] for i in ph['req']]
            status = None
            returned = None
            lab_error_cause = None
            try:
                if RUN_HOOK is not None:
                    RUN_HOOK.begin(events)
                # per-call watchdog (main thread only): a run_tasks that never comes back - e.g. a close() that waits for
                # workers nobody releases - is a finding (status HANG), not a reason for the whole exploration to time out
                use_alarm = threading.current_thread() is threading.main_thread()
                if use_alarm:
                    def _on_alarm(signum, frame):
                        raise HarnessHang('run_tasks did not return within %d s' % CALL_TIMEOUT_S)
                    old_alarm = signal.signal(signal.SIGALRM, _on_alarm)
                    signal.alarm(CALL_TIMEOUT_S)
                try:
                    returned = lab.run_tasks(req, bust_cache=bool(ph['bust']), disable_progress=True, disable_top=True)
                finally:
                    if use_alarm:
                        signal.alarm(0)
                        signal.signal(signal.SIGALRM, old_alarm)
                    if RUN_HOOK is not None:
                        RUN_HOOK.end()
                status = 'returned ' + ','.join(f'{t.k}:{code(v)}' for t, v in returned.items())
            except LabError as e:
                status = f'raised LabError {backend.spy.last_yield if backend.spy else None}'
                lab_error_cause = (type(e.__cause__).__name__, str(e.__cause__), str(e))
            except KeyError:
                status = 'raised KeyError'
            except HarnessHang as e:
                status = 'HANG ' + str(e)
            except BaseException as e:
                status = 'raised ' + type(e).__name__ + ' ' + str(e)[:80]
            readable_after = readable_results(objs)
            indirect = []
            if os.path.exists(exec_log + '.ind'):
                indirect = sorted(l.rstrip('\n') for l in open(exec_log + '.ind'))
            st = RecordingTaskState.last
            spy = backend.spy
            inner = spy.inner if spy else None
            # canonical observation
            parts = []
            plan = getattr(st, 'plan', None)
            if plan is not None:
                parts.append('P pending=%s deps=%s inst=%s' % (
                    lst(plan['pending']),
                    ';'.join(lst(plan['deps'].get(t, [])) for t in range(n)),
                    ';'.join(lst(iid_of[x] for x in plan['inst'].get(t, [])) for t in range(n))))
            for e in events:
                if e[0] == 'S':
                    parts.append(f'S {e[1]} {e[2]}')
                elif e[0] == 'B':
                    parts.append('B %d' % e[1])
                elif e[0] == 'W':
                    parts.append(f'W q={lst(e[1])} r={lst(e[2])}')
                elif e[0] == 'Y':
                    parts.append(f'Y {e[1]} {e[2]}')
                elif e[0] == 'R':
                    parts.append(f'R rem={lst(e[1])} left={lst(e[2])}')
            parts.append('status=' + status)
            execs = []
            if os.path.exists(exec_log):
                execs = sorted(l.rstrip('\n') for l in open(exec_log))
            inflight = set()
            if inner is not None:
                if be == 'serial':
                    inflight = {s.task.k for s in inner.task_submissions}
                else:
                    inflight = {t.k for t in inner.future_to_task.values()}
            # workers still in flight when run_tasks ended are not part of the observation
            parts.append('execs=' + '/'.join(x for x in execs if int(x.split()[1]) not in inflight))
            store = {}
            store_errors = []
            for t, o in sorted(first.items()):
                if t in inflight:
                    continue
                try:
                    if lab.is_cached(o):
                        store[t] = code(o._lt.cache.load_result_with_meta(lab._storage, o).value)
                except BaseException as e:
                    store_errors.append(f'{t}: {type(e).__name__}')
            parts.append('store=' + ','.join(f'{t}:{v}' for t, v in sorted(store.items())))
            extdel = listing_error = None
            if case.get('extdel') is not None:
                if os.path.exists(extdel_marker):
                    extdel = open(extdel_marker).read()
                try:
                    lab.cached_tasks(list(dict.fromkeys(type(o) for o in objs)))
                except BaseException as e:
                    listing_error = type(e).__name__
            marked = sorted(i for i, o in enumerate(objs) if o.result_meta is not None)
            parts.append('marked=' + lst(marked))
            parts.append('results=' + (lst(sorted(t.k for t in inner.results_map)) if inner is not None else ''))
            parts.append('pending=' + (lst(t.k for t in getattr(st, 'pending_tasks', [])) if st is not None else ''))
            try:
                active = lst(sorted(t.k for ts in getattr(st, 'type_to_active_tasks', {}).values() for t in ts))
            except Exception:   # the bookkeeping no longer holds task objects: observable as a difference, not a crash
                active = 'unreadable:' + lst(sorted(len(ts) for ts in getattr(st, 'type_to_active_tasks', {}).values()))
            parts.append('active=' + (active if st is not None else ''))
            recs.append(dict(events=events, status=status, returned=returned, execs=execs, store=store, marked=marked,
                             plan=plan, objs=objs, inflight=inflight, phase=pi, store_before=store_before,
                             marked_before=marked_before, store_errors=store_errors, lab_error_cause=lab_error_cause,
                             readable_after=readable_after, indirect=indirect, after_abort=after_abort,
                             extdel=extdel, listing_error=listing_error,
                             alive_at_exit=sorted(fakeproc.task_of(p.kwargs['thunk']).k for p in fakeproc.CTL.procs.values() if p.alive) if be != 'serial' else [],
                             terminated=[t.k for t in fakeproc.CTL.terminated] if be != 'serial' else []))
            obs_all.append('; '.join(parts))
            if be != 'serial':
                fakeproc.uninstall()
            store_before = dict(store)
            marked_before = list(marked)
            if not status.startswith(('returned', 'raised LabError')):
                break
            if status.startswith('raised LabError'):
                after_abort = True
                # aborted call: workers still in flight finish in the background (the fake layer has already run them)
                for t in sorted(inflight):
                    o = first.get(t)
                    try:
                        if o is not None and lab.is_cached(o):
                            store_before[t] = code(o._lt.cache.load_result_with_meta(lab._storage, o).value)
                    except BaseException:
                        pass
        return ' || '.join(obs_all), recs
    finally:
        os.cpu_count = real_cpu_count
        if be != 'serial' and fakeproc.CTL is not None:
            fakeproc.uninstall()
        L.TaskState = RecordingTaskState.__mro__[1]
        dagtasks.EXEC_LOG = None
        dagtasks.EXT_HOOK = None
