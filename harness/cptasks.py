"""Task types with DECLARED scheduling configuration (max_parallel, cache, mlflow_run, post_init) for the copy monitor of
C15 (props/c15.py, `limits_scenario`): a task object that went through pickle / copy.copy / copy.deepcopy must still report
what its type declares. Module-level, so that pickles find the classes again.

`DECLARED[name] = (max_parallel, cache class name, cache state, mlflow_run, has post_init)` is written down next to each
declaration, independently of what labtech stores."""
from typing import Any

import labtech
from labtech.cache import PickleCache


class TaggedCache(PickleCache):
    """a cache with configuration of its own (must travel with, or be found again by, a copy of the task)"""

    def __init__(self, tag, level=3):
        super().__init__()
        self.tag = tag
        self.level = level


def _run(self):
    return self.x


@labtech.task(max_parallel=1)
class Lim1:
    x: Any
    deps: Any = ()
    run = _run


@labtech.task(cache=None, max_parallel=2)
class Lim2NoCache:
    x: Any
    deps: Any = ()
    run = _run


@labtech.task(cache=TaggedCache('tag-of-Lim3Post', level=7), max_parallel=3)
class Lim3Post:
    x: Any
    deps: Any = ()
    run = _run

    def post_init(self):
        object.__setattr__(self, 'derived', ('derived from', self.x))


@labtech.task(cache=None, max_parallel=1, mlflow_run=True)
class Tracked1:
    x: Any
    deps: Any = ()
    run = _run


@labtech.task
class Free:
    x: Any
    deps: Any = ()
    run = _run


@labtech.task(cache=TaggedCache('tag-of-SubLim2'), max_parallel=2)
class SubLim2(Lim1):
    """a re-decorated subclass: its own declaration counts, not the parent's"""
    run = _run


DECLARED = {
    'Lim1': (1, 'PickleCache', {}, False, False),
    'Lim2NoCache': (2, 'NullCache', {}, False, False),
    'Lim3Post': (3, 'TaggedCache', {'tag': 'tag-of-Lim3Post', 'level': 7}, False, True),
    'Tracked1': (1, 'NullCache', {}, True, False),
    'Free': (None, 'PickleCache', {}, False, False),
    'SubLim2': (2, 'TaggedCache', {'tag': 'tag-of-SubLim2', 'level': 3}, False, False),
}
NAMES = sorted(DECLARED)


def build(spec):
    """spec = [type name, x, [child specs]]; the children are placed directly, in a list and in a dict, by position"""
    name, x, kids = spec
    objs = [build(k) for k in kids]
    deps = []
    for i, o in enumerate(objs):
        deps.append(o if i % 3 == 0 else [o] if i % 3 == 1 else {'k%d' % i: o})
    return globals()[name](x=x, deps=deps)
