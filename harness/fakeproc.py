"""Deterministic fake-process layer under the REAL ProcessExecutor / ProcessRunner.

`install()` replaces the name `multiprocessing` inside `labtech.runners.process` by an object
whose `Process`, `Manager().Queue` and `get_context(...)` are fakes:

* `FakeProcess.start()` runs the thunk at once in a genuinely forked helper child (so fork-time
  memory semantics and side-effect isolation are real; for the spawn runner the thunk is first
  pickled and unpickled, which is what crossing a spawn boundary does to it) and parks the
  outcome; log / monitor records the helper enqueued are shipped back with it.
* `is_alive()` and the result queue release an outcome only when the schedule says so.
* a task scheduled to die is never run and never reports.

The executor, the futures, `ProcessRunner.wait`, `_subprocess_func`, `run_or_load_task`, caches
and storage are all the shipped code.
"""
import multiprocessing
import os
import pickle
import queue
import types

import labtech.runners.process as P

REAL_MP = multiprocessing


class FakeQueue:
    """never blocks: the schedule decides what is available"""

    def __init__(self, index=None):
        self.q = queue.Queue()
        self.puts = []  # everything put by *this* process since the last drain (helper children)
        self.index = index

    def __reduce__(self):
        # crossing a (fake) spawn boundary: a manager queue proxy reconnects to the same queue
        return (_queue_by_index, (self.index,))

    def put(self, x, *a, **kw):
        self.q.put(x)
        self.puts.append(x)

    put_nowait = put

    def get(self, block=True, timeout=None):
        return self.q.get_nowait()

    def get_nowait(self):
        return self.q.get_nowait()

    def empty(self):
        return self.q.empty()


class Ctl:
    def __init__(self, start_method, die=frozenset(), events=None):
        self.start_method = start_method
        self.parked = {}       # future_id -> (outcome, shipped queue items)
        self.procs = {}        # future_id -> FakeProcess
        self.order = []
        self.queues = []       # FakeQueues created through Manager(), creation order
        self.result_queue = None
        self.die = set(die)    # task ids (task.k) whose worker dies
        self.events = events if events is not None else []
        self.terminated = []

    def release(self, fid):
        """the worker of future fid hands over its outcome (or is found dead) now"""
        p = self.procs[fid]
        p.alive = False
        if fid in self.parked:
            outcome, shipped = self.parked.pop(fid)
            # records the worker put on the shared queues before its result (synchronous puts)
            for qi, item in shipped:
                self.queues[qi].q.put(item)
            self.result_queue.q.put((fid, outcome))


CTL = None
DIE_CODES = (-9, 0, 1)


def _queue_by_index(i):
    return CTL.queues[i]


def task_of(thunk):
    kw = getattr(thunk, 'keywords', {}) or {}
    return kw.get('task')


class FakeProcess:
    def __init__(self, target=None, kwargs=None, **kw):
        self.target = target
        self.kwargs = kwargs
        self.alive = False
        self.pid = None
        self.started = False
        self._code = 0

    @property
    def exitcode(self):
        """like multiprocessing.Process.exitcode: None until the process has ended. A dying worker ends as
        one of: killed by SIGKILL (-9), a silent exit(0), exit(1) - chosen by the task's number."""
        if not self.started or self.alive:
            return None
        return self._code

    def start(self):
        ctl = CTL
        fid = self.kwargs['future_id']
        thunk = self.kwargs['thunk']
        task = task_of(thunk)
        if ctl.start_method == 'spawn':
            # multiprocessing pickles the process object in the parent BEFORE the child exists
            thunk = pickle.loads(pickle.dumps(thunk))
        self.started = True
        self.alive = True
        ctl.procs[fid] = self
        ctl.order.append(fid)
        ctl.events.append(('B', getattr(task, 'k', None), sum(1 for q in ctl.procs.values() if q.alive)))
        if task is not None and getattr(task, 'k', None) in ctl.die:
            self._code = DIE_CODES[task.k % len(DIE_CODES)]
            return  # never runs, never reports
        r, w = os.pipe()
        pid = os.fork()
        if pid == 0:
            code = 0
            try:
                os.close(r)
                for q in ctl.queues:
                    q.puts = []
                try:
                    out = thunk()
                except BaseException as ex:
                    out = ex
                shipped = [(qi, item) for qi, q in enumerate(ctl.queues) for item in q.puts
                           if q is not ctl.result_queue]
                try:
                    data = pickle.dumps((out, shipped))
                except BaseException as ex:
                    data = pickle.dumps((RuntimeError(f'unpicklable outcome: {ex!r}'), []))
                with os.fdopen(w, 'wb') as f:
                    f.write(data)
            except BaseException:
                code = 1
            finally:
                os._exit(code)
        os.close(w)
        with os.fdopen(r, 'rb') as f:
            data = f.read()
        os.waitpid(pid, 0)
        self.pid = pid
        ctl.parked[fid] = pickle.loads(data)

    def is_alive(self):
        return self.alive

    def terminate(self):
        if self.alive:
            self._code = -15
        self.alive = False
        fid = self.kwargs['future_id']
        CTL.parked.pop(fid, None)
        CTL.terminated.append(task_of(self.kwargs['thunk']))

    def join(self, timeout=None):
        pass


class FakeManager:
    def Queue(self, n=-1):
        q = FakeQueue(len(CTL.queues))
        CTL.queues.append(q)
        return q


class FakeMP(types.ModuleType):
    def __init__(self):
        super().__init__('fake_multiprocessing')
        self.Process = FakeProcess
        self.context = REAL_MP.context
        self.requested_contexts = []

    def Manager(self):
        return FakeManager()

    def get_context(self, method=None):
        self.requested_contexts.append(method)
        return types.SimpleNamespace(Process=FakeProcess, _name=method)

    def current_process(self):
        return REAL_MP.current_process()


def install(start_method, die=frozenset(), events=None):
    """activate the fake layer; returns the controller"""
    global CTL
    CTL = Ctl(start_method, die, events)
    P.multiprocessing = FakeMP()
    return CTL


def uninstall():
    global CTL
    P.multiprocessing = REAL_MP
    CTL = None


def bind_result_queue(runner):
    CTL.result_queue = runner.executor._result_queue
