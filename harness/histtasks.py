"""Task types for operation histories (C06, C08): an 8-task universe over three task types whose
cache kind is configured per case. Type names: 'Ht' is a string prefix of 'HtX' on purpose
(BaseCache.load_metadata matches keys with startswith).

run() of task k in the run with stamp g (Lab context {'g': g}) returns 1000*k + g + sum(dependency
results); it raises if `fail` is set or its k is listed in the Lab context's 'fail', and lets the TaskError of a failed dependency propagate."""
import dataclasses
import os

import labtech
from labtech.cache import NullCache, PickleCache

from savetasks import JsonCache

EXEC_LOG = None


def log_line(line):
    path = EXEC_LOG or os.environ.get('VERIF_HIST_LOG')
    if path:
        fd = os.open(path, os.O_WRONLY | os.O_APPEND | os.O_CREAT)
        try:
            os.write(fd, (line + '\n').encode())
        finally:
            os.close(fd)


class RecPickle(PickleCache):
    def load_result_with_meta(self, storage, task):
        r = super().load_result_with_meta(storage, task)
        log_line(f'L {task.k} {r.value}')
        return r


class RecJson(JsonCache):
    def load_result_with_meta(self, storage, task):
        r = super().load_result_with_meta(storage, task)
        log_line(f'L {task.k} {r.value}')
        return r


def _run(self):
    log_line(f'X {self.k}')
    if self.fail or self.k in (self.context or {}).get('fail', ()):
        # failing is a property of the task (fail=True) or of THIS run: the Lab context is not part
        # of the cache key, so the same task can succeed in one run and fail in the next
        raise ValueError(f'task {self.k} fails')
    g = (self.context or {}).get('g', 0)
    return 1000 * self.k + g + sum(d.result for d in self.deps)


@labtech.task(cache=RecPickle())
class Ht:
    k: int
    deps: tuple = ()
    fail: bool = False
    label: str = ''      # free text (non-ASCII, lone surrogates, ...): ends up in the key's pre-image and in metadata.json
    run = _run


@labtech.task(cache=RecJson())
class HtX:
    k: int
    deps: tuple = ()
    fail: bool = False
    label: str = ''      # free text (non-ASCII, lone surrogates, ...): ends up in the key's pre-image and in metadata.json
    run = _run


@labtech.task(cache=RecPickle())
class Other:
    k: int
    deps: tuple = ()
    fail: bool = False
    label: str = ''      # free text (non-ASCII, lone surrogates, ...): ends up in the key's pre-image and in metadata.json
    run = _run


TYPES = [Ht, HtX, Other]
DEFAULT_CA = ['p', 'o', 'p']   # what a freshly imported module (e.g. in a spawned worker) uses
NAME_PREFIX = '0:1'   # qualname of type 0 is a prefix of the qualname of type 1


def make_cache(kind):
    return {'p': RecPickle, 'o': RecJson, 'n': NullCache}[kind]()


def configure(ca):
    for T, cls in enumerate(TYPES):
        cls._lt = dataclasses.replace(cls._lt, cache=make_cache(ca[T]))


def build(case):
    """one shared object per tid"""
    objs = []
    for k in range(len(case['ty'])):
        cls = TYPES[case['ty'][k]]
        objs.append(cls(k=k, deps=tuple(objs[d] for d in case['deps'][k]), fail=bool(case['fl'][k]),
                        label=(case.get('labels') or [''] * len(case['ty']))[k]))
    return objs
