"""C14: interrupt injection. `sys.monitoring` LINE events (PEP 669) raise KeyboardInterrupt in the calling
thread at the n-th executed line of labtech code during run_tasks (and optionally a second time m lines
later): every line boundary is an interrupt instant. Runs DAG cases on the real SerialRunner and on the
real process runners over the fake-process layer. Worker mode: intr.py job.json out.json"""
import json
import os
import random
import shutil
import sys
import tempfile
import threading

HERE = os.path.dirname(os.path.abspath(__file__))
REPO = os.environ.get('VERIF_REPO', '/repo')
TOOL = 4


class Injector:
    """counts labtech line events of the main thread of this process between begin() and end()"""

    def __init__(self, n1=None, n2=None):
        self.n1, self.n2 = n1, n2
        self.count = 0
        self.active = False
        self.fired = []          # [(count, file, func, line, len(events))]
        self.events = None
        self.pid = os.getpid()
        self.main = threading.main_thread()
        self.prefix = os.path.join(os.path.realpath(REPO), 'labtech') + os.sep
        self.after_first = 0
        self.log = None          # when a list: (file, func, line) of every counted line event
        self.base_threads = set()
        self.handler_entered = False   # the coordinator's `except KeyboardInterrupt` clause was reached after the 1st interrupt

    def install(self):
        mon = sys.monitoring
        mon.use_tool_id(TOOL, 'verif-intr')
        mon.register_callback(TOOL, mon.events.LINE, self.on_line)
        mon.set_events(TOOL, mon.events.LINE)

    def uninstall(self):
        mon = sys.monitoring
        mon.set_events(TOOL, 0)
        mon.register_callback(TOOL, mon.events.LINE, None)
        mon.free_tool_id(TOOL)

    def begin(self, events):
        self.events = events
        self.count = 0
        self.base_threads = set(threading.enumerate())
        self.active = True

    def end(self):
        self.active = False

    def on_line(self, code, lineno):
        if not self.active or os.getpid() != self.pid or threading.current_thread() is not self.main:
            return
        fn = code.co_filename
        if not fn.startswith(self.prefix):
            return
        self.count += 1
        if self.log is not None:
            self.log.append((os.path.relpath(fn, self.prefix), code.co_name, lineno))
        fire = False
        if not self.fired:
            fire = self.n1 is not None and self.count == self.n1
        elif len(self.fired) == 1:
            if not self.handler_entered and code.co_name == 'run' and fn.endswith(os.sep + 'lab.py'):
                self.handler_entered = True      # only the handler (or finally) of run() executes in that frame now
            if self.n2 is not None:
                self.after_first += 1
                fire = self.after_first == self.n2
        if fire:
            # a result-consumer helper thread started by the executor may still be running (an interrupt at the line of
            # `consumer_thread.join()`): with a real signal that is a race between the helper and the handler; the sweep
            # explores its deterministic end - the helper finishes first - which the model has as the neighbouring
            # instant (listed under assumptions). Without this, a loaded machine makes the outcome schedule-dependent.
            for th in threading.enumerate():
                if th is not self.main and th not in self.base_threads and not th.daemon and th.is_alive():
                    th.join(5)     # (a thread labtech started during this run: the result consumer)
            stack = []
            f = sys._getframe(1)
            while f is not None:
                if f.f_code.co_filename.startswith(self.prefix):
                    stack.append(f.f_code.co_name)
                f = f.f_back
            ev = self.events
            # F14a window: a worker process has just been started and its bookkeeping is not complete:
            # inside _start_processes (called from submit OR from wait) after process.start(), or - in the submit
            # path - anywhere before ProcessRunner.submit_task has registered the future
            started_untracked = (len(ev) >= 1 and ev[-1][0] == 'B' and (
                '_start_processes' in stack
                or (len(ev) >= 2 and ev[-2][0] == 'S' and ev[-1][1] == ev[-2][1] and 'submit_task' in stack)))
            merged = bool(self.fired) and not self.handler_entered
            self.fired.append((self.count, os.path.relpath(fn, self.prefix), code.co_name, lineno, len(self.events),
                               stack[:8], bool(started_untracked), merged))
            raise KeyboardInterrupt()


def run_point(case, n1, n2, wd, trace=False):
    """one run of the case with interrupts at (n1, n2); returns the observation record"""
    import dagcase
    inj = Injector(n1, n2)
    if trace:
        inj.log = []
    dagcase.RUN_HOOK = inj
    inj.install()
    try:
        obs, recs = dagcase.run_real(case, wd)
    finally:
        inj.active = False
        inj.uninstall()
        dagcase.RUN_HOOK = None
    r = recs[0]
    ev = []
    for e in r['events']:
        ev.append([e[0]] + [x for x in e[1:]])
    return dict(n1=n1, n2=n2, total=inj.count, fired=inj.fired, status=r['status'], events=ev, trace=inj.log,
                execs=r['execs'], store={str(k): v for k, v in r['store'].items()}, store_errors=r['store_errors'],
                alive_at_exit=r['alive_at_exit'], terminated=r['terminated'], inflight=sorted(r['inflight']))


_SRC = {}


def no_signal_check_line(rel, lineno):
    """`try:` / `except …:` / `else:` / `finally:` lines compile to instructions at which CPython never checks
    for pending signals (the eval breaker is only consulted at calls, backward jumps and function entry), so a real
    Ctrl-C cannot be delivered there; the injector can. Such synthetic instants are not interrupt instants."""
    path = os.path.join(os.path.realpath(REPO), 'labtech', rel)
    if path not in _SRC:
        _SRC[path] = open(path).read().splitlines()
    line = _SRC[path][lineno - 1].strip()
    return line in ('try:', 'else:', 'finally:') or line.startswith('except ') or line == 'except:'


def in_start_tracking_window(fired0):
    """the first interrupt landed in the submit path after the worker process of the task being submitted
    was started and before its future was registered with the runner (ProcessRunner.future_to_task)"""
    return len(fired0) > 6 and bool(fired0[6])


def monitor(case, rec):
    """the property, checked directly on one interrupted real run; returns violation strings
    (a string starting with 'KNOWN:<match>:' belongs to a recorded known finding)"""
    v = []
    if not rec['fired']:
        return v
    if len(rec['fired']) == 2 and no_signal_check_line(rec['fired'][1][1], rec['fired'][1][3]):
        return v
    if len(rec['fired']) == 2 and len(rec['fired'][1]) > 7 and rec['fired'][1][7]:
        # the second interrupt was raised while the first was still propagating (before the coordinator's handler
        # was entered): Python replaces the exception in flight, the program sees ONE interrupt
        rec = dict(rec, fired=rec['fired'][:1], second_merged=True)
    st = rec['status']
    where = '%s:%s:%d' % tuple(rec['fired'][0][1:4])
    tag = f"interrupt at line event {rec['n1']} ({where})" + (
        f" and a second one {rec['n2']} events later ({'%s:%s:%d' % tuple(rec['fired'][1][1:4])})" if len(rec['fired']) > 1 else '')
    be = case['be']
    if not st.startswith('raised KeyboardInterrupt'):
        v.append(f'{be}: {tag}: run_tasks ended with {st!r} instead of KeyboardInterrupt')
    idx = rec['fired'][0][4]
    late = [e for e in rec['events'][idx:] if e[0] in ('B', 'S')]
    if late:
        v.append(f'{be}: {tag}: task {late[0][1]} was {"started" if late[0][0] == "B" else "submitted"} after the interrupt')
    # a second interrupt is a kill: what it leaves of a save in progress is C13's subject, not C14's
    if rec['store_errors'] and len(rec['fired']) == 1 and not rec.get('second_merged'):
        v.append(f'{be}: {tag}: cache entries that are reported cached but do not load: {rec["store_errors"]}')
    if be != 'serial' and not st.startswith('HANG'):
        if len(rec['fired']) == 1 and rec['terminated']:
            v.append(f'{be}: {tag}: workers of tasks {rec["terminated"]} were terminated after a single interrupt instead of being allowed to finish')
        if len(rec['fired']) == 2 and rec['alive_at_exit']:
            known = 'KNOWN:untracked_worker_after_interrupt_between_start_and_tracking:' if in_start_tracking_window(rec['fired'][0]) else ''
            v.append(f'{known}{be}: {tag}: second interrupt did not terminate the workers of tasks {rec["alive_at_exit"]}')
        if len(rec['fired']) == 2:
            idx2 = rec['fired'][1][4]
            waits = [e for e in rec['events'][idx2:] if e[0] == 'W']
            if len(waits) > 1:
                v.append(f'{be}: {tag}: {len(waits)} further polling rounds after the second interrupt')
    # values in the cache must be the right ones
    import dagmon
    d = dagmon.derive(case)
    for t, val in rec['store'].items():
        want = d['val'].get(int(t))
        if int(t) in d['closure'] and want is not None and val != want and int(t) not in case['pre']:
            v.append(f'{be}: {tag}: cache holds {val} for task {t}, its value is {want}')
    return v


def gen_case(rng, backend, max_tids):
    import dagcase
    c = dagcase.gen_case(rng, max_tids=max_tids, backend=backend)
    c.pop('second', None)
    c['fl'] = [f & 4 for f in c['fl']]   # the property's quantifier has no failing tasks
    c['cof'] = 1
    return c


def worker(job):
    import dagrun
    case = dagrun.normalise(job['case'])
    wd = tempfile.mkdtemp(prefix='verif-intr-')
    out = []
    try:
        for n1, n2 in job['points']:
            try:
                rec = run_point(case, n1, n2, wd, trace=bool(job.get('trace')))
            except BaseException as e:
                import traceback
                rec = dict(n1=n1, n2=n2, fired=[], status='HARNESS-ERROR ' + traceback.format_exc()[-400:], events=[], execs=[],
                           store={}, store_errors=[], alive_at_exit=[], terminated=[], inflight=[], total=0)
            rec['violations'] = monitor(case, rec) if not rec['status'].startswith('HARNESS-ERROR') else []
            if rec['fired']:
                rec['late'] = [e[1] for e in rec['events'][rec['fired'][0][4]:] if e[0] in ('B', 'S')]
            rec.pop('events', None)
            rec.pop('trace', None) if not job.get('trace') else None
            out.append(rec)
    finally:
        shutil.rmtree(wd, ignore_errors=True)
    return out


if __name__ == '__main__':
    sys.path.insert(0, HERE)
    job = json.load(open(sys.argv[1]))
    json.dump(worker(job), open(sys.argv[2], 'w'))
