"""A `labtech.types.Storage` that delegates to a real LocalStorage and exposes every storage
operation of one `BaseCache.save` as a numbered *point* at which the harness can strike (raise for
C12, SIGKILL for C13), plus a `sys.settrace` tracer that strikes at the e-th executed line of
cache.py / storage.py inside the save, and the mapping of points to the micro-step index `k` of the
Lean model (Model/Save.lean).

Points (idx = 0 metadata file, 1 result file; i = 0-based write call):
  ('fh_enter', idx) ('fh_exit', idx) ('write_pre', idx, i) ('write_split', idx, i) ('write_post', idx, i)
  ('close_pre', idx) ('close_post', idx) ('line', e)
"""
import ast
import os
import sys

import labtech.cache as C
import labtech.storage as S
from labtech.types import Storage

CACHE_FILE = C.__file__
STORAGE_FILE = S.__file__


class WrapFile:
    def __init__(self, st, real, idx, path):
        self.st, self.real, self.idx, self.path = st, real, idx, path
        self.w = 0            # completed write calls
        self.bytes = 0        # bytes handed to the real file object

    def write(self, b):
        st, i = self.st, self.w
        st.hit(('write_pre', self.idx, i))
        if st.trigger == ('write_split', self.idx, i):
            half = b[:max(1, len(b) // 2)] if len(b) > 1 else b[:0]
            self.real.write(half)
            self.bytes += len(half.encode() if isinstance(half, str) else half)
            st.hit(('write_split', self.idx, i))
        r = self.real.write(b)
        self.bytes += len(b.encode() if isinstance(b, str) else b)
        self.w += 1
        st.hit(('write_post', self.idx, i))
        return r

    def close(self):
        st = self.st
        if self.real.closed:
            return
        st.hit(('close_pre', self.idx))
        self.real.close()
        st.closed += 1
        st.hit(('close_post', self.idx))

    def __enter__(self):
        return self

    def __exit__(self, *exc):
        self.close()
        return False

    def __getattr__(self, name):
        return getattr(self.real, name)


class WrapStorage(Storage):
    """delegates everything; write-mode file handles are wrapped"""

    def __init__(self, inner, trigger=None, action=None, root=None):
        self.inner = inner
        self.trigger = trigger
        self.action = action
        self.root = root          # the directory the inner LocalStorage was constructed for (None: unknown)
        self.key_path = None
        self.reset()

    def reset(self):
        self.log = []
        self.fh_started = 0
        self.fh_done = 0
        self.closed = 0
        self.cur = None
        self.armed = True

    # ---- points
    def hit(self, point):
        self.log.append(point)
        if self.armed and point == self.trigger:
            self.armed = False      # single fault
            self.action(self, point)

    # ---- Storage interface
    def find_keys(self):
        return self.inner.find_keys()

    def exists(self, key):
        return self.inner.exists(key)

    def delete(self, key):
        self.log.append(('delete',))
        return self.inner.delete(key)

    def file_handle(self, key, filename, *, mode='r'):
        if 'w' not in mode:
            return self.inner.file_handle(key, filename, mode=mode)
        idx = self.fh_started
        self.fh_started += 1
        if self.root is not None:
            self.key_path = os.path.join(self.root, key)
        self.hit(('fh_enter', idx))
        real = self.inner.file_handle(key, filename, mode=mode)
        self.cur = WrapFile(self, real, idx, real.name)
        self.hit(('fh_exit', idx))
        self.fh_done += 1
        return self.cur

    # ---- state used by the k mapping
    def counters(self):
        cur = self.cur
        return dict(fh_started=self.fh_started, fh_done=self.fh_done, closed=self.closed,
                    w=(cur.w if cur is not None else 0),
                    bytes=(cur.bytes if cur is not None else 0),
                    path=(cur.path if cur is not None else None),
                    key_dir_exists=(os.path.isdir(self.key_path) if self.key_path is not None else None))


def counts_from_log(log):
    """(number of metadata write calls, number of result-file write calls) of a recorded save"""
    n1 = sum(1 for p in log if p[0] == 'write_post' and p[1] == 0)
    m1 = sum(1 for p in log if p[0] == 'write_post' and p[1] == 1)
    return n1, m1


# ------------------------------------------------------------------ source landmarks (ast, not line numbers)
def _landmarks():
    src = open(CACHE_FILE).read()
    tree = ast.parse(src)
    out = {}
    for cls in [n for n in tree.body if isinstance(n, ast.ClassDef) and n.name == 'BaseCache']:
        for fn in [n for n in cls.body if isinstance(n, ast.FunctionDef) and n.name == 'save']:
            out['save_first'] = fn.lineno
            out['save_last'] = fn.end_lineno
            tries = [n for n in ast.walk(fn) if isinstance(n, ast.Try)]
            # without a try statement nothing of save is protected
            out['try_line'] = tries[0].body[0].lineno if tries else None   # first protected line
            out['try_body_last'] = tries[0].body[-1].end_lineno if tries else None
            fh = [n for n in ast.walk(fn) if isinstance(n, ast.Call) and getattr(n.func, 'attr', '') == 'file_handle']
            out['first_fh_line'] = min(n.lineno for n in fh) if fh else fn.end_lineno
    src = open(STORAGE_FILE).read()
    tree = ast.parse(src)
    for cls in [n for n in tree.body if isinstance(n, ast.ClassDef) and n.name == 'LocalStorage']:
        for fn in [n for n in cls.body if isinstance(n, ast.FunctionDef) and n.name == 'file_handle']:
            out['fh_first'] = fn.lineno
            out['fh_last'] = fn.end_lineno
            mk = [n for n in ast.walk(fn) if isinstance(n, ast.Call) and getattr(n.func, 'attr', '') == 'mkdir']
            out['mkdir_line'] = mk[0].lineno if mk else None
            kp = [n for n in ast.walk(fn) if isinstance(n, ast.Call) and getattr(n.func, 'attr', '') == '_key_to_path']
            out['keypath_line'] = kp[0].lineno if kp else fn.lineno
    return out


LM = _landmarks()


class LineTracer:
    """counts 'line' events of cache.py / storage.py frames inside the dynamic extent of
    BaseCache.save; at event number `target` calls action(info). Raising from a trace function
    disables tracing, so at most one strike per run."""

    def __init__(self, st, target=None, action=None):
        self.st, self.target, self.action = st, target, action
        self.count = 0
        self.depth_save = 0
        self.events = []   # (func, lineno) of every counted event
        self.pid = os.getpid()

    def _local(self, frame, event, arg):
        if event == 'line' and self.depth_save > 0:
            e = self.count
            self.count += 1
            f = frame
            while f is not None and not (f.f_code.co_filename == CACHE_FILE and f.f_code.co_name == 'save'):
                f = f.f_back
            info = dict(e=e, func=frame.f_code.co_name, file=os.path.basename(frame.f_code.co_filename),
                        lineno=frame.f_lineno, save_lineno=(f.f_lineno if f is not None else None), **self.st.counters())
            self.events.append((info['func'], info['lineno']))
            if self.target is not None and e == self.target and self.action is not None:
                act, self.action = self.action, None
                act(info)
        elif event == 'return' and frame.f_code.co_name == 'save' and frame.f_code.co_filename == CACHE_FILE:
            self.depth_save -= 1
        return self._local

    def __call__(self, frame, event, arg):
        if os.getpid() != self.pid or event != 'call':
            return None
        fn = frame.f_code.co_filename
        if fn == CACHE_FILE and frame.f_code.co_name == 'save' and \
                LM['save_first'] <= frame.f_code.co_firstlineno <= LM['save_last']:
            self.depth_save += 1
            return self._local
        if self.depth_save > 0 and fn in (CACHE_FILE, STORAGE_FILE):
            return self._local
        return None


# ------------------------------------------------------------------ point -> model micro-step
def fault_k(point, n1, m1):
    """(k = program counter of the failing micro-step, eff) for a wrapper point that raises"""
    kind, idx = point[0], point[1]
    base = 0 if idx == 0 else 4 + n1          # pcs of the second file are shifted by 4 + n1
    cnt = n1 if idx == 0 else m1
    if kind == 'fh_enter':
        return 1 + base, 0
    if kind == 'fh_exit':
        return 3 + base, 1
    if kind == 'write_pre':
        return 4 + base + point[2], 0
    if kind == 'write_post':
        return 4 + base + point[2], 1
    if kind == 'close_pre':
        return 4 + base + cnt, 0
    if kind == 'close_post':
        return 4 + base + cnt, 1
    raise ValueError(point)


def crash_k(point, n1, m1):
    """k = number of micro-steps completed when the process is killed at a wrapper point"""
    kind, idx = point[0], point[1]
    base = 0 if idx == 0 else 4 + n1
    cnt = n1 if idx == 0 else m1
    if kind == 'fh_enter':
        return 1 + base
    if kind == 'fh_exit':
        return 4 + base
    if kind in ('write_pre', 'write_split'):
        return 4 + base + point[2]
    if kind == 'write_post':
        return 5 + base + point[2]
    if kind == 'close_pre':
        return 4 + base + cnt
    if kind == 'close_post':
        return 5 + base + cnt
    raise ValueError(point)


def line_after_region(info):
    """a line of save() executed after the guarded region was left (a `finally:` / `else:` clause or code behind the
    try statement - the pinned source has none): no micro-step of the model corresponds to a fault there"""
    if LM['try_line'] is None:
        return info['closed'] >= 2 and info['fh_started'] == info['fh_done']
    return not line_in_try(info) and info['fh_started'] > 0


def line_k(info, n1, m1):
    """k = number of micro-steps completed at a counted line event (info from LineTracer)"""
    if line_after_region(info):
        return 9 + n1 + m1
    func, lineno = info['func'], info['lineno']
    started, done, closed, w = info['fh_started'], info['fh_done'], info['closed'], info['w']
    if started > done:
        # inside the wrapper's / LocalStorage's file_handle number `done`
        base = 0 if done == 0 else 4 + n1
        if info.get('key_dir_exists') is not None:
            # observed, not read off the layout of LocalStorage.file_handle (which a harmless rewrite may change): of the
            # three micro-steps validate / mkdir / open only mkdir changes anything, and only when the directory is new
            return (3 if info['key_dir_exists'] else 1) + base
        if func == 'file_handle' and info['file'] == 'storage.py':
            if LM['mkdir_line'] is not None and lineno > LM['mkdir_line']:
                return 3 + base       # mkdir executed, open not yet
            if lineno > LM['keypath_line']:
                return 2 + base       # key validated
        return 1 + base
    if done == 0:
        # in save itself, before the first file_handle call
        return 1 if lineno >= LM['first_fh_line'] else 0
    if done == 1 and closed == 0:
        return 4 + w
    if done == 1 and closed == 1:
        return 5 + n1
    if done == 2 and closed == 1:
        return 8 + n1 + w
    return 9 + n1 + m1


def line_in_try(info):
    """is a line event protected by save's try: the line save() itself is executing (for a deeper frame: the call
    site in save) lies in the try body - observed on the stack, so helpers extracted from save() are classified by
    where they are called from"""
    if LM['try_line'] is None:
        # no try statement in save() (the cleanup is arranged some other way, e.g. an ExitStack callback): once a file
        # of the entry has been opened a correct save must be protected - if it is not, the monitor sees the leftover
        return info['fh_started'] > 0
    if info.get('save_lineno') is not None:
        return LM['try_line'] <= info['save_lineno'] <= LM['try_body_last']
    if info['func'] == 'save' and info['file'] == 'cache.py':
        return LM['try_line'] <= info['lineno'] <= LM['try_body_last']
    return True
