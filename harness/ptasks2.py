"""Same-named classes as in `ptasks`, in a different module (C07: the module name is part of a type)."""
from enum import Enum, IntEnum, StrEnum
from typing import Any

import labtech


class Color(Enum):
    RED = 1
    BLUE = 2


class Verbosity(IntEnum):
    QUIET = 0
    LOUD = 1


class Dataset(StrEnum):
    TRAIN = 'train'
    TEST = 'test'


class ModelA:
    class Variant(Enum):      # same qualified name as ptasks.ModelA.Variant
        SMALL = 1
        LARGE = 2


@labtech.task
class Leaf:
    x: Any

    def run(self):
        return 'leaf2'


@labtech.task
class Box:
    a: Any
    b: Any = None

    def run(self):
        return 'box2'


@labtech.task
class Exp:
    p: Any

    def run(self):
        return 'exp2'


@labtech.task
class Étude:                  # same non-ASCII identifier as ptasks.Étude
    p: Any

    def run(self):
        return 'etude2'
