"""Runs the Lean line-protocol driver on a batch of command lines."""
import os
import subprocess

LEAN_DIR = os.path.join(os.path.dirname(os.path.dirname(os.path.abspath(__file__))), 'lean')
DRIVER = os.path.join(LEAN_DIR, '.lake', 'build', 'bin', 'driver')


def run_lines(lines, timeout=600):
    """one output line per input line"""
    if not lines:
        return []
    data = '\n'.join(lines) + '\n'
    p = subprocess.run([DRIVER], input=data, capture_output=True, text=True, timeout=timeout)
    out = p.stdout.split('\n')
    if out and out[-1] == '':
        out.pop()
    if p.returncode != 0 or len(out) != len(lines):
        raise RuntimeError(f'driver failed: rc={p.returncode} lines={len(out)}/{len(lines)} stderr={p.stderr[-500:]}')
    return out
