"""One worker of the C16 check: runs a list of jobs on the REAL backends and writes JSON records.
Usage: c16_worker.py jobs.json out.json   (stdout/stderr must be files, not pipes)"""
import json
import logging
import os
import sys
import tempfile
import shutil
import threading


def build(job, E):
    n = job['n']
    tasks = []
    for k in range(n):
        deps = tuple(tasks[d] for d in job['deps'][k])
        kind = job['kinds'][k]
        if kind == 'leaf' and not deps:
            tasks.append(E.EnvLeaf(k=k))
        elif kind == 'cached':
            tasks.append(E.EnvCached(k=k, deps=deps))
        elif kind == 'count':
            tasks.append(E.EnvCount(k=k, deps=deps))
        else:
            tasks.append(E.EnvSub(k=k, keys=tuple(job['keys'][k]), deps=deps))
    return tasks


def main():
    jobs = json.load(open(sys.argv[1]))
    import labtech
    import etasks as E
    labtech.logger.setLevel(logging.CRITICAL)
    out = []
    for job in jobs:
        E.MARK = 0
        tmp = tempfile.mkdtemp(prefix='verif-c16-')
        rec = dict(job=job)
        try:
            tasks = build(job, E)
            keys_before = {t.k: t.cache_key for t in tasks}
            E.MARK = job['mark']          # parent mutates the global after import, before running
            lab = labtech.Lab(storage=os.path.join(tmp, 's'), runner_backend=job['backend'],
                              max_workers=job['mw'], context=dict(job['context']))
            req = [tasks[i] for i in job['req']]
            try:
                res = lab.run_tasks(req, disable_progress=True, disable_top=True)
                rec['status'] = 'returned'
                rec['results'] = {str(t.k): v for t, v in res.items()}
            except BaseException as e:
                rec['status'] = 'raised ' + type(e).__name__ + ': ' + str(e)[:200]
                rec['results'] = {}
            rec['caller'] = dict(pid=os.getpid(), thread_id=threading.get_ident())
            rec['keys'] = {str(k): v for k, v in keys_before.items()}
            rec['keys_after'] = {str(t.k): t.cache_key for t in tasks}
            # stored entries (metadata without timestamps)
            stored = {}
            sdir = os.path.join(tmp, 's')
            for name in sorted(os.listdir(sdir)):
                mp = os.path.join(sdir, name, 'metadata.json')
                if os.path.isfile(mp):
                    md = json.load(open(mp))
                    md.pop('start_timestamp', None)
                    md.pop('duration_seconds', None)
                    stored[name] = md
            rec['stored'] = stored
        finally:
            shutil.rmtree(tmp, ignore_errors=True)
        out.append(rec)
    json.dump(out, open(sys.argv[2], 'w'))


if __name__ == '__main__':
    main()
