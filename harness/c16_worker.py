"""One worker of the C16 check: runs a list of jobs on the REAL backends and writes JSON records.
Usage: c16_worker.py jobs.json out.json   (stdout/stderr must be files, not pipes)"""
import json
import logging
import os
import sys
import tempfile
import shutil
import threading


# kind -> (class name in etasks, takes `keys`); every type except EnvLeaf takes `deps`.  The filter each kind must
# end up with is NOT stated here: the checker has its own table (props/c16.py FILTER_MODEL).
KIND_CLASS = {
    'leaf': ('EnvLeaf', False), 'cached': ('EnvCached', False), 'count': ('EnvCount', False), 'sub': ('EnvSub', True),
    'mix_first': ('EnvMixFirst', True), 'mix_last': ('EnvMixLast', True), 'mix_grand': ('EnvMixGrand', True),
    'mix_depth': ('EnvMixDepth', False), 'sub_child': ('EnvSubChild', True), 'sub_grandchild': ('EnvSubGrandChild', True),
    'sub_mid_child': ('EnvSubMidChild', True), 'mix_child': ('EnvMixChild', True), 'count_child': ('EnvCountChild', False),
    'sub_override': ('EnvSubOverride', True), 'override_child': ('EnvOverrideChild', True),
    'count_override': ('EnvCountOverride', False), 'leaf_child': ('EnvLeafChild', False),
    'leaf_grandchild': ('EnvLeafGrandChild', False), 'plain_child': ('EnvPlainChild', False),
}


def build(job, E):
    n = job['n']
    tasks = []
    for k in range(n):
        deps = tuple(tasks[d] for d in job['deps'][k])
        kind = job['kinds'][k]
        if kind == 'leaf':
            tasks.append(E.EnvLeaf(k=k) if not deps else E.EnvSub(k=k, keys=tuple(job['keys'][k]), deps=deps))
            continue
        name, takes_keys = KIND_CLASS[kind]
        if takes_keys:
            tasks.append(getattr(E, name)(k=k, keys=tuple(job['keys'][k]), deps=deps))
        else:
            tasks.append(getattr(E, name)(k=k, deps=deps))
    return tasks


def two_labs(job, labtech, E):
    """two Labs with different contexts alive at the same time in this process (one per thread); each Lab's tasks
    must see their own Lab's context"""
    tmp = tempfile.mkdtemp(prefix='verif-c16b-')
    rec = dict(job=job, status='returned', results={}, caller=dict(pid=os.getpid(), thread_id=threading.get_ident()),
               keys={}, keys_after={}, stored={})
    try:
        flags = [os.path.join(tmp, f'f{i}') for i in range(4)]
        # A1 starts, waits for B1 to have started; B1 waits for A1's flag (already there); A2/B2 run afterwards
        plans = {
            'A': [E.EnvWait(k=0, wait_for=flags[1], touch=flags[0]), E.EnvWait(k=1, wait_for=flags[1], touch=flags[2])],
            'B': [E.EnvWait(k=2, wait_for=flags[0], touch=flags[1]), E.EnvWait(k=3, wait_for=flags[0], touch=flags[3])],
        }
        results = {}
        errors = {}

        def run(tag):
            try:
                lab = labtech.Lab(storage=None, runner_backend=job['backend'], max_workers=1, context={'lab_tag': tag})
                results[tag] = lab.run_tasks(plans[tag], disable_progress=True, disable_top=True)
            except BaseException as e:
                errors[tag] = type(e).__name__ + ': ' + str(e)[:200]
        ts = [threading.Thread(target=run, args=(tag,)) for tag in ('A', 'B')]
        for t in ts:
            t.start()
        for t in ts:
            t.join(60)
        seen = {}
        for tag, res in results.items():
            for task, o in res.items():
                seen[str(task.k)] = dict(lab=tag, saw=o.get('lab_tag'))
        rec['two_labs_seen'] = seen
        rec['two_labs_errors'] = errors
    finally:
        shutil.rmtree(tmp, ignore_errors=True)
    return rec


def main():
    jobs = json.load(open(sys.argv[1]))
    import labtech
    import etasks as E
    labtech.logger.setLevel(logging.CRITICAL)
    out = []
    for job in jobs:
        if job.get('two_labs'):
            out.append(two_labs(job, labtech, E))
            continue
        E.MARK = 0
        tmp = tempfile.mkdtemp(prefix='verif-c16-')
        rec = dict(job=job)
        try:
            tasks = build(job, E)
            keys_before = {t.k: t.cache_key for t in tasks}
            E.MARK = job['mark']          # parent mutates the global after import, before running
            lab = labtech.Lab(storage=os.path.join(tmp, 's'), runner_backend=job['backend'],
                              max_workers=job['mw'], context=(None if job.get('ctx_none') else dict(job['context'])))
            req = [tasks[i] for i in job['req']]
            try:
                res = lab.run_tasks(req, disable_progress=True, disable_top=True)
                rec['status'] = 'returned'
                rec['results'] = {str(t.k): {a: b for a, b in v.items() if a != 'produced_by'} for t, v in res.items()}
            except BaseException as e:
                rec['status'] = 'raised ' + type(e).__name__ + ': ' + str(e)[:200]
                rec['results'] = {}
            rec['caller'] = dict(pid=os.getpid(), thread_id=threading.get_ident())
            rec['keys'] = {str(k): v for k, v in keys_before.items()}
            rec['keys_after'] = {str(t.k): t.cache_key for t in tasks}
            # stored entries (metadata without timestamps)
            stored = {}
            sdir = os.path.join(tmp, 's')
            import hashlib
            for name in sorted(os.listdir(sdir)):
                mp = os.path.join(sdir, name, 'metadata.json')
                if os.path.isfile(mp):
                    md = json.load(open(mp))
                    md.pop('start_timestamp', None)
                    md.pop('duration_seconds', None)
                    dp = os.path.join(sdir, name, 'data.pickle')
                    if os.path.isfile(dp):
                        md['data_sha1'] = hashlib.sha1(open(dp, 'rb').read()).hexdigest()
                    stored[name] = md
            rec['stored'] = stored
        finally:
            shutil.rmtree(tmp, ignore_errors=True)
        out.append(rec)
    json.dump(out, open(sys.argv[2], 'w'))


if __name__ == '__main__':
    main()
