"""'Confusable' tasks for C06 (also run by C01 / C03): tasks whose parameters are ==-equal in Python (1 == True == 1.0,
0 == False == 0.0; a member of a str/int-mixin enum == the member of another such enum with the same value == the bare value; also inside tuples / dicts / nested tasks) but are different tasks: they serialise
differently, have different cache keys, and run() returns a string that reveals the parameter types.

Two further kinds of confusable pairs (not ==-equal, but easily identified by a key / serialisation helper):
* members of SAME-NAMED ENUM CLASSES: `Variant` at module level, `ModelA.Variant` / `ModelB.Variant` nested in holder
  classes of this module (same `__name__`, different `__qualname__`), and `conftasks2.Variant` /
  `conftasks2.ModelA.Variant` (same qualified name, other module) - with equal member names and values;
* SAME-QUALNAME TASK CLASSES OF TWO MODULES with equal parameter values: `conftasks.Describe(value=v)` vs
  `conftasks2.Describe(value=v)` (`InModule` variants); run() of the `conftasks2` classes reveals the module."""
import sys
from enum import Enum, IntEnum, StrEnum
from typing import Any

import labtech
from frozendict import frozendict

import conftasks2
from histtasks import RecJson, RecPickle, log_line


class ImageSets(str, Enum):
    TRAIN = 'train'
    TEST = 'test'


class TextSets(StrEnum):
    TRAIN = 'train'
    TEST = 'test'


class Depth(IntEnum):
    SHALLOW = 1
    DEEP = 2


class Width(int, Enum):
    NARROW = 1
    WIDE = 2


class Variant(Enum):
    SMALL = 1
    LARGE = 2


class ModelA:
    class Variant(Enum):
        SMALL = 1
        LARGE = 2


class ModelB:
    class Variant(Enum):
        SMALL = 1
        LARGE = 2


class InModule:
    """variant of the 'task-module' group: the same constructor call on the same-named class of `module`"""

    def __init__(self, module, value):
        self.module, self.value = module, value

    def __repr__(self):
        return f'<classes of module {self.module}, parameter {self.value!r}>'


def label(v):
    """unambiguous text for a variant (repr of an enum member names neither its module nor its holder class)"""
    if isinstance(v, Enum):
        return f'{type(v).__module__}.{type(v).__qualname__}.{v.name}'
    return repr(v)


def reveal(v, canon=False):
    """type-revealing text of a parameter value (`canon`: dict items in sorted key order, for comparisons that
    must not depend on insertion order)"""
    if isinstance(v, Enum):        # before the scalar case: members of mixin enums ARE str / int instances
        return f'{type(v).__module__}.{type(v).__qualname__}.{v.name}'
    if isinstance(v, (tuple, list)):
        return '(' + ','.join(reveal(x, canon) for x in v) + ')'
    if isinstance(v, (dict, frozendict)):
        items = sorted(v.items()) if canon else v.items()
        return '{' + ','.join(f'{k}={reveal(x, canon)}' for k, x in items) + '}'
    if labtech.is_task(v):
        return f'{type(v).__module__}.{type(v).__name__}<{reveal(v.value, canon)}>'
    return f'{type(v).__name__}:{v!r}'


def _run(self):
    r = reveal(self.value)
    log_line(f'X {self.k} {r}')
    return r


@labtech.task(cache=RecPickle())
class Describe:
    value: Any
    k: int = 0      # excluded from nothing: tasks of one sequence all use k=0 so that they stay ==-equal
    run = _run


@labtech.task(cache=RecJson())
class DescribeJ:
    value: Any
    k: int = 0
    run = _run


@labtech.task(cache=RecPickle())
class Wrap:
    inner: Describe
    k: int = 0

    def run(self):
        r = 'Wrap<' + self.inner.result + '>'
        log_line(f'X {self.k} {r}')
        return r


GROUPS = {'one': [1, True, 1.0], 'zero': [0, False, 0.0],
          # members of two mixin enums with equal underlying values, and the bare value: all ==-equal
          'strenum': [ImageSets.TRAIN, TextSets.TRAIN, 'train'],
          'intenum': [Depth.SHALLOW, Width.NARROW, 1],
          # same __name__, different holder class (and the module-level class of that name)
          'nested-enum': [ModelA.Variant.SMALL, ModelB.Variant.SMALL, Variant.SMALL],
          # same __qualname__, different module (module-level and nested)
          'module-enum': [Variant.SMALL, conftasks2.Variant.SMALL, ModelA.Variant.SMALL, conftasks2.ModelA.Variant.SMALL],
          # same-qualname task classes of two modules, equal parameter values
          'task-module': [InModule('conftasks', 4), InModule('conftasks2', 4)]}
SHAPES = ('top', 'tuple', 'dict', 'deep', 'task')
# which properties' statements a group exercises beyond C06 is decided by the monitor (props/c06x.py), not here


def build(shape, v, kind):
    M = conftasks2 if (isinstance(v, InModule) and v.module == 'conftasks2') else sys.modules[__name__]
    if isinstance(v, InModule):
        v = v.value
    cls = M.Describe if kind == 'p' else M.DescribeJ
    if shape == 'top':
        return cls(value=v)
    if shape == 'tuple':
        return cls(value=(v, 'x'))
    if shape == 'dict':
        return cls(value={'a': v})
    if shape == 'deep':
        return cls(value={'a': [v, 2], 'b': (v,)})
    return M.Wrap(inner=Describe(value=v))     # the inner task is this module's in every variant


def expected(shape, v):
    if isinstance(v, InModule):
        return (conftasks2.TAG if v.module == 'conftasks2' else '') + expected(shape, v.value)
    if shape == 'top':
        return reveal(v)
    if shape == 'tuple':
        return reveal((v, 'x'))
    if shape == 'dict':
        return reveal({'a': v})
    if shape == 'deep':
        return reveal({'a': (v, 2), 'b': (v,)})
    return 'Wrap<' + reveal(v) + '>'
