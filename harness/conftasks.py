"""'Confusable' tasks for C06: tasks whose parameters are ==-equal in Python (1 == True == 1.0,
0 == False == 0.0; a member of a str/int-mixin enum == the member of another such enum with the same value == the bare value; also inside tuples / dicts / nested tasks) but are different tasks: they serialise
differently, have different cache keys, and run() returns a string that reveals the parameter types."""
from enum import Enum, IntEnum, StrEnum
from typing import Any

import labtech
from frozendict import frozendict

from histtasks import RecJson, RecPickle, log_line


class ImageSets(str, Enum):
    TRAIN = 'train'
    TEST = 'test'


class TextSets(StrEnum):
    TRAIN = 'train'
    TEST = 'test'


class Depth(IntEnum):
    SHALLOW = 1
    DEEP = 2


class Width(int, Enum):
    NARROW = 1
    WIDE = 2


def reveal(v):
    if isinstance(v, Enum):        # before the scalar case: members of mixin enums ARE str / int instances
        return f'{type(v).__name__}.{v.name}'
    if isinstance(v, (tuple, list)):
        return '(' + ','.join(reveal(x) for x in v) + ')'
    if isinstance(v, (dict, frozendict)):
        return '{' + ','.join(f'{k}={reveal(x)}' for k, x in v.items()) + '}'
    if labtech.is_task(v):
        return f'{type(v).__name__}<{reveal(v.value)}>'
    return f'{type(v).__name__}:{v!r}'


def _run(self):
    r = reveal(self.value)
    log_line(f'X {self.k} {r}')
    return r


@labtech.task(cache=RecPickle())
class Describe:
    value: Any
    k: int = 0      # excluded from nothing: tasks of one sequence all use k=0 so that they stay ==-equal
    run = _run


@labtech.task(cache=RecJson())
class DescribeJ:
    value: Any
    k: int = 0
    run = _run


@labtech.task(cache=RecPickle())
class Wrap:
    inner: Describe
    k: int = 0

    def run(self):
        r = 'Wrap<' + self.inner.result + '>'
        log_line(f'X {self.k} {r}')
        return r


GROUPS = {'one': [1, True, 1.0], 'zero': [0, False, 0.0],
          # members of two mixin enums with equal underlying values, and the bare value: all ==-equal
          'strenum': [ImageSets.TRAIN, TextSets.TRAIN, 'train'],
          'intenum': [Depth.SHALLOW, Width.NARROW, 1]}
SHAPES = ('top', 'tuple', 'dict', 'deep', 'task')


def build(shape, v, kind):
    cls = Describe if kind == 'p' else DescribeJ
    if shape == 'top':
        return cls(value=v)
    if shape == 'tuple':
        return cls(value=(v, 'x'))
    if shape == 'dict':
        return cls(value={'a': v})
    if shape == 'deep':
        return cls(value={'a': [v, 2], 'b': (v,)})
    return Wrap(inner=Describe(value=v))


def expected(shape, v):
    if shape == 'top':
        return reveal(v)
    if shape == 'tuple':
        return reveal((v, 'x'))
    if shape == 'dict':
        return reveal({'a': v})
    if shape == 'deep':
        return reveal({'a': (v, 2), 'b': (v,)})
    return 'Wrap<' + reveal(v) + '>'
