"""Class / enum-member resolution of the deserialiser against its Lean model (driver word CLSRES, Model/ClassRes.lean).

Generated package trees (packages, modules, classes nested up to depth 3, Enum / IntEnum / Flag / IntFlag classes with
combinations and unnamed bits, deliberately SHADOWING submodules: `pkg/mod/ModelA.py` next to a class `ModelA` in
`pkg/mod/__init__.py`, modules with a missing dependency) are written to a temp dir and imported in a FRESH interpreter
per tree (this file run as a child: output to a file, own session; sys.path = the temp dir + $VERIF_REPO or /repo).  The
child calls the real `Serializer().deserialize_class / serialize_class / serialize_enum / deserialize_enum` on
 (i)  the serialisation of every class of the tree and of values of every enum class, and
 (ii) strings that name nothing (mutated class strings, module paths, unknown names; mutated enum names),
each query in a fresh import state (the tree's modules are purged from sys.modules in between - the model describes
what a process that has imported nothing of the tree finds).  The parent sends the same world and strings to the driver.

* correspondence: every answer (class found / module found / error class; enum name; enum value / KeyError) equals
  the model's -> otherwise a `disagreement`.
* monitor (model-independent): a class whose holder path is not shadowed by a module (NoShadow) comes back from
  `deserialize_class(serialize_class(cls))`; a value of an enum class (not shadowed) comes back from
  `deserialize_enum(serialize_enum(v))`; two values of one enum class never share a serialised name -> otherwise a
  C09 `violation`.

A *tree* is JSON: {'tops': [node]}, node = {'name', 'kind': 'pkg'|'mod', 'broken': bool, 'classes': [cls], 'children': [node]},
cls = {'name', 'kind': 'plain'|'E'|'IE'|'F'|'K'|'IK'|'IF', 'members': [[name, value]], 'nested': [cls]}.
"""
import collections
import json
import os
import random
import shutil
import signal
import subprocess
import sys
import tempfile
import time

HERE = os.path.dirname(os.path.abspath(__file__))
MISSING_DEP = 'zz_vt_missing_dep'

PKG_NAMES = ['vtpkg', 'mod', 'sub', 'core', 'util']
TOP_NAMES = ['vtpkg', 'vtlib', 'vtapp']
CLS_NAMES = ['ModelA', 'ModelB', 'Outer', 'Inner', 'Variant', 'Kind', 'Cfg']
UNKNOWN = ['Nope', 'zz', 'Missing', 'variant']
MEMBER_NAMES = ['R', 'W', 'X', 'A', 'B', 'SMALL', 'LARGE']
# enum kinds: plain Enum, IntEnum, Flag (STRICT), Flag boundary=KEEP, IntFlag (KEEP), IntFlag boundary=STRICT
ENUM_BASE = {'E': 'enum.Enum', 'IE': 'enum.IntEnum', 'F': 'enum.Flag', 'K': 'enum.Flag, boundary=enum.KEEP',
             'IK': 'enum.IntFlag', 'IF': 'enum.IntFlag, boundary=enum.STRICT'}
MODEL_KIND = {'E': 'E', 'IE': 'E', 'F': 'F', 'K': 'K', 'IK': 'K', 'IF': 'F'}


def hx(s):
    return s.encode('utf-8').hex()


# ------------------------------------------------------------------------------------------------ generation

def gen_enum(rnd, name):
    kind = rnd.choice(['E', 'IE', 'F', 'F', 'K', 'IK', 'IK', 'IF'])
    names = rnd.sample(MEMBER_NAMES, rnd.randrange(1, 5))
    members = []
    if kind in ('E', 'IE'):
        vals = rnd.sample(range(0, 9), len(names))
        members = [[n, v] for n, v in zip(names, vals)]
    else:
        bits = rnd.sample(range(0, 5), len(names))   # gaps allowed (bit 2 unused ...)
        members = [[n, 1 << b] for n, b in zip(names, bits)]
        if rnd.random() < 0.3:
            members.append(['NONE', 0])
        if len(names) >= 2 and rnd.random() < 0.4:
            k = rnd.randrange(2, len(names) + 1)
            members.append(['ALL' if k == len(names) else 'SOME', sum(1 << b for b in rnd.sample(bits, k))])
        if rnd.random() < 0.5:
            rnd.shuffle(members)   # definition order need not be value order
    return dict(name=name, kind=kind, members=members, nested=[])


def gen_classes(rnd, depth, names=None):
    out = []
    pool = list(dict.fromkeys(names or CLS_NAMES))
    rnd.shuffle(pool)
    for name in pool[:rnd.randrange(0, 3 if depth else 4)]:
        if rnd.random() < 0.35:
            out.append(gen_enum(rnd, name))
        else:
            nested = gen_classes(rnd, depth + 1) if depth < 2 and rnd.random() < 0.7 else []
            out.append(dict(name=name, kind='plain', members=[], nested=nested))
    return out


def class_paths(classes, prefix=()):
    """[(qualname components, cls)] of a class list, depth first"""
    out = []
    for c in classes:
        q = prefix + (c['name'],)
        out.append((q, c))
        out += class_paths(c['nested'], q)
    return out


def gen_node(rnd, name, depth, force_pkg=False):
    is_pkg = force_pkg or (depth < 2 and rnd.random() < 0.5)
    node = dict(name=name, kind='pkg' if is_pkg else 'mod', broken=rnd.random() < 0.06, classes=gen_classes(rnd, 0), children=[])
    if is_pkg:
        names = rnd.sample(PKG_NAMES[1:], rnd.randrange(0, 3))
        node['children'] = [gen_node(rnd, n, depth + 1) for n in names]
        # SHADOWING: a submodule / subpackage named like a class of this package's __init__
        for q, c in class_paths(node['classes']):
            if len(q) == 1 and rnd.random() < (0.45 if c['nested'] else 0.15):
                node['children'].append(gen_shadow(rnd, c, depth + 1))
    return node


def gen_shadow(rnd, c, depth):
    """a module named like class `c` of the parent package: sometimes defines classes named like c's nested ones
    (the wrong object is found), sometimes is a package with a submodule named like a nested class"""
    inner = [n['name'] for n in c['nested']]
    flavour = rnd.choice(['same', 'same', 'other', 'pkg', 'broken'])
    node = dict(name=c['name'], kind='mod', broken=flavour == 'broken', classes=[], children=[])
    if flavour in ('same', 'broken') and inner:
        node['classes'] = gen_classes(rnd, 1, names=inner + ['Cfg']) or [dict(name=inner[0], kind='plain', members=[], nested=[])]
    elif flavour == 'other':
        node['classes'] = gen_classes(rnd, 1, names=['Cfg', 'Kind'])
    elif flavour == 'pkg' and depth < 3:
        node['kind'] = 'pkg'
        if inner:
            node['children'] = [dict(name=inner[0], kind='mod', broken=False, classes=gen_classes(rnd, 1), children=[])]
    return node


def gen_tree(rnd):
    tops = []
    for name in rnd.sample(TOP_NAMES, rnd.randrange(1, 3)):
        tops.append(gen_node(rnd, name, 0, force_pkg=rnd.random() < 0.8))
    return dict(tops=tops)


# ------------------------------------------------------------------------------------------------ the world of a tree

def walk_nodes(tree):
    """[(module path components, node, importable)]; importable = no broken module on the path"""
    out = []

    def rec(node, prefix, ok):
        p = prefix + (node['name'],)
        ok = ok and not node['broken']
        out.append((p, node, ok))
        for ch in node['children']:
            rec(ch, p, ok)
    for t in tree['tops']:
        rec(t, (), True)
    return out


def world_words(tree):
    ws = []
    for p, node, _ in walk_nodes(tree):
        attrs = ','.join(hx('.'.join(q)) for q, _ in class_paths(node['classes'])) or '-'
        ws.append('%s:%d:%s' % (hx('.'.join(p)), int(node['broken']), attrs))
    return [str(len(ws))] + ws


def enum_word(c):
    return MODEL_KIND[c['kind']] + ':' + ','.join('%s=%d' % (hx(n), v) for n, v in c['members'])


def no_shadow(modules, m, q):
    return not any(m + q[:i] in modules for i in range(1, len(q)))


def write_tree(tree, root):
    def rec(node, d):
        src = ['"""generated by harness/clsres.py"""', 'import enum']
        if node['broken']:
            src.append('import ' + MISSING_DEP)

        def emit(classes, ind):
            for c in classes:
                base = '(%s)' % ENUM_BASE[c['kind']] if c['kind'] != 'plain' else ''
                src.append('%sclass %s%s:' % (ind, c['name'], base))
                body = False
                for n, v in c['members']:
                    src.append('%s    %s = %d' % (ind, n, v))
                    body = True
                if c['nested']:
                    emit(c['nested'], ind + '    ')
                    body = True
                if not body:
                    src.append(ind + '    pass')
        emit(node['classes'], '')
        text = '\n'.join(src) + '\n'
        if node['kind'] == 'pkg':
            os.makedirs(os.path.join(d, node['name']))
            open(os.path.join(d, node['name'], '__init__.py'), 'w').write(text)
            for ch in node['children']:
                rec(ch, os.path.join(d, node['name']))
        else:
            open(os.path.join(d, node['name'] + '.py'), 'w').write(text)
    for t in tree['tops']:
        rec(t, root)


# ------------------------------------------------------------------------------------------------ queries

def gen_queries(rnd, tree, n_random):
    """queries: ['rt', m, q] class round trip; ['cls', s] a string; ['ert', m, q, v] enum value round trip (+ its name);
    ['emem', m, q, name] an enum name"""
    nodes = walk_nodes(tree)
    modules = {p for p, _, _ in nodes}
    qs = []
    strings = []
    for p, node, ok in nodes:
        strings.append('.'.join(p))
        for q, c in class_paths(node['classes']):
            strings.append('.'.join(p + q))
            if ok:
                qs.append(['rt', list(p), list(q)])
            if ok and c['kind'] != 'plain' and no_shadow(modules, p, q):
                mk = MODEL_KIND[c['kind']]
                vals = [v for _, v in c['members']]
                if mk == 'E':
                    vals += [rnd.randrange(0, 10)]
                else:
                    mask = 0
                    for v in vals:
                        mask |= v
                    vals += [0, mask, rnd.randrange(0, 64), rnd.randrange(0, 64), mask | 32, 32, 64 | (vals[0] if vals else 0)]
                    vals += [rnd.choice(vals) | rnd.choice(vals) for _ in range(3)]
                seen = set()
                for v in vals:
                    if v not in seen:
                        seen.add(v)
                        qs.append(['ert', list(p), list(q), v])
                names = [n for n, _ in c['members']]
                parts = names + ['0', '8', '3', '32', '08', 'Q', 'ZZ', '', '5', '64', 'NONE', 'ALL']
                for _ in range(6):
                    k = rnd.choice([1, 1, 2, 2, 3, 4])
                    qs.append(['emem', list(p), list(q), '|'.join(rnd.choice(parts) for _ in range(k))])
    vocab = sorted({x for s in strings for x in s.split('.')}) + UNKNOWN
    seen = set()
    for _ in range(n_random):
        if strings and rnd.random() < 0.8:
            comps = rnd.choice(strings).split('.')
            for _ in range(rnd.randrange(1, 3)):
                r = rnd.random()
                i = rnd.randrange(len(comps))
                if r < 0.3:
                    comps[i] = rnd.choice(vocab)
                elif r < 0.5:
                    comps.insert(i + 1, rnd.choice(vocab))
                elif r < 0.7:
                    comps.append(rnd.choice(vocab))
                elif r < 0.85 and len(comps) > 1:
                    del comps[i]
                elif r < 0.9 and i > 0:
                    comps[i] = ''
                else:
                    comps = comps[:i + 1]
        else:
            comps = [rnd.choice(vocab) for _ in range(rnd.randrange(1, 5))]
        s = '.'.join(comps)
        if comps[0] == '' or s in seen:
            continue   # an empty first component is outside the model (see Model/ClassRes.lean)
        seen.add(s)
        qs.append(['cls', s])
    return qs


def find_class(tree, m, q):
    for p, node, _ in walk_nodes(tree):
        if list(p) == list(m):
            for qq, c in class_paths(node['classes']):
                if list(qq) == list(q):
                    return c
    return None


def model_lines(tree, queries):
    """driver lines per query (a list per query) and how to read them"""
    ww = world_words(tree)
    out = []
    for qu in queries:
        if qu[0] == 'rt':
            out.append([' '.join(['CLSRES', 'CLS', hx('.'.join(qu[1] + qu[2]))] + ww), ' '.join(['CLSRES', 'OLD', hx('.'.join(qu[1] + qu[2]))] + ww)])
        elif qu[0] == 'cls':
            out.append([' '.join(['CLSRES', 'CLS', hx(qu[1])] + ww), ' '.join(['CLSRES', 'OLD', hx(qu[1])] + ww)])
        elif qu[0] == 'ert':
            out.append(['CLSRES NAME %s %d' % (enum_word(find_class(tree, qu[1], qu[2])), qu[3])])
        elif qu[0] == 'emem':
            out.append(['CLSRES MEMBER %s %s' % (enum_word(find_class(tree, qu[1], qu[2])), hx(qu[3]) or '-')])
    return out


def read_cls(line):
    """driver answer -> the form the child reports"""
    w = line.split(' ')
    if w[0] == 'ok':
        m = bytes.fromhex(w[1]).decode()
        return ['module', m] if w[2] == '-' else ['class', m, bytes.fromhex(w[2]).decode()]
    if w[0] == 'err':
        return ['err', w[1]]
    return ['?', line]


# ------------------------------------------------------------------------------------------------ the child

def child_main(root, repo, job_path, out_path):
    sys.dont_write_bytecode = True
    sys.path[:0] = [root, repo]
    import importlib
    import types
    from labtech.serialization import Serializer
    job = json.load(open(job_path))
    tops = set(job['tops'])
    S = Serializer()

    def purge():
        for k in [k for k in sys.modules if k.split('.')[0] in tops]:
            del sys.modules[k]

    def describe(o):
        if isinstance(o, types.ModuleType):
            return ['module', o.__name__]
        if isinstance(o, type):
            return ['class', o.__module__, o.__qualname__]
        return ['other', repr(o)[:60]]

    def attempt(f):
        try:
            return f()
        except BaseException as e:   # noqa
            return ['err', type(e).__name__]

    def get_class(m, q):
        o = importlib.import_module('.'.join(m))
        for a in q:
            o = getattr(o, a)
        return o

    results = []
    for qu in job['queries']:
        purge()
        if qu[0] == 'rt':
            try:
                s = S.serialize_class(get_class(qu[1], qu[2]))
            except BaseException as e:   # noqa
                results.append(dict(infra='building the class raised %s: %s' % (type(e).__name__, e)))
                continue
            purge()
            results.append(dict(s=s, got=attempt(lambda: describe(S.deserialize_class(s)))))
        elif qu[0] == 'cls':
            results.append(dict(got=attempt(lambda: describe(S.deserialize_class(qu[1])))))
        elif qu[0] == 'ert':
            try:
                cls = get_class(qu[1], qu[2])
            except BaseException as e:   # noqa
                results.append(dict(infra='building the enum class raised %s: %s' % (type(e).__name__, e)))
                continue
            try:
                v = cls(qu[3])
            except ValueError:
                results.append(dict(exists=False))
                continue
            r = dict(exists=True, value=v.value)
            try:
                ser = S.serialize_enum(v)
                r['ser_class'] = ser['__class__']
                r['name'] = ser['name']
                json.dumps(ser)
            except BaseException as e:   # noqa
                r['ser_err'] = type(e).__name__
                results.append(r)
                continue
            try:
                back = S.deserialize_enum(json.loads(json.dumps(ser)))
                r['back'] = [type(back).__module__, type(back).__qualname__, back.value, bool(back == v and type(back) is type(v))]
            except BaseException as e:   # noqa
                r['back_err'] = type(e).__name__
            results.append(r)
        elif qu[0] == 'emem':
            ser = {'_is_enum': True, '__class__': '.'.join(qu[1] + qu[2]), 'name': qu[3]}
            try:
                back = S.deserialize_enum(ser)
                results.append(dict(got=['ok', back.value, type(back).__qualname__]))
            except BaseException as e:   # noqa
                results.append(dict(got=['err', type(e).__name__]))
    json.dump(results, open(out_path, 'w'))


# ------------------------------------------------------------------------------------------------ running trees

def run_trees(cases, timeout=60, parallel=16):
    """cases: [(tree, queries)] -> [results list | {'infra': str}] ; one fresh interpreter per tree"""
    repo = os.environ.get('VERIF_REPO', '/repo')
    base = tempfile.mkdtemp(prefix='verif-clsres-')
    out = [None] * len(cases)
    try:
        pending = list(range(len(cases)))
        running = {}
        while pending or running:
            while pending and len(running) < parallel:
                i = pending.pop(0)
                d = os.path.join(base, 'case%d' % i)
                root = os.path.join(d, 'root')
                os.makedirs(root)
                tree, queries = cases[i]
                write_tree(tree, root)
                json.dump(dict(tops=[t['name'] for t in tree['tops']], queries=queries), open(os.path.join(d, 'job.json'), 'w'))
                log = open(os.path.join(d, 'log.txt'), 'w')
                env = dict(os.environ)
                env.pop('PYTHONPATH', None)
                p = subprocess.Popen([sys.executable, os.path.abspath(__file__), '--child', root, repo, os.path.join(d, 'job.json'),
                                      os.path.join(d, 'out.json')], stdout=log, stderr=log, stdin=subprocess.DEVNULL,
                                     start_new_session=True, env=env, cwd=d)
                running[i] = (p, time.time(), d, log)
            for i, (p, t0, d, log) in list(running.items()):
                rc = p.poll()
                if rc is None and time.time() - t0 > timeout:
                    try:
                        os.killpg(p.pid, signal.SIGKILL)
                    except OSError:
                        pass
                    p.wait()
                    rc = -9
                if rc is None:
                    continue
                log.close()
                del running[i]
                try:
                    out[i] = json.load(open(os.path.join(d, 'out.json')))
                except Exception:
                    out[i] = dict(infra='child rc=%s: %s' % (rc, open(os.path.join(d, 'log.txt')).read()[-600:]))
            if running:
                time.sleep(0.01)
    finally:
        shutil.rmtree(base, ignore_errors=True)
    return out


def judge(tree, queries, results, model):
    """-> (violations, disagreements, facts)"""
    viol, dis = [], []
    facts = collections.Counter()
    nodes = walk_nodes(tree)
    modules = {p for p, _, _ in nodes}
    names_seen = {}
    for qu, r, ml in zip(queries, results, model):
        rp = dict(kind='clsres', tree=tree, queries=[qu])
        if 'infra' in r:
            dis.append(dict(case=rp, diff='harness: ' + r['infra']))
            continue
        if qu[0] in ('rt', 'cls'):
            s = r.get('s', qu[1] if qu[0] == 'cls' else None)
            want = read_cls(ml[0])
            old = read_cls(ml[1])
            facts['class_strings'] += 1
            facts['answer:' + (r['got'][0] if r['got'][0] != 'err' else r['got'][1])] += 1
            if old != want:
                facts['old_rule_differs'] += 1
            if r['got'] != want:
                dis.append(dict(case=rp, diff='deserialize_class(%r): real %s, model %s' % (s, r['got'], want)))
            if qu[0] == 'rt':
                m, q = tuple(qu[1]), tuple(qu[2])
                if s != '.'.join(m + q):
                    dis.append(dict(case=rp, diff='serialize_class gave %r for %s / %s' % (s, m, q)))
                ns = no_shadow(modules, m, q)
                facts['classes_noshadow' if ns else 'classes_shadowed'] += 1
                facts['qualname_depth:%d' % len(q)] += 1
                right = r['got'] == ['class', '.'.join(m), '.'.join(q)]
                if not ns and not right:
                    facts['shadowed_class_not_found:' + ('wrong object' if r['got'][0] != 'err' else r['got'][1])] += 1
                if ns and not right:
                    viol.append(dict(what='deserialize_class(serialize_class(cls)) does not find the class again: %s for a class nested %d deep '
                                          'whose holder path is not shadowed by a module' % (r['got'][1] if r['got'][0] == 'err' else 'another object', len(q) - 1),
                                     replay=rp))
        elif qu[0] == 'ert':
            facts['enum_values'] += 1
            want = ml[0]
            if not r['exists']:
                facts['enum_value_not_constructible'] += 1
                if want != 'none':
                    dis.append(dict(case=rp, diff='enum value %d: the class rejects it, model names it %s' % (qu[3], want)))
                continue
            c = find_class(tree, qu[1], qu[2])
            cs = '.'.join(qu[1] + qu[2])
            what = None
            if 'ser_err' in r:
                what = 'serialize_enum raised ' + r['ser_err']
            else:
                name = r['name']
                kind = ('member' if any(v == qu[3] for _, v in c['members']) else
                        'number' if isinstance(name, str) and name.isdigit() else
                        'combination+number' if isinstance(name, str) and name.split('|')[-1].isdigit() else 'combination')
                facts['enum_name:' + kind] += 1
                want_name = bytes.fromhex(want.split(' ')[1]).decode() if want.startswith('ok ') else None
                if name != want_name or r['ser_class'] != cs:
                    dis.append(dict(case=rp, diff='serialize_enum(%s(%d)): real %r / %r, model %r' % (cs, qu[3], r['ser_class'], name, want_name)))
                key = (cs, json.dumps(name))
                if key in names_seen and names_seen[key][3] != qu[3]:
                    what = 'two values of one Flag class (%d and %d) are serialised alike (name %r)' % (names_seen[key][3], qu[3], name)
                    rp = dict(kind='clsres', tree=tree, queries=[names_seen[key], qu])
                names_seen.setdefault(key, qu)
                if 'back_err' in r:
                    what = what or 'deserialize_enum(serialize_enum(v)) raised %s for a %s value named %r' % (r['back_err'], c['kind'], name)
                elif r['back'] != ['.'.join(qu[1]), '.'.join(qu[2]), qu[3], True]:
                    what = what or 'deserialize_enum(serialize_enum(v)) returned another value for a %s value named %r' % (c['kind'], name)
            if what:
                viol.append(dict(what=what, replay=rp))
        elif qu[0] == 'emem':
            facts['enum_names'] += 1
            want = ml[0].split(' ')
            got = r['got']
            facts['enum_lookup:' + ('ok' if got[0] == 'ok' else got[1])] += 1
            same = (got[0] == 'ok' and want[0] == 'ok' and int(want[1]) == got[1]) or (got[0] == 'err' and want[0] == 'err' and want[1] == got[1])
            if not same:
                dis.append(dict(case=rp, diff='deserialize_enum(name=%r) of %s: real %s, model %s' % (qu[3], '.'.join(qu[1] + qu[2]), got, ' '.join(want))))
    return viol, dis, facts


def prune(tree, qu):
    """the tree cut down to the nodes on the module path of the query (and their same-named shadows)"""
    if qu[0] == 'cls':
        return tree
    m, q = qu[1], qu[2]
    keep = set(m) | set(q)

    def cut(classes):
        return [dict(c, nested=cut(c['nested'])) for c in classes if c['name'] in keep]

    def rec(node):
        return dict(node, children=[rec(ch) for ch in node['children'] if ch['name'] in keep], classes=cut(node['classes']))
    return dict(tops=[rec(t) for t in tree['tops'] if t['name'] in keep])


def run_cases(cases):
    import driver
    results = run_trees(cases)
    viol, dis = [], []
    facts = collections.Counter()
    lines, spans = [], []
    for (tree, queries), res in zip(cases, results):
        if isinstance(res, dict):
            continue
        ml = model_lines(tree, queries)
        spans.append((len(lines), [len(x) for x in ml]))
        for x in ml:
            lines += x
    outs = driver.run_lines(lines) if lines else []
    si = 0
    for (tree, queries), res in zip(cases, results):
        if isinstance(res, dict):
            dis.append(dict(case=dict(kind='clsres', tree=tree, queries=queries[:3]), diff='harness: ' + res['infra']))
            continue
        start, lens = spans[si]
        si += 1
        model = []
        for n in lens:
            model.append(outs[start:start + n])
            start += n
        v, d, f = judge(tree, queries, res, model)
        viol += v
        dis += d
        facts.update(f)
        facts['trees'] += 1
        facts['queries'] += len(queries)
        if any(not no_shadow({p for p, _, _ in walk_nodes(tree)}, tuple(q[1]), tuple(q[2])) for q in queries if q[0] == 'rt'):
            facts['trees_with_shadowing'] += 1
        if any(n['broken'] for _, n, _ in walk_nodes(tree)):
            facts['trees_with_missing_dependency'] += 1
    return viol, dis, facts


def phase(seed, tier, proof_ok=True):
    """the C09 phase: -> dict(violations, disagreements, evaluations, distribution, samples, wall)"""
    t0 = time.time()
    rnd = random.Random(seed * 1000003 + 909)
    n_trees = 16 if tier == 'quick' else 240
    viol, dis = [], []
    facts = collections.Counter()
    samples = []
    rounds = 0
    while True:
        rounds += 1
        cases = []
        for _ in range(n_trees):
            tree = gen_tree(rnd)
            cases.append((tree, gen_queries(rnd, tree, 30)))
        v, d, f = run_cases(cases)
        viol += v
        dis += d
        facts.update(f)
        if not samples:
            for tree, queries in cases[:2]:
                samples.append(dict(modules=['.'.join(p) + (' [missing dependency]' if n['broken'] else '') for p, n, _ in walk_nodes(tree)][:8],
                                    class_strings=[q[1] if q[0] == 'cls' else '.'.join(q[1] + q[2]) for q in queries if q[0] in ('cls', 'rt')][:6]))
        if (not proof_ok or dis) and not viol and rounds == 1:
            n_trees *= 3   # enlarged search
            continue
        break
    # shrink: the first alarms, cut down to the path of the query
    firsts = {}
    for v in viol:
        firsts.setdefault(v['what'][:60], v)
    for v in list(firsts.values())[:3]:
        rp = v['replay']
        small = prune(rp['tree'], rp['queries'][0])
        try:
            v2, _, _ = run_cases([(small, rp['queries'])])
            if any(x['what'][:40] == v['what'][:40] for x in v2):
                v['replay'] = dict(kind='clsres', tree=small, queries=rp['queries'])
        except Exception:
            pass
    return dict(violations=viol, disagreements=dis, evaluations=facts['queries'], distribution={'clsres:' + k: n for k, n in sorted(facts.items())},
                samples=samples, wall=time.time() - t0)


def replay(rp):
    v, d, f = run_cases([(rp['tree'], rp['queries'])])
    return v, d, f['queries']


if __name__ == '__main__':
    if len(sys.argv) == 6 and sys.argv[1] == '--child':
        child_main(*sys.argv[2:6])
    else:
        sys.path.insert(0, HERE)
        r = phase(int(sys.argv[1]) if len(sys.argv) > 1 else 1, sys.argv[2] if len(sys.argv) > 2 else 'quick')
        print(json.dumps(dict(r, violations=[v['what'] for v in r['violations']][:10], disagreements=[d['diff'] for d in r['disagreements']][:20]), indent=1))
