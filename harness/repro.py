"""Reproductions of the defects D1..D17 (DESIGN.md section 8) against /repo's working tree.

`python repro.py D1 D3 ...` runs each named reproduction in a fresh interpreter and prints one
JSON line per defect: {"id", "property", "violated", "detail"}.  `violated` is true when the real
code shows the defective behaviour.  These are the minimised past failures of the corpus: every
property check replays the ones that belong to it.
"""
import json
import logging
import os
import pickle
import subprocess
import sys
import tempfile
import threading
import time
import _thread

HERE = os.path.dirname(os.path.abspath(__file__))
sys.path.insert(0, HERE)

PROP = {
    'D1': 'C10', 'D2': 'C02', 'D3': 'C17', 'D4': 'C16', 'D5a': 'C19', 'D5b': 'C19', 'D5c': 'C19',
    'D6': 'C09', 'D7': 'C12', 'D9': 'C01', 'D10': 'C07', 'D11': 'C14', 'D13': 'C15', 'D14': 'C14',
    'D15': 'C14', 'D16': 'C10', 'D17': 'C14', 'D23': 'C10', 'D24': 'C11',
}


def _lab(d, backend, **kw):
    import labtech
    labtech.logger.setLevel(logging.CRITICAL)
    return labtech.Lab(storage=d, runner_backend=backend, max_workers=kw.pop('max_workers', 2), **kw)


def _run(lab, ts, **kw):
    return lab.run_tasks(ts, disable_progress=True, disable_top=True, **kw)


def D1():
    from vtasks import Leaf
    out = {}
    for backend in ('serial', 'fork'):
        with tempfile.TemporaryDirectory() as d:
            lab = _lab(d, backend)
            ts = [Leaf(1), Leaf(2, fail=True), Leaf(3)]
            try:
                r = _run(lab, ts)
                out[backend] = 'returned ' + str(sorted(v for v in r.values()))
            except BaseException as e:
                out[backend] = 'raised ' + type(e).__name__
    return any(v.startswith('raised') for v in out.values()), out


def D2():
    from vtasks import Leaf, Pair
    with tempfile.TemporaryDirectory() as d:
        lab = _lab(d, 'spawn')
        t = Pair(Leaf(5), Leaf(6, fail=True))
        try:
            r = _run(lab, [t])
            return r.get(t) != [50, 'TaskError'], 'returned ' + str(r.get(t))
        except BaseException as e:
            return True, 'raised ' + type(e).__name__


def D3():
    from vtasks import Leaf, Pair
    import labtech.runners.serial as S
    captured = []
    orig = S.SerialRunner.__init__

    def init(self, **kw):
        orig(self, **kw)
        captured.append(self)
    S.SerialRunner.__init__ = init
    with tempfile.TemporaryDirectory() as d:
        lab = _lab(d, 'serial')
        left = 0
        for i in range(4):
            captured.clear()
            ts = [Pair(Leaf(100 + i), Leaf(200 + i, fail=True)), Pair(Leaf(200 + i, fail=True), Leaf(300 + i))]
            try:
                _run(lab, ts)
            except KeyError:
                pass  # D1 (a requested task failed); the runner state is what matters here
            if captured[0].results_map:
                left += 1
    return left > 0, f'results left behind in {left} of 4 runs'


def D4():
    import vtasks
    vtasks.MARK = 'parent-mutated'
    lab = _lab(None, 'spawn')
    t = vtasks.Env(1)
    r = _run(lab, [t])[t]
    bad = r['start_method'] != 'spawn' or r['mark'] != 'initial'
    return bad, {k: r[k] for k in ('start_method', 'mark')}


class _H(logging.Handler):
    def __init__(self):
        super().__init__()
        self.msgs = []

    def emit(self, r):
        self.msgs.append(r.getMessage())


def _talk(flushes, n=3, delay=0.0):
    import labtech
    from vtasks import Talk
    lab = _lab(None, 'fork', max_workers=4)
    labtech.logger.setLevel(logging.INFO)
    for h in list(labtech.logger.handlers):
        h.setLevel(logging.CRITICAL)
    h = _H()
    labtech.logger.addHandler(h)
    _run(lab, [Talk(i, flushes, delay) for i in range(n)])
    return list(h.msgs)


def D5a():
    # extra flushes must not re-deliver
    from labtech.utils import LoggerFileProxy
    got = []
    p = LoggerFileProxy(got.append, 'P:')
    p.write('a')
    p.flush()
    p.write('b')
    p.flush()
    return got != ['P:a', 'P:b'], got


def D5b():
    msgs = _talk(0)
    prints = [m for m in msgs if 'PRINT' in m]
    want = 3
    n = sum(1 for i in range(3) if any(f'PRINT {i} one' in m for m in prints))
    return n != want, f'{n} of {want} tasks had their stdout delivered at return'


def D5c():
    msgs = _talk(0, n=1, delay=0.25)
    n = sum(1 for m in msgs if m.startswith('LOGMSG'))
    return n != 2, f'{n} of 2 logger records delivered at return'


def D6():
    from vtasks import Agg, Leaf, Color
    with tempfile.TemporaryDirectory() as d:
        lab = _lab(d, 'serial')
        agg = Agg(deps=[Leaf(7), Leaf(8)], c=Color.BLUE)
        _run(lab, [agg])
        ct = lab.cached_tasks([Agg])
        ok = ct == [agg] and [c.cache_key for c in ct] == [agg.cache_key]
        return not ok, repr(ct)


def D7():
    from vtasks import Unpicklable
    with tempfile.TemporaryDirectory() as d:
        lab = _lab(d, 'serial')
        u = Unpicklable(1)
        try:
            _run(lab, [u])
        except KeyError:
            pass  # D1
        return lab.is_cached(u), f'is_cached after failed save = {lab.is_cached(u)}'


def D9():
    from vtasks import Leaf, Pair2
    lab = _lab(None, 'serial')
    t = Pair2(Leaf(1), Leaf(1))
    assert t.a is not t.b
    try:
        r = _run(lab, [t])
    except KeyError:
        return True, 'task failed and KeyError (D1)'
    ok = r.get(t) == [10, 10] and t.a.result_meta is not None and t.b.result_meta is not None
    return not ok, f'result={r.get(t)} meta_a={t.a.result_meta is not None} meta_b={t.b.result_meta is not None}'


def D10():
    from vtasks import DictP, TaskP, Leaf
    a = DictP(p={'_is_task': True, '__class__': 'vtasks.Leaf', 'x': 1, 'fail': False})
    TaskP.__qualname__ = 'DictP'
    try:
        b = TaskP(p=Leaf(1))
    finally:
        TaskP.__qualname__ = 'TaskP'
    return a.cache_key == b.cache_key, f'{a.cache_key} vs {b.cache_key}'


def _interrupt_run(backend, tasks, tracer_factory, *, hang_s=6, **labkw):
    import labtech
    lab = _lab(None, backend, **labkw)
    hung = [False]
    done = threading.Event()

    def watchdog():
        if not done.wait(hang_s):
            hung[0] = True
            _thread.interrupt_main()
    threading.Thread(target=watchdog, daemon=True).start()
    tracer = tracer_factory()
    sys.settrace(tracer)
    try:
        _run(lab, tasks)
        out = 'returned'
    except BaseException as e:
        out = type(e).__name__
    finally:
        sys.settrace(None)
        done.set()
    return out, hung[0]


def _line_tracer(filename_suffix, funcname, pred):
    """Raise KeyboardInterrupt once, in the main thread, on the first 'line' event for which
    pred(frame) is true inside the given function."""
    mypid = os.getpid()
    main = threading.main_thread()
    fired = [False]

    def factory():
        def local(frame, event, arg):
            if (event == 'line' and not fired[0] and os.getpid() == mypid
                    and threading.current_thread() is main and pred(frame)):
                fired[0] = True
                raise KeyboardInterrupt
            return local

        def tracer(frame, event, arg):
            if frame.f_code.co_filename.endswith(filename_suffix) and frame.f_code.co_name == funcname:
                return local
            return None
        return tracer
    return factory, fired


def D11():
    # interrupt right after the first complete_task inside the completion loop of a process runner
    from vtasks import Slow
    import labtech.lab as L
    fired = [False]
    orig = L.TaskState.complete_task

    def complete_task(self, task, *, result_meta):
        r = orig(self, task, result_meta=result_meta)
        if not fired[0]:
            fired[0] = True
            raise KeyboardInterrupt
        return r
    L.TaskState.complete_task = complete_task
    out, hung = _interrupt_run('fork', [Slow(1), Slow(2), Slow(3)], lambda: None, max_workers=4)
    return out != 'KeyboardInterrupt' or hung, f'run_tasks ended with {out}, hung={hung}'


def D14():
    # interrupt between the bookkeeping statements of _start_processes for the second future
    from vtasks import Slow
    import inspect
    import labtech.runners.process as P
    src, first = inspect.getsourcelines(P.ProcessExecutor._start_processes)
    seen = []

    def pred(frame):
        fut = frame.f_locals.get('future')
        if fut is None:
            return False
        line = src[frame.f_lineno - first].strip()
        # fire on the second future, at the statement after the first bookkeeping mutation
        if fut.id not in seen and len(seen) == 0:
            seen.append(fut.id)
        if fut.id != seen[0]:
            pend = fut in frame.f_locals['self']._pending_future_to_thunk
            run = fut.id in frame.f_locals['self']._running_id_to_future_and_process
            return (not pend) and (not run)
        return False
    factory, fired = _line_tracer('runners/process.py', '_start_processes', pred)
    out, hung = _interrupt_run('fork', [Slow(1), Slow(2)], factory, max_workers=1, hang_s=5)
    if not fired[0]:
        return False, 'no instant at which a future is neither pending nor running'
    return out != 'KeyboardInterrupt' or hung, f'run_tasks ended with {out}, hung={hung}'


def D15():
    from vtasks import Slow
    import inspect
    import labtech.runners.base as B
    src, first = inspect.getsourcelines(B.run_or_load_task)
    try_line = next(i for i, l in enumerate(src) if l.strip() == 'try:') + first

    def pred(frame):
        return frame.f_lineno == try_line + 1
    factory, fired = _line_tracer('runners/base.py', 'run_or_load_task', pred)
    out, hung = _interrupt_run('serial', [Slow(1), Slow(2)], factory)
    return out != 'KeyboardInterrupt' or hung, f'run_tasks ended with {out}, hung={hung}, fired={fired[0]}'


def D16():
    from vtasks import Exits, Leaf
    lab = _lab(None, 'fork', continue_on_failure=True)
    a, b = Exits(1), Leaf(2)
    try:
        r = _run(lab, [a, b])
        return r.get(b) != 20, f'returned {list(r.values())}'
    except KeyError:
        return False, 'KeyError for the failed requested task only (D1)'
    except BaseException as e:
        return True, f'raised {type(e).__name__}: {e}'


def D23():
    # a filter_context() that raises must be that task's failure on every backend
    from vtasks import BadFilter
    out = {}
    for backend in ('serial', 'fork', 'spawn'):
        lab = _lab(None, backend, context={'a': 1})
        ts = [BadFilter(0), BadFilter(1), BadFilter(2)]
        try:
            r = _run(lab, ts)
            out[backend] = 'returned ' + str(sorted(r.values()))
        except BaseException as e:
            out[backend] = 'raised ' + type(e).__name__
    return any(v != 'returned [0, 2]' for v in out.values()), out


def _nested(outer, inner):
    from vtasks import NestedLab
    import labtech
    lab = labtech.Lab(storage=None, runner_backend=outer, max_workers=2)   # logger level left at its default
    t = NestedLab(4, inner)
    r = _run(lab, [t])
    print('NESTED', r.get(t))


def D24():
    # run_tasks called from inside a task's run() in a worker process (default displays) must terminate
    import signal
    tmp = tempfile.mkdtemp(prefix='verif-d24-')
    procs = []
    for outer, inner in (('fork', 'serial'), ('spawn', 'fork'), ('serial', 'serial')):
        f = open(os.path.join(tmp, f'{outer}-{inner}.out'), 'w')
        procs.append((outer, inner, f, subprocess.Popen(
            [sys.executable, os.path.abspath(__file__), '--nested', outer, inner], stdout=f, stderr=subprocess.DEVNULL,
            stdin=subprocess.DEVNULL, start_new_session=True, env=os.environ)))
    out = {}
    deadline = time.time() + 25
    for outer, inner, f, p in procs:
        try:
            p.wait(timeout=max(0.1, deadline - time.time()))
            hung = False
        except subprocess.TimeoutExpired:
            hung = True
        try:
            os.killpg(p.pid, signal.SIGKILL)
        except ProcessLookupError:
            pass
        p.wait()
        f.close()
        got = [l for l in open(f.name, errors='replace').read().splitlines() if l.startswith('NESTED')]
        out[f'{outer}>{inner}'] = 'hang (no return within 25 s)' if hung else (got[-1] if got else f'exit {p.returncode}')
    import shutil
    shutil.rmtree(tmp, ignore_errors=True)
    return any(v != 'NESTED 40' for v in out.values()), out


def D17():
    # interrupt landing on `future.result()` inside ProcessRunner.wait
    from vtasks import Slow
    import inspect
    import labtech.runners.process as P
    src, first = inspect.getsourcelines(P.ProcessRunner.wait)

    def pred(frame):
        i = frame.f_lineno - first
        return 0 <= i < len(src) and 'future.result()' in src[i]
    factory, fired = _line_tracer('runners/process.py', 'wait', pred)
    out, hung = _interrupt_run('fork', [Slow(1), Slow(2)], factory)
    if not fired[0]:
        return False, 'no future.result() line executed inside a handler-less region'
    return out != 'KeyboardInterrupt' or hung, f'run_tasks ended with {out}, hung={hung}'


def D13():
    from vtasks import PostInit
    t = PostInit(3)
    u = pickle.loads(pickle.dumps(t))
    miss = [a for a in ('derived', 'context', 'result_meta', '_results_map') if not hasattr(u, a)]
    return bool(miss), f'missing after unpickle: {miss}'


ALL = ['D1', 'D2', 'D3', 'D4', 'D5a', 'D5b', 'D5c', 'D6', 'D7', 'D9', 'D10', 'D11', 'D13', 'D14', 'D15', 'D16', 'D17', 'D23', 'D24']


def run_one(name):
    t0 = time.time()
    try:
        violated, detail = globals()[name]()
        rec = dict(id=name, property=PROP[name], violated=bool(violated), detail=detail)
    except BaseException as e:  # the reproduction itself broke: report, do not guess
        import traceback
        rec = dict(id=name, property=PROP[name], violated=None, detail='repro error: ' + traceback.format_exc()[-600:])
    rec['wall_s'] = round(time.time() - t0, 2)
    return rec


def run_many(names, timeout=60):
    """Run each reproduction in a fresh interpreter (own session, output to a file: labtech's
    Manager() children inherit pipes and would keep them open); returns the records."""
    import signal
    tmp = tempfile.mkdtemp(prefix='verif-repro-')
    procs = []
    for n in names:
        f = open(os.path.join(tmp, n + '.out'), 'w')
        procs.append((n, f, subprocess.Popen(
            [sys.executable, os.path.abspath(__file__), '--one', n], stdout=f, stderr=subprocess.DEVNULL,
            stdin=subprocess.DEVNULL, start_new_session=True, env=dict(os.environ, PYTHONPATH=os.environ.get('VERIF_REPO', '/repo') + os.pathsep + HERE))))
    out = []
    deadline = time.time() + timeout
    for n, f, p in procs:
        hung = False
        try:
            p.wait(timeout=max(0.1, deadline - time.time()))
        except subprocess.TimeoutExpired:
            hung = True
        try:
            os.killpg(p.pid, signal.SIGKILL)
        except ProcessLookupError:
            pass
        p.wait()
        f.close()
        so = open(f.name).read()
        line = [l for l in so.splitlines() if l.startswith('{')]
        if line:
            out.append(json.loads(line[-1]))
        elif hung:
            out.append(dict(id=n, property=PROP[n], violated=True, detail='timeout (hang)'))
        else:
            out.append(dict(id=n, property=PROP[n], violated=None, detail='no output'))
    import shutil
    shutil.rmtree(tmp, ignore_errors=True)
    return out


if __name__ == '__main__':
    if len(sys.argv) >= 3 and sys.argv[1] == '--one':
        print(json.dumps(run_one(sys.argv[2])))
        sys.stdout.flush()
        sys.exit(0)
    if len(sys.argv) >= 4 and sys.argv[1] == '--nested':
        _nested(sys.argv[2], sys.argv[3])
        sys.stdout.flush()
        sys.exit(0)
    names = sys.argv[1:] or ALL
    for rec in run_many(names):
        print(json.dumps(rec))
