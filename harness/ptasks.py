"""Task and enum types for the parameter-tree checks (C07, C09, C15).  Importable by fresh
interpreters and by the deserialiser (`__import__(module)`); `ptasks2` defines same-named classes."""
import json
from enum import Enum, IntEnum, StrEnum, Flag, IntFlag
from typing import Any

import labtech
from labtech.cache import BaseCache, PickleCache


class Color(Enum):
    RED = 1
    BLUE = 2


class Shade(Enum):
    DARK = 'd'
    LIGHT = 'l'


# int- and str-mixin enums: their members are instances of int / str (and == their bare value), yet a
# parameter holding one is an *enum member* for labtech (immutable_param_value and serialize_value test
# for Enum before they test for int / str)
class Verbosity(IntEnum):
    QUIET = 0
    LOUD = 1


class Retries(int, Enum):
    NONE = 0
    ONCE = 1


class Dataset(StrEnum):
    TRAIN = 'train'
    TEST = 'test'


class Split(str, Enum):
    TRAIN = 'train'
    TEST = 'test'


# enum classes NESTED in holder classes: `__qualname__` has a dot ('ModelA.Variant'); same `__name__` in two holders and
# at module level; a holder two levels deep; an int-mixin one.  serialize_class writes module + '.' + qualname,
# deserialize_class finds them by importing the longest importable prefix (labtech 8be0759, defect D26)
class Variant(Enum):
    SMALL = 1
    LARGE = 2


class Perm(Flag):
    R = 1
    W = 2
    X = 4


class Bits(IntFlag):
    A = 1
    B = 2


class ModelA:
    class Variant(Enum):
        SMALL = 1
        LARGE = 2

    class Level(IntEnum):
        LOW = 0
        HIGH = 1


class ModelB:
    class Variant(Enum):
        SMALL = 1
        LARGE = 2


class Outer:
    class Inner:
        class Kind(Enum):
            SMALL = 'small'
            OTHER = 'other'


# non-Enum SUBCLASSES of the scalar types: `immutable_param_value` accepts their instances (isinstance(value,
# ParamScalar)), so they are supported parameter values (C15); json.dumps writes them as their base scalar, which is
# therefore what the cache key sees (C07) and what cached_tasks hands back (C09).  numpy.float64 / numpy.str_ are
# further such subclasses (paramgen.SUB_KINDS).  Module level, so that pickled copies find them.
class Celsius(float):
    """a float with a unit attached"""


class Label(str):
    pass


class Seed(int):
    pass


class DashCache(PickleCache):
    """a third cache format sharing the storage: its KEY_PREFIX has characters outside [A-Za-z0-9_] (a hyphen, a space, a
    non-ASCII letter) that LocalStorage accepts in a key ('.', '/' and '\\' are the ones it forbids)"""
    KEY_PREFIX = 'pickle-v2 é__'


class JsonCache(BaseCache):
    """a second cache format sharing the storage with PickleCache"""
    KEY_PREFIX = 'json__'

    def save_result(self, storage, task, result):
        with storage.file_handle(task.cache_key, 'data.json', mode='w') as f:
            json.dump(result, f)

    def load_result(self, storage, task):
        with storage.file_handle(task.cache_key, 'data.json', mode='r') as f:
            return json.load(f)


@labtech.task
class Leaf:
    x: Any

    def run(self):
        return 'leaf'


@labtech.task
class Box:
    a: Any
    b: Any = None

    def run(self):
        return 'box'


@labtech.task
class Exp:
    p: Any

    def run(self):
        return 'exp'


@labtech.task
class Experiment:
    p: Any

    def run(self):
        return 'experiment'


@labtech.task
class WithPost:
    p: Any

    def post_init(self):
        object.__setattr__(self, 'derived', ('derived-from', self.p))

    def run(self):
        return 'withpost'


@labtech.task(cache=None)
class NoCache:
    p: Any

    def run(self):
        return 'nocache'


@labtech.task(cache=JsonCache())
class AltT:
    p: Any

    def run(self):
        return 'alt'


@labtech.task
class Étude:
    """a task type whose (legal Python) identifier has a non-ASCII letter: it is part of the cache key"""
    p: Any

    def run(self):
        return 'etude'


@labtech.task(cache=DashCache())
class Archive:
    p: Any

    def run(self):
        return 'archive'


# --- C09: a task whose re-run can produce a result that fails to pickle part-way through the save
OVERWRITE_FAIL = set()   # cache keys whose next run returns such a result
RUNS = [0]               # number of run() executions in this process


@labtech.task
class Flaky:
    p: Any

    def run(self):
        RUNS[0] += 1
        if self.cache_key in OVERWRITE_FAIL:
            # a large picklable frame first, then something pickle rejects
            return ['x' * 300000, RUNS[0], (lambda: 0)]
        return ['flaky', RUNS[0]]
