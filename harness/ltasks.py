"""Task type for the log property (C19): run() interprets a script of emissions.

script = ';'-separated ops, payloads hex-encoded UTF-8:
  L<hex> labtech.logger.info(s) · W<hex> sys.stdout.write(s) · X<hex> sys.stderr.write(s) ·
  P<hex> print(s) · Q<hex> print(s, file=sys.stderr) · O sys.stdout.flush() · E sys.stderr.flush() ·
  S<ms> time.sleep(ms/1000) · F raise ValueError ·
  R<n>:<base> n logger.info records 'burst @@k.<base+i>@' in a tight loop ·
  T<n>:<base> n times print('line @@k.<base+i>@') + sys.stdout.flush() ·
  K os.kill(os.getpid(), SIGKILL): the worker process dies hard (no finally, no flush)
"""
import os
import signal
import sys
import time

import labtech


@labtech.task(cache=None)
class LogTask:
    k: int
    script: str = ''

    def run(self):
        for op in (self.script.split(';') if self.script else []):
            c, arg = op[0], op[1:]
            s = bytes.fromhex(arg).decode('utf-8') if c in 'LWXPQ' else None
            if c == 'L':
                labtech.logger.info(s)
            elif c == 'W':
                sys.stdout.write(s)
            elif c == 'X':
                sys.stderr.write(s)
            elif c == 'P':
                print(s)
            elif c == 'Q':
                print(s, file=sys.stderr)
            elif c == 'O':
                sys.stdout.flush()
            elif c == 'E':
                sys.stderr.flush()
            elif c == 'S':
                time.sleep(int(arg) / 1000.0)
            elif c == 'F':
                raise ValueError('task %d fails' % self.k)
            elif c == 'R':
                n, base = (int(x) for x in arg.split(':'))
                for i in range(n):
                    labtech.logger.info('burst @@%d.%d@' % (self.k, base + i))
            elif c == 'T':
                n, base = (int(x) for x in arg.split(':'))
                for i in range(n):
                    print('line @@%d.%d@' % (self.k, base + i))
                    sys.stdout.flush()
            elif c == 'K':
                os.kill(os.getpid(), signal.SIGKILL)
                time.sleep(60)
        return self.k
