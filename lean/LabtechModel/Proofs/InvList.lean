import LabtechModel.Proofs.InvDefs
import LabtechModel.Proofs.Workers
/-!
# List, lookup, trace-history and executor helper lemmas for the whole-run invariant
-/
namespace Lt

/-! ## lookup in association lists with duplicate-free keys -/
theorem lookup_of_mem_nodup (d : Tid) (v : Val) : ∀ (l : List (Tid × Val)),
    (l.map Prod.fst).Nodup → (d, v) ∈ l → lookup d l = some v := by
  intro l
  induction l with
  | nil => intro _ h; simp at h
  | cons kv rest ih =>
    intro hnd hmem
    obtain ⟨k, w⟩ := kv
    simp only [List.map_cons, List.nodup_cons] at hnd
    simp only [lookup]
    rcases List.mem_cons.mp hmem with h | h
    · simp only [Prod.mk.injEq] at h
      simp [h.1, h.2]
    · have hk : k ≠ d := by
        intro hkd; subst hkd
        exact hnd.1 (List.mem_map.mpr ⟨(k, v), h, rfl⟩)
      simp only [hk, if_false]
      exact ih hnd.2 h

theorem lookup_mem (t : Tid) (v : Val) : ∀ (l : List (Tid × Val)), lookup t l = some v → (t, v) ∈ l := by
  intro l
  induction l with
  | nil => intro h; simp [lookup] at h
  | cons kv rest ih =>
    intro h
    obtain ⟨k, w⟩ := kv
    simp only [lookup] at h
    split at h
    · next hk => subst hk; simp at h; subst h; exact List.mem_cons_self
    · exact List.mem_cons_of_mem _ (ih h)

theorem lookup_filter_key (d : Tid) (q : Tid → Bool) (hq : q d = true) : ∀ (l : List (Tid × Val)),
    lookup d (l.filter (fun kv => q kv.1)) = lookup d l := by
  intro l
  induction l with
  | nil => rfl
  | cons kv rest ih =>
    obtain ⟨k, w⟩ := kv
    simp only [List.filter_cons]
    by_cases hk : k = d
    · subst hk; simp [hq, lookup]
    · split
      · simp only [lookup, hk, if_false]; exact ih
      · simp only [lookup, hk, if_false]; exact ih

theorem keys_filter_nodup (l : List (Tid × Val)) (q : Tid × Val → Bool) (h : (l.map Prod.fst).Nodup) :
    ((l.filter q).map Prod.fst).Nodup :=
  (List.filter_sublist.map Prod.fst).nodup h

/-! ## permutations -/
theorem perm_filter_ne (A B F : List Nat) (t : Nat) (hp : (A ++ t :: B).Perm F) (hnd : F.Nodup) :
    (A ++ B).Perm (F.filter (· ≠ t)) := by
  have hnd' : (A ++ t :: B).Nodup := hp.nodup_iff.mpr hnd
  have h1 := hp.filter (· ≠ t)
  have h2 : (A ++ t :: B).filter (· ≠ t) = A ++ B := by
    rw [List.nodup_append] at hnd'
    obtain ⟨_, hB, hAB⟩ := hnd'
    have htA : t ∉ A := fun h => hAB t h t List.mem_cons_self rfl
    have htB : t ∉ B := (List.nodup_cons.mp hB).1
    rw [List.filter_append, List.filter_cons]
    simp only [ne_eq, not_true_eq_false, decide_false, Bool.false_eq_true, if_false]
    rw [List.filter_eq_self.mpr, List.filter_eq_self.mpr]
    · intro a ha; simp only [decide_not, Bool.not_eq_eq_eq_not, Bool.not_true, decide_eq_false_iff_not]
      intro h; subst h; exact htB ha
    · intro a ha; simp only [decide_not, Bool.not_eq_eq_eq_not, Bool.not_true, decide_eq_false_iff_not]
      intro h; subst h; exact htA ha
  rw [h2] at h1
  exact h1

theorem filter_mem_perm (F A : List Nat) (hF : F.Nodup) (hA : A.Nodup) (hsub : ∀ a ∈ A, a ∈ F) :
    (F.filter (· ∈ A)).Perm A := by
  rw [List.perm_ext_iff_of_nodup (hF.filter _) hA]
  intro a
  simp only [List.mem_filter, decide_eq_true_eq]
  exact ⟨fun h => h.2, fun h => ⟨hsub a h, h⟩⟩

/-- length of a duplicate-free list contained in another list -/
theorem nodup_subset_length_le : ∀ (l m : List Nat), l.Nodup → (∀ a ∈ l, a ∈ m) → l.length ≤ m.length := by
  intro l
  induction l with
  | nil => intro m _ _; simp
  | cons a l ih =>
    intro m hnd hsub
    have hnd' := List.nodup_cons.mp hnd
    have ham : a ∈ m := hsub a List.mem_cons_self
    have := ih (m.filter (· ≠ a)) hnd'.2 (by
      intro x hx
      simp only [List.mem_filter, ne_eq, decide_eq_true_eq]
      exact ⟨hsub x (List.mem_cons_of_mem _ hx), fun hxa => hnd'.1 (hxa ▸ hx)⟩)
    have hlt : (m.filter (· ≠ a)).length < m.length := by
      clear this ih hsub hnd hnd'
      induction m with
      | nil => simp at ham
      | cons b m ihm =>
        by_cases hba : b = a
        · subst hba
          have := List.length_filter_le (fun x => decide (x ≠ b)) m
          simp only [List.filter_cons, ne_eq, not_true_eq_false, decide_false, Bool.false_eq_true,
            if_false, List.length_cons]
          simp only [ne_eq] at this
          omega
        · have hm : a ∈ m := by
            rcases List.mem_cons.mp ham with h | h
            · exact absurd h.symm hba
            · exact h
          have := ihm hm
          simp only [List.filter_cons, ne_eq, hba, not_false_eq_true, decide_true, if_true, List.length_cons]
          simp only [ne_eq] at this
          omega
    simp only [List.length_cons]
    omega

/-! ## `takeN` and `enumFrom` -/
theorem takeN_append {α} : ∀ (n : Nat) (l : List α), (takeN n l).1 ++ (takeN n l).2 = l := by
  intro n
  induction n with
  | zero => intro l; simp [takeN]
  | succ n ih =>
    intro l
    cases l with
    | nil => simp [takeN]
    | cons x xs =>
      have := ih xs
      simp only [takeN, List.cons_append]
      rw [this]

theorem enumFrom_map_snd {α} : ∀ (l : List α) (n : Nat), (enumFrom n l).map (·.2) = l := by
  intro l
  induction l with
  | nil => intro n; rfl
  | cons x xs ih => intro n; simp only [enumFrom, List.map_cons, ih]

/-- the finished and the still running workers partition the running list -/
theorem enum_partition_perm {α} (l : List α) (f : Nat → Bool) :
    ((((enumFrom 0 l).filter (fun ij => f ij.1)).map (·.2)) ++
      (((enumFrom 0 l).filter (fun ij => !f ij.1)).map (·.2))).Perm l := by
  have h := (List.filter_append_perm (fun ij : Nat × α => f ij.1) (enumFrom 0 l)).map (·.2)
  rw [List.map_append, enumFrom_map_snd] at h
  exact h

theorem enum_filter_sublist {α} (l : List α) (q : Nat × α → Bool) :
    (((enumFrom 0 l).filter q).map (·.2)).Sublist l := by
  have h := (List.filter_sublist (p := q) (l := enumFrom 0 l)).map (·.2)
  rw [enumFrom_map_snd] at h
  exact h

/-! ## quiet trace extensions: events that are neither yields nor submits -/
def Quiet (l : List Ev) : Prop := ∀ e ∈ l, evYield e = none ∧ evSubmit e = none

theorem filterMap_none {α β} (f : α → Option β) : ∀ (l : List α), (∀ e ∈ l, f e = none) → l.filterMap f = [] := by
  intro l
  induction l with
  | nil => intro _; rfl
  | cons a b ih =>
    intro h
    rw [List.filterMap_cons, h a List.mem_cons_self]
    exact ih (fun e he => h e (List.mem_cons_of_mem _ he))

theorem yieldedOf_append_quiet (tr l : List Ev) (h : Quiet l) : yieldedOf (tr ++ l) = yieldedOf tr := by
  simp only [yieldedOf, List.filterMap_append]
  rw [filterMap_none _ l (fun e he => (h e he).1), List.append_nil]

theorem submittedOf_append_quiet (tr l : List Ev) (h : Quiet l) : submittedOf (tr ++ l) = submittedOf tr := by
  simp only [submittedOf, List.filterMap_append]
  rw [filterMap_none _ l (fun e he => (h e he).2), List.append_nil]

theorem mem_yield_append_quiet (tr l : List Ev) (h : Quiet l) (d : Tid) (o : Outcome) :
    Ev.yield d o ∈ tr ++ l ↔ Ev.yield d o ∈ tr := by
  rw [List.mem_append]
  constructor
  · rintro (h1 | h1)
    · exact h1
    · have := (h _ h1).1; simp [evYield] at this
  · exact Or.inl

theorem ranOf_append_noran (tr l : List Ev) (h : ∀ e ∈ l, evRan e = none) : ranOf (tr ++ l) = ranOf tr := by
  simp only [ranOf, List.filterMap_append]
  rw [filterMap_none _ l h, List.append_nil]

theorem Quiet.sub {l l' : List Ev} (h : Quiet l) (hs : ∀ e ∈ l', e ∈ l) : Quiet l' :=
  fun e he => h e (hs e he)

theorem Quiet.append {l l' : List Ev} (h : Quiet l) (h' : Quiet l') : Quiet (l ++ l') := by
  intro e he
  rcases List.mem_append.mp he with h1 | h1
  · exact h e h1
  · exact h' e h1

theorem yieldedOf_mono (tr l : List Ev) (d : Tid) (h : d ∈ yieldedOf tr) : d ∈ yieldedOf (tr ++ l) := by
  simp only [yieldedOf, List.filterMap_append, List.mem_append]
  exact Or.inl h

/-! ## history predicates: a property of every event relative to the trace before it -/
def Hist (Q : List Ev → Ev → Prop) (tr : List Ev) : Prop :=
  ∀ pre e post, tr = pre ++ e :: post → Q pre e

theorem Hist_nil (Q : List Ev → Ev → Prop) : Hist Q [] := by
  intro pre e post h
  cases pre <;> simp at h

theorem Hist.append {Q : List Ev → Ev → Prop} {tr l : List Ev} (h : Hist Q tr)
    (hl : ∀ pre' e post', l = pre' ++ e :: post' → Q (tr ++ pre') e) : Hist Q (tr ++ l) := by
  intro pre e post heq
  rcases List.append_eq_append_iff.mp heq with ⟨as, h1, h2⟩ | ⟨bs, h1, h2⟩
  · subst h1; exact hl as e post h2
  · cases bs with
    | nil =>
      simp only [List.nil_append, List.append_nil] at h1 h2
      subst h1
      have := hl [] e post h2.symm
      simpa using this
    | cons b bs =>
      simp only [List.cons_append, List.cons.injEq] at h2
      obtain ⟨hb, _⟩ := h2
      subst hb
      exact h pre e bs h1

theorem Hist.append_trivial {Q : List Ev → Ev → Prop} {tr l : List Ev} (h : Hist Q tr)
    (hl : ∀ e ∈ l, ∀ pre, Q pre e) : Hist Q (tr ++ l) := by
  apply h.append
  intro pre' e post' heq
  apply hl
  rw [heq]; simp

end Lt
