import LabtechModel.Proofs.Ready
import LabtechModel.Proofs.Workers
namespace Lt

theorem startProcesses_status (cfg : Config) (rs : RS) : (startProcesses cfg rs).status = rs.status := by
  simp [startProcesses]

theorem submitTask_status (cfg : Config) (p : Problem) (rs : RS) (t : Tid) :
    (submitTask cfg p rs t).status = rs.status := by
  simp only [submitTask]; split <;> simp [startProcesses_status]

/-- the submit phase starts *every* task `get_ready_tasks` returned: closed form of the scheduler
    state after it -/
theorem submitAll_all (cfg : Config) (p : Problem) :
    ∀ (l : List Tid) (rs : RS), l.Nodup → (∀ t ∈ l, t ∈ rs.ts.pending) →
      (submitAll cfg p l rs).ts = { rs.ts with pending := rs.ts.pending.filter (· ∉ l),
                                               active := rs.ts.active ++ l } ∧
      (submitAll cfg p l rs).status = rs.status := by
  intro l
  induction l with
  | nil =>
    intro rs _ _
    have : List.filter (fun _ => true) rs.ts.pending = rs.ts.pending := by
      induction rs.ts.pending with
      | nil => rfl
      | cons a b ih => simp [ih]
    simp [submitAll, this]
  | cons t ts ih =>
    intro rs hnd hmem
    have ht : t ∈ rs.ts.pending := hmem t List.mem_cons_self
    simp only [submitAll]
    have hst : startTask rs.ts t = some { rs.ts with pending := rs.ts.pending.filter (· ≠ t), active := rs.ts.active ++ [t] } := by
      simp [startTask, setRemove, ht]
    rw [hst]
    simp only
    have hnd' := (List.nodup_cons.mp hnd)
    have := ih (submitTask cfg p { rs with ts := { rs.ts with pending := rs.ts.pending.filter (· ≠ t), active := rs.ts.active ++ [t] } } t)
      hnd'.2 (by
        intro x hx
        rw [submitTask_ts]
        simp only [List.mem_filter, decide_eq_true_eq]
        exact ⟨hmem x (List.mem_cons_of_mem _ hx), fun hxt => hnd'.1 (hxt ▸ hx)⟩)
    rw [this.1, this.2, submitTask_ts, submitTask_status]
    refine ⟨?_, rfl⟩
    simp only [List.filter_filter, List.append_assoc, List.singleton_append]
    congr 1
    apply List.filter_congr
    intro x _
    simp only [List.mem_cons, not_or, ne_eq, decide_not]
    grind

/-- after `_start_processes` no worker slot is idle while a future is queued -/
theorem startProcesses_no_idle (cfg : Config) (rs : RS) (h : rs.running.length ≤ cfg.maxWorkers) :
    (startProcesses cfg rs).queued = [] ∨ (startProcesses cfg rs).running.length = cfg.maxWorkers := by
  have h1 := startProcesses_running_length cfg rs
  have h2 := takeN_length_add (cfg.maxWorkers - rs.running.length) rs.queued
  have h3 := takeN_length_min (cfg.maxWorkers - rs.running.length) rs.queued
  have hq : (startProcesses cfg rs).queued = (takeN (cfg.maxWorkers - rs.running.length) rs.queued).2 := by
    simp [startProcesses]
  by_cases hc : (takeN (cfg.maxWorkers - rs.running.length) rs.queued).2 = []
  · left; rw [hq]; exact hc
  · right
    have : (takeN (cfg.maxWorkers - rs.running.length) rs.queued).2.length > 0 := by
      cases h' : (takeN (cfg.maxWorkers - rs.running.length) rs.queued).2 with
      | nil => exact absurd h' hc
      | cons a b => simp
    rw [h1]; omega

end Lt
