import LabtechModel.Proofs.Inv2Ref
/-!
# Whole-run corollaries of `ValInv` / `FlagInv` (C10, C01, C03, C08)
-/
namespace Lt

theorem finish_store (req : List Tid) (rs : RS) : (finish req rs).store = rs.store := by
  simp only [finish]; split <;> (try split) <;> rfl

theorem run_store (cfg : Config) (p : Problem) (store : Store) (fuel : Nat) (sched : List Choice) :
    (run cfg p store fuel sched).store = (loopHead cfg p store fuel sched).store := finish_store _ _

/-- a fair schedule that is long enough ends with every planned task yielded -/
theorem loopHead_all_yielded (cfg : Config) (p : Problem) (store : Store) (fuel : Nat) (sched : List Choice)
    (hA : Acyclic p) (hF : FuelOK p fuel) (hL : LimitsPos cfg p) (hfair : Fair sched)
    (hlen : (plan cfg p store fuel).pending.length + 1 ≤ sched.length)
    (hrun : (loopHead cfg p store fuel sched).status = .running) :
    loopCond (loopHead cfg p store fuel sched) = false ∧
    ∀ t, t ∈ (plan cfg p store fuel).pending ↔ t ∈ yielded (loopHead cfg p store fuel sched) := by
  have hP := plan_PI cfg p store fuel
  obtain ⟨hCl, hLt⟩ := plan_good cfg p store fuel hA hF
  have hreach := reach_all cfg p store fuel sched
  have hterm := runLoop_terminates (reqTids p) hP hCl hLt hL sched _ hfair (initRS_live cfg p store fuel)
    (by
      have : (yielded (initRS cfg p store fuel)).length = 0 := rfl
      rw [this]; omega)
  have hlc : loopCond (loopHead cfg p store fuel sched) = false := by
    rcases hterm with h | h
    · exact absurd hrun h
    · exact h
  have hlc' := hlc
  simp only [loopCond, Bool.or_eq_false_iff, Bool.not_eq_eq_eq_not, Bool.not_false,
    List.isEmpty_iff] at hlc'
  refine ⟨hlc, fun t => ⟨fun htP => ?_, fun h => (hreach.1.ts.cover t).mpr (Or.inr (Or.inr h))⟩⟩
  rcases (hreach.1.ts.cover _).mp htP with h | h | h
  · rw [hlc'.1] at h; simp at h
  · have := (hreach.1.futsAct _).mpr h
    rw [hlc'.2] at this; simp at this
  · exact h

theorem option_eq_of_some_iff {α} (a b : Option α) (h : ∀ v, a = some v ↔ b = some v) : a = b := by
  cases a with
  | none =>
    cases b with
    | none => rfl
    | some w => exact absurd ((h w).mpr rfl) (by simp)
  | some v => exact ((h v).mp rfl).symm

/-- C10: whatever fails, a (fair, long enough) run with `continue_on_failure` returns, for exactly the
    requested tasks that have a reference value, that value, in request order -/
theorem run_returns_refF (cfg : Config) (p : Problem) (store : Store) (fuel : Nat) (sched : List Choice)
    (obj : Tid → Iid) (H : RefHypF p obj) (hcf : cfg.contOnFail = true ∨ NoFailure cfg p store obj fuel)
    (hF : FuelOK p fuel) (hL : LimitsPos cfg p) (hfair : Fair sched)
    (hlen : (plan cfg p store fuel).pending.length + 1 ≤ sched.length) :
    (run cfg p store fuel sched).status =
      .returned ((dedup (reqTids p)).filterMap
        (fun t => (refEvalF cfg p store obj t).map (fun v => (t, v)))) := by
  have hr := loopHead_val cfg p store fuel sched obj H hcf
  obtain ⟨hlc, hall⟩ := loopHead_all_yielded cfg p store fuel sched H.acyc hF hL hfair hlen hr.run
  have hreq : ∀ t ∈ reqTids p,
      lookup t (loopHead cfg p store fuel sched).taskResults = refEvalF cfg p store obj t := by
    intro t ht
    obtain ⟨i, hi, rfl⟩ := List.mem_map.mp ht
    have hfuel : 0 < fuel := Nat.lt_of_le_of_lt (Nat.zero_le _) (hF i hi)
    have htP := plan_requested_pending cfg p store fuel hfuel i hi
    have htY := (hall _).mp htP
    obtain ⟨o, ho⟩ := (mem_yieldedOf _ _).mp htY
    have ho' := hr.yOk _ _ ho
    apply option_eq_of_some_iff
    intro v
    rw [hr.capture _ ht v, ← refOutcome_ok_iff]
    constructor
    · intro h; exact (hr.yOk _ _ h).symm
    · intro h; rw [← h, ← ho']; exact ho
  show (finish (reqTids p) (loopHead cfg p store fuel sched)).status = _
  simp only [finish, hr.run, hlc]
  simp only [Bool.false_eq_true, if_false, Status.returned.injEq]
  apply filterMap_congr'
  intro t ht
  rw [hreq t ((mem_dedup _ _).mp ht)]

/-- C08/C10: the store at a loop head is the pre-state overridden, for the tasks delivered so far, by
    `storeAfter` -/
theorem loopHead_store (cfg : Config) (p : Problem) (store : Store) (fuel : Nat) (sched : List Choice)
    (obj : Tid → Iid) (H : RefHypF p obj) (hcf : cfg.contOnFail = true ∨ NoFailure cfg p store obj fuel)
    (t : Tid) :
    lookup t (loopHead cfg p store fuel sched).store =
      if t ∈ yielded (loopHead cfg p store fuel sched) then storeAfter cfg p store obj t
      else lookup t store := by
  have hr := loopHead_val cfg p store fuel sched obj H hcf
  have hf := (loopHead_flag cfg p store fuel sched).2 hr.run
  split
  · next h => exact hr.stoDone t (Or.inl h)
  · next h => exact hf.frame t h (by simp)

/-- under the hypotheses of C01 (nothing fails, `run()` total, sound cache pre-state) the failure-aware
    reference evaluation is the plain one -/
theorem refEvalF_eq_refEval (cfg : Config) (p : Problem) (store : Store) (obj : Tid → Iid)
    (H : RefHyp p obj) (hS : StoreSound p obj store) :
    ∀ n i, p.tidOf i < n → refEvalF cfg p store obj (p.tidOf i) = refEval p obj (p.tidOf i) := by
  intro n
  induction n with
  | zero => intro i h; exact absurd h (Nat.not_lt_zero _)
  | succ n ih =>
    intro i hi
    rw [refEvalF_unfold cfg p store obj H.acyc H.objOK i, refEval_unfold p obj H.acyc H.objOK i]
    have hd : diesIn cfg p (p.tidOf i) = false := by
      simp only [diesIn]; split
      · rfl
      · exact (H.noFail _).2
    simp only [hd, (H.noFail (p.tidOf i)).1, Bool.false_eq_true, if_false]
    have hmap : ((p.children (obj (p.tidOf i))).map p.tidOf).map (refEvalF cfg p store obj)
        = ((p.children (obj (p.tidOf i))).map p.tidOf).map (refEval p obj) := by
      rw [List.map_map, List.map_map]
      apply List.map_congr_left
      intro c hc
      have hlt : p.tidOf c < p.tidOf i := by
        have := H.acyc (obj (p.tidOf i)) c hc
        rw [H.objOK i] at this
        exact this
      exact ih c (Nat.lt_of_lt_of_le hlt (Nat.le_of_lt_succ hi))
    split
    · next huc =>
      have hsome := useCache_isSome cfg p store _ huc
      cases hl : lookup (p.tidOf i) store with
      | none => rw [hl] at hsome; simp at hsome
      | some v =>
        rw [← refEval_unfold p obj H.acyc H.objOK i]
        exact (hS _ _ hl).symm
    · rw [hmap]

/-- under `BehaveTotal` and `NoFail` every task that has an object has a reference value -/
theorem refEval_isSome (p : Problem) (obj : Tid → Iid) (H : RefHyp p obj) :
    ∀ n i, p.tidOf i < n → (refEval p obj (p.tidOf i)).isSome := by
  intro n
  induction n with
  | zero => intro i h; exact absurd h (Nat.not_lt_zero _)
  | succ n ih =>
    intro i hi
    rw [refEval_unfold p obj H.acyc H.objOK i]
    have := H.total (p.tidOf i) (((p.children (obj (p.tidOf i))).map p.tidOf).map (refEval p obj)) (by
      intro o ho
      simp only [List.map_map, List.mem_map] at ho
      obtain ⟨c, hc, rfl⟩ := ho
      have hlt : p.tidOf c < p.tidOf i := by
        have := H.acyc (obj (p.tidOf i)) c hc
        rw [H.objOK i] at this
        exact this
      have := ih c (Nat.lt_of_lt_of_le hlt (Nat.le_of_lt_succ hi))
      intro h0
      simp only [Function.comp] at h0
      rw [h0] at this
      simp at this)
    cases hb : p.behave (p.tidOf i) (((p.children (obj (p.tidOf i))).map p.tidOf).map (refEval p obj)) with
    | none => exact absurd hb this
    | some v => rfl

end Lt
