import LabtechModel.Proofs.IntrOnce
/-!
# M10: the in-memory results map (`results_map`) after EVERY primitive

`RI P req s` (`P` = the plan, `req` = the requested tids) holds in every state of every interrupted
run — after every prefix of the main stream, of the first handler's stream entered at any instant and
of the second handler's stream entered at any instant:
* `resY`, `resNd`: the map holds only `(d, v)` with `yield d (ok v)` on record, every key once;
* `yNd`: every task is yielded at most once (`yP`, `futPA`: a yielded task is neither in the work list
  nor tracked; a tracked future belongs to an active task that is not in the work list);
* `pdtY`, `pdtSub`: `task_to_pending_dependents[d]` lists only planned dependents of `d`, and at least
  those that have not been yielded;
* `held`: a result that was yielded successfully, whose task has left the active set (i.e.
  `complete_task(d)` has been entered) and whose `task_to_pending_dependents[d]` is not empty IS in the map;
* `cap`, `capY`: for a requested `d` the same for `task_results`, whatever the dependents;
* `actPd`, `pdA`: an active task has no pending dependency; a planned dependency that has left
  `task_to_pending_dependencies[x]` has been yielded and has left the active set;
* `remH`: every `remove_results(rem)` on record names only tasks all of whose planned dependents had
  been yielded before.
`RT req s s'` is the transition fact: an entry that is in the map in `s` and not in `s'` had an empty
`task_to_pending_dependents` in `s`, and, if requested, was in `task_results` in `s`.
Side conditions (`RG`) are discharged inside the blocks of the streams; every stream lemma starts from
ANY state with `RI`, so the handlers need nothing about where the interrupt fell.
-/
namespace Lt

variable {cfg : Config} {p : Problem}

/-! ## lists -/
theorem yieldedOf_append (a b : List Ev) : yieldedOf (a ++ b) = yieldedOf a ++ yieldedOf b := by
  simp [yieldedOf, List.filterMap_append]

theorem yieldedOf_ny (tr l : List Ev) (h : ∀ e ∈ l, evYield e = none) : yieldedOf (tr ++ l) = yieldedOf tr := by
  have : yieldedOf l = [] := filterMap_none _ l h
  rw [yieldedOf_append, this]; simp

/-- a task that is yielded at most once is yielded with one outcome -/
theorem yield_unique : ∀ (tr : List Ev), (yieldedOf tr).Nodup → ∀ t o o',
    Ev.yield t o ∈ tr → Ev.yield t o' ∈ tr → o = o' := by
  intro tr
  induction tr with
  | nil => intro _ t o o' h; simp at h
  | cons e tr ih =>
    intro hnd t o o' h1 h2
    have hcons : yieldedOf (e :: tr) = yieldedOf [e] ++ yieldedOf tr := yieldedOf_append [e] tr
    rw [hcons, List.nodup_append] at hnd
    obtain ⟨_, hnd2, hdis⟩ := hnd
    have hmem : ∀ o'', Ev.yield t o'' ∈ tr → t ∈ yieldedOf tr := fun o'' h => (mem_yieldedOf _ _).mpr ⟨o'', h⟩
    have hhead : ∀ o'', e = Ev.yield t o'' → t ∈ yieldedOf [e] := by
      intro o'' he; subst he; simp [yieldedOf, evYield]
    rcases List.mem_cons.mp h1 with h1 | h1 <;> rcases List.mem_cons.mp h2 with h2 | h2
    · rw [← h1] at h2; cases h2; rfl
    · exact absurd rfl (hdis t (hhead _ h1.symm) t (hmem _ h2))
    · exact absurd rfl (hdis t (hhead _ h2.symm) t (hmem _ h1))
    · exact ih hnd2 t o o' h1 h2

/-- events that are neither a `yield` nor a `remove` record -/
def evPlainR : Ev → Bool
  | .yield _ _ | .remove _ _ => false
  | _ => true

/-! ## the invariant -/
/-- `remove_results(rem)` names only tasks all of whose planned direct dependents were yielded before -/
def RemOK (P : TS) (pre : List Ev) : Ev → Prop
  | .remove rem _ => ∀ d ∈ rem, ∀ t, d ∈ P.ddeps t → t ∈ yieldedOf pre
  | _ => True

theorem evPlainR_facts {P : TS} (e : Ev) (h : evPlainR e = true) : evYield e = none ∧ ∀ pre, RemOK P pre e := by
  cases e <;> simp [evPlainR] at h <;> exact ⟨rfl, fun _ => trivial⟩

structure RI (P : TS) (req : List Tid) (s : IS) : Prop where
  resY : ∀ d v, (d, v) ∈ s.rs.results → Ev.yield d (.ok v) ∈ s.rs.trace
  resNd : (s.rs.results.map Prod.fst).Nodup
  yNd : (yieldedOf s.rs.trace).Nodup
  yP : ∀ t ∈ yieldedOf s.rs.trace, t ∉ s.rs.ts.pending ∧ t ∉ s.rs.futs
  futPA : ∀ t ∈ s.rs.futs, t ∉ s.rs.ts.pending ∧ t ∈ s.rs.ts.active
  ddEq : s.rs.ts.ddeps = P.ddeps
  pdtY : ∀ d t, d ∈ P.ddeps t → t ∈ s.rs.ts.pendDependents d ∨ t ∈ yieldedOf s.rs.trace
  pdtSub : ∀ d t, t ∈ s.rs.ts.pendDependents d → d ∈ P.ddeps t
  actPd : ∀ t ∈ s.rs.ts.active, s.rs.ts.pendDeps t = []
  pdA : ∀ x d, d ∈ P.ddeps x → d ∈ s.rs.ts.pendDeps x ∨ (d ∉ s.rs.ts.active ∧ d ∈ yieldedOf s.rs.trace)
  held : ∀ d v, Ev.yield d (.ok v) ∈ s.rs.trace → d ∉ s.rs.ts.active → s.rs.ts.pendDependents d ≠ [] →
    (d, v) ∈ s.rs.results
  cap : ∀ d v, d ∈ req → Ev.yield d (.ok v) ∈ s.rs.trace → d ∉ s.rs.ts.active → (d, v) ∈ s.rs.taskResults
  capY : ∀ d v, (d, v) ∈ s.rs.taskResults → Ev.yield d (.ok v) ∈ s.rs.trace
  remH : Hist (RemOK P) s.rs.trace

/-- the transition fact: what leaves the map was not needed any more, and was captured if requested -/
def RT (req : List Tid) (s s' : IS) : Prop :=
  ∀ d v, (d, v) ∈ s.rs.results → (d, v) ∉ s'.rs.results →
    s.rs.ts.pendDependents d = [] ∧ (d ∈ req → (d, v) ∈ s.rs.taskResults)

theorem RT_refl (req : List Tid) (s : IS) : RT req s s := fun _ _ h h' => absurd h h'

theorem RT_of_eq {req : List Tid} {s s' : IS} (h : s'.rs.results = s.rs.results) : RT req s s' :=
  fun _ _ h1 h2 => absurd (h ▸ h1) h2

/-- an active task's planned dependencies have all left the active set -/
theorem RI.actDeps {P : TS} {req : List Tid} {s : IS} (h : RI P req s) (t : Tid) (ht : t ∈ s.rs.ts.active)
    (d : Tid) (hd : d ∈ P.ddeps t) : d ∉ s.rs.ts.active := by
  rcases h.pdA t d hd with h1 | h1
  · rw [h.actPd t ht] at h1; simp at h1
  · exact h1.1

/-- the trace grows by plain events, futures are only dropped, the rest is unchanged -/
theorem RI.mono {P : TS} {req : List Tid} {s s' : IS} (h : RI P req s) (l : List Ev)
    (htr : s'.rs.trace = s.rs.trace ++ l) (hny : ∀ e ∈ l, evYield e = none)
    (hh : Hist (RemOK P) (s.rs.trace ++ l))
    (hres : s'.rs.results = s.rs.results) (htres : s'.rs.taskResults = s.rs.taskResults)
    (hts : s'.rs.ts = s.rs.ts) (hfut : ∀ t ∈ s'.rs.futs, t ∈ s.rs.futs) : RI P req s' := by
  have ey : yieldedOf s'.rs.trace = yieldedOf s.rs.trace := by rw [htr, yieldedOf_ny _ _ hny]
  have em : ∀ d o, Ev.yield d o ∈ s'.rs.trace ↔ Ev.yield d o ∈ s.rs.trace := by
    intro d o; rw [htr]; exact mem_yield_append_ny _ _ hny d o
  exact {
    resY := by intro d v hd; rw [em]; rw [hres] at hd; exact h.resY d v hd
    resNd := by rw [hres]; exact h.resNd
    yNd := by rw [ey]; exact h.yNd
    yP := by
      intro t ht; rw [ey] at ht; rw [hts]
      exact ⟨(h.yP t ht).1, fun hf => (h.yP t ht).2 (hfut t hf)⟩
    futPA := by intro t ht; rw [hts]; exact h.futPA t (hfut t ht)
    ddEq := by rw [hts]; exact h.ddEq
    pdtY := by rw [ey, hts]; exact h.pdtY
    pdtSub := by rw [hts]; exact h.pdtSub
    actPd := by rw [hts]; exact h.actPd
    pdA := by rw [ey, hts]; exact h.pdA
    held := by intro d v hy; rw [em] at hy; rw [hts, hres]; exact h.held d v hy
    cap := by intro d v hr hy; rw [em] at hy; rw [hts, htres]; exact h.cap d v hr hy
    capY := by intro d v hd; rw [em]; rw [htres] at hd; exact h.capY d v hd
    remH := by rw [htr]; exact hh }

theorem RI.same {P : TS} {req : List Tid} {s s' : IS} (h : RI P req s) (htr : s'.rs.trace = s.rs.trace)
    (hres : s'.rs.results = s.rs.results) (htres : s'.rs.taskResults = s.rs.taskResults)
    (hts : s'.rs.ts = s.rs.ts) (hfut : ∀ t ∈ s'.rs.futs, t ∈ s.rs.futs) : RI P req s' :=
  h.mono [] (by simpa using htr) (by simp) (by simpa using h.remH) hres htres hts hfut

theorem RI.plain {P : TS} {req : List Tid} {s s' : IS} (h : RI P req s) (l : List Ev)
    (htr : s'.rs.trace = s.rs.trace ++ l) (hl : ∀ e ∈ l, evPlainR e = true)
    (hres : s'.rs.results = s.rs.results) (htres : s'.rs.taskResults = s.rs.taskResults)
    (hts : s'.rs.ts = s.rs.ts) (hfut : ∀ t ∈ s'.rs.futs, t ∈ s.rs.futs) : RI P req s' :=
  h.mono l htr (fun e he => (evPlainR_facts (P := P) e (hl e he)).1)
    (h.remH.append_trivial (fun e he pre => (evPlainR_facts e (hl e he)).2 pre)) hres htres hts hfut

/-! ## the side conditions -/
def RG (_P : TS) (req : List Tid) (s : IS) : Prim → Prop
  | .startTask t => s.rs.ts.pendDeps t = []
  | .regFuture t | .serialAppend t =>
    t ∉ s.rs.ts.pending ∧ t ∈ s.rs.ts.active ∧ t ∉ yieldedOf s.rs.trace
  | .storeResult t v | .capture t v => Ev.yield t (.ok v) ∈ s.rs.trace
  | .removeActive t =>
    t ∉ s.rs.futs ∧ ∀ v, Ev.yield t (.ok v) ∈ s.rs.trace →
      (t, v) ∈ s.rs.results ∧ (t ∈ req → (t, v) ∈ s.rs.taskResults)
  | .unblockOne t _ => t ∉ s.rs.ts.active ∧ t ∈ yieldedOf s.rs.trace
  | .releaseOne t _ => t ∈ yieldedOf s.rs.trace
  | .removeResult d => s.rs.ts.pendDependents d = [] ∧ d ∉ s.rs.ts.active
  | .removeDone rem => ∀ d ∈ rem, s.rs.ts.pendDependents d = []
  | _ => True

/-- primitives without a side condition -/
def Prim.rfree : Prim → Bool
  | .startTask _ | .regFuture _ | .serialAppend _ | .storeResult _ _ | .capture _ _ | .removeActive _
  | .unblockOne _ _ | .releaseOne _ _ | .removeResult _ | .removeDone _ => false
  | _ => true

theorem RG_of_free {P : TS} {req : List Tid} {s : IS} {q : Prim} (h : q.rfree = true) : RG P req s q := by
  cases q <;> simp [Prim.rfree] at h <;> trivial

/-- primitives that change something `RI` reads -/
def Prim.touchesR : Prim → Bool
  | .regRunning _ | .unregPending _ | .markDead _ | .markInstances _ | .raiseLabError _
  | .serialSaveBegin | .serialSaveEnd | .cancelOne _ | .stopOne _ => false
  | _ => true

theorem applyPrim_rfields (q : Prim) (s : IS) (h : q.touchesR = false) :
    (applyPrim cfg p q s).rs.trace = s.rs.trace ∧
    (applyPrim cfg p q s).rs.results = s.rs.results ∧
    (applyPrim cfg p q s).rs.taskResults = s.rs.taskResults ∧
    (applyPrim cfg p q s).rs.ts = s.rs.ts ∧
    (applyPrim cfg p q s).rs.futs = s.rs.futs := by
  unfold applyPrim
  split
  · cases q <;> simp [Prim.touchesR] at h <;> simp only [stepPrim] <;> (repeat' split) <;> simp
  · simp

theorem mem_filter_key {l : List (Tid × Val)} {t : Tid} {kv : Tid × Val} :
    kv ∈ l.filter (fun kv => kv.1 ≠ t) ↔ kv ∈ l ∧ kv.1 ≠ t := by
  simp

theorem keys_cons_filter_nodup (l : List (Tid × Val)) (t : Tid) (v : Val) (h : (l.map Prod.fst).Nodup) :
    (((t, v) :: l.filter (fun kv => kv.1 ≠ t)).map Prod.fst).Nodup := by
  rw [List.map_cons, List.nodup_cons]
  refine ⟨?_, keys_filter_nodup l _ h⟩
  intro hm
  obtain ⟨kv, hkv, hk⟩ := List.mem_map.mp hm
  exact (mem_filter_key.mp hkv).2 hk

/-- `SerialRunner.submit_task` is `executor.submit` followed by `future_to_task[future] = task` -/
theorem serialAppend_eq (t : Tid) (s : IS) :
    stepPrim cfg p (Prim.serialAppend t) s = stepPrim cfg p (Prim.regFuture t) (stepPrim cfg p (Prim.enqueue t) s) := rfl

theorem RI_keyErr {P : TS} {req : List Tid} {s : IS} (h : RI P req s) : RI P req (keyErr s) :=
  h.same rfl rfl rfl rfl (fun _ ht => ht)

theorem RI_regFuture {P : TS} {req : List Tid} (t : Tid) (s : IS) (h : RI P req s)
    (hg : t ∉ s.rs.ts.pending ∧ t ∈ s.rs.ts.active ∧ t ∉ yieldedOf s.rs.trace) :
    RI P req (stepPrim cfg p (Prim.regFuture t) s) := by
  simp only [stepPrim]
  exact { h with
    yP := by
      intro x hx
      refine ⟨(h.yP x hx).1, ?_⟩
      simp only [List.mem_append, List.mem_singleton, not_or]
      exact ⟨(h.yP x hx).2, fun hxt => hg.2.2 (hxt ▸ hx)⟩
    futPA := by
      intro x hx
      simp only [List.mem_append, List.mem_singleton] at hx
      rcases hx with hx | rfl
      · exact h.futPA x hx
      · exact ⟨hg.1, hg.2.1⟩ }

theorem RI_enqueue {P : TS} {req : List Tid} (t : Tid) (s : IS) (h : RI P req s) :
    RI P req (stepPrim cfg p (Prim.enqueue t) s) := by
  simp only [stepPrim]
  exact h.plain [Ev.submit t (mkJob cfg p s.rs t).useCache] rfl
    (fun e he => by simp only [List.mem_singleton] at he; subst he; rfl) rfl rfl rfl (fun _ ht => ht)

/-- one primitive keeps `RI`, given its side condition -/
theorem RI_step {P : TS} {req : List Tid} (q : Prim) (s : IS) (h : RI P req s)
    (hg : s.rs.status = .running → RG P req s q) : RI P req (applyPrim cfg p q s) := by
  by_cases hd : q.touchesR = false
  · obtain ⟨e1, e2, e3, e4, e5⟩ := applyPrim_rfields (cfg := cfg) (p := p) q s hd
    exact h.same e1 e2 e3 e4 (by rw [e5]; exact fun _ ht => ht)
  by_cases hrun : ¬ s.rs.status = .running
  · rw [applyPrim_stopped q s hrun]; exact h
  have hrun : s.rs.status = .running := Decidable.not_not.mp hrun
  replace hg := hg hrun
  rw [applyPrim_running q s hrun]
  cases q <;> simp [Prim.touchesR] at hd
  case startTask t =>
    simp only [stepPrim]
    cases hs : startTask s.rs.ts t with
    | none => exact RI_keyErr h
    | some ts' =>
      obtain ⟨htp, hts⟩ := startTask_some _ _ _ hs
      subst hts
      have hty : t ∉ yieldedOf s.rs.trace := fun hy => (h.yP t hy).1 htp
      exact { h with
        yP := by
          intro x hx
          exact ⟨fun hp => (h.yP x hx).1 (List.mem_filter.mp hp).1, (h.yP x hx).2⟩
        futPA := by
          intro x hx
          exact ⟨fun hp => (h.futPA x hx).1 (List.mem_filter.mp hp).1, List.mem_append_left _ (h.futPA x hx).2⟩
        actPd := by
          intro x hx
          simp only [List.mem_append, List.mem_singleton] at hx
          rcases hx with hx | rfl
          · exact h.actPd x hx
          · exact hg
        pdA := by
          intro x d hd'
          rcases h.pdA x d hd' with h1 | h1
          · exact Or.inl h1
          · refine Or.inr ⟨?_, h1.2⟩
            simp only [List.mem_append, List.mem_singleton, not_or]
            exact ⟨h1.1, fun hdt => hty (hdt ▸ h1.2)⟩
        held := by
          intro d v hy hna
          exact h.held d v hy (fun ha => hna (List.mem_append_left _ ha))
        cap := by
          intro d v hr hy hna
          exact h.cap d v hr hy (fun ha => hna (List.mem_append_left _ ha)) }
  case enqueue t => exact RI_enqueue t s h
  case procStart t =>
    simp only [stepPrim]
    exact h.plain [Ev.start t] rfl (fun e he => by simp only [List.mem_singleton] at he; subst he; rfl)
      rfl rfl rfl (fun _ ht => ht)
  case regFuture t => exact RI_regFuture t s h hg
  case serialAppend t =>
    rw [serialAppend_eq]
    apply RI_regFuture t _ (RI_enqueue t s h)
    refine ⟨hg.1, hg.2.1, ?_⟩
    show t ∉ yieldedOf (s.rs.trace ++ [Ev.submit t (mkJob cfg p s.rs t).useCache])
    rw [yieldedOf_ny _ _ (fun e he => by simp only [List.mem_singleton] at he; subst he; rfl)]
    exact hg.2.2
  case consumeResults c =>
    simp only [stepPrim]
    refine h.plain ([Ev.waitEnter (s.rs.queued.map Job.tid) (s.rs.running.map Job.tid)] ++
        ((finOf c s.rs.running).map (jobEvents p s.rs.ts)).flatten) (by simp) ?_ rfl rfl rfl (fun _ ht => ht)
    intro e he
    simp only [List.mem_append, List.mem_singleton] at he
    rcases he with rfl | he
    · rfl
    · obtain ⟨es, hes, hmem⟩ := List.mem_flatten.mp he
      obtain ⟨j, _, rfl⟩ := List.mem_map.mp hes
      rcases jobEvents_cases p _ j e hmem with rfl | rfl <;> rfl
  case popFuture t o =>
    simp only [stepPrim]
    split
    · next htf =>
      cases o with
      | none => exact h.same rfl rfl rfl rfl (fun x hx => (List.mem_filter.mp hx).1)
      | some o =>
        have hty : t ∉ yieldedOf s.rs.trace := fun hy => (h.yP t hy).2 htf
        have ey : yieldedOf (s.rs.trace ++ [Ev.yield t o]) = yieldedOf s.rs.trace ++ [t] := by
          rw [yieldedOf_append]; rfl
        exact {
          resY := fun d v hd => List.mem_append_left _ (h.resY d v hd)
          resNd := h.resNd
          yNd := by
            show (yieldedOf (s.rs.trace ++ [Ev.yield t o])).Nodup
            rw [ey, List.nodup_append]
            exact ⟨h.yNd, by simp, fun a ha b hb => by
              simp only [List.mem_singleton] at hb; subst hb; exact fun hab => hty (hab ▸ ha)⟩
          yP := by
            intro x hx
            have hx' : x ∈ yieldedOf s.rs.trace ++ [t] := by rw [← ey]; exact hx
            simp only [List.mem_append, List.mem_singleton] at hx'
            rcases hx' with hx' | rfl
            · exact ⟨(h.yP x hx').1, fun hf => (h.yP x hx').2 (List.mem_filter.mp hf).1⟩
            · exact ⟨(h.futPA x htf).1, fun hf => by simpa using (List.mem_filter.mp hf).2⟩
          futPA := fun x hx => h.futPA x (List.mem_filter.mp hx).1
          ddEq := h.ddEq
          pdtY := fun d x hd' => (h.pdtY d x hd').imp id (yieldedOf_mono _ _ _)
          pdtSub := h.pdtSub
          actPd := h.actPd
          pdA := fun x d hd' => (h.pdA x d hd').imp id (fun h1 => ⟨h1.1, yieldedOf_mono _ _ _ h1.2⟩)
          held := by
            intro d v hy hna
            have hy' : Ev.yield d (.ok v) ∈ s.rs.trace ++ [Ev.yield t o] := hy
            simp only [List.mem_append, List.mem_singleton] at hy'
            rcases hy' with hy' | hy'
            · exact h.held d v hy' hna
            · cases hy'; exact absurd (h.futPA t htf).2 hna
          cap := by
            intro d v hr hy hna
            have hy' : Ev.yield d (.ok v) ∈ s.rs.trace ++ [Ev.yield t o] := hy
            simp only [List.mem_append, List.mem_singleton] at hy'
            rcases hy' with hy' | hy'
            · exact h.cap d v hr hy' hna
            · cases hy'; exact absurd (h.futPA t htf).2 hna
          capY := fun d v hd => List.mem_append_left _ (h.capY d v hd)
          remH := h.remH.snoc trivial }
    · exact RI_keyErr h
  case storeResult t v =>
    simp only [stepPrim]
    exact { h with
      resY := by
        intro d w hd
        rcases List.mem_cons.mp hd with hd | hd
        · cases hd; exact hg
        · exact h.resY d w (mem_filter_key.mp hd).1
      resNd := keys_cons_filter_nodup _ t v h.resNd
      held := by
        intro d w hy hna hne
        by_cases hdt : d = t
        · subst hdt
          have : Outcome.ok w = Outcome.ok v := yield_unique _ h.yNd d _ _ hy hg
          cases this
          exact List.mem_cons_self
        · exact List.mem_cons_of_mem _ (mem_filter_key.mpr ⟨h.held d w hy hna hne, hdt⟩) }
  case capture t v =>
    simp only [stepPrim]
    exact { h with
      cap := by
        intro d w hr hy hna
        by_cases hdt : d = t
        · subst hdt
          have : Outcome.ok w = Outcome.ok v := yield_unique _ h.yNd d _ _ hy hg
          cases this
          exact List.mem_cons_self
        · exact List.mem_cons_of_mem _ (mem_filter_key.mpr ⟨h.cap d w hr hy hna, hdt⟩)
      capY := by
        intro d w hd
        rcases List.mem_cons.mp hd with hd | hd
        · cases hd; exact hg
        · exact h.capY d w (mem_filter_key.mp hd).1 }
  case removeActive t =>
    simp only [stepPrim]
    cases hr : setRemove s.rs.ts.active t with
    | none => exact RI_keyErr h
    | some a =>
      obtain ⟨_, ha⟩ := setRemove_some _ _ _ hr
      subst ha
      have hsub : ∀ x, x ∉ s.rs.ts.active.filter (· ≠ t) → x ∉ s.rs.ts.active ∨ x = t := by
        intro x hx
        by_cases hxt : x = t
        · exact Or.inr hxt
        · exact Or.inl (fun hxa => hx (by simp [hxa, hxt]))
      exact { h with
        futPA := by
          intro x hx
          refine ⟨(h.futPA x hx).1, ?_⟩
          simp only [List.mem_filter, decide_eq_true_eq]
          exact ⟨(h.futPA x hx).2, fun hxt => hg.1 (hxt ▸ hx)⟩
        actPd := fun x hx => h.actPd x (List.mem_filter.mp hx).1
        pdA := by
          intro x d hd'
          rcases h.pdA x d hd' with h1 | h1
          · exact Or.inl h1
          · exact Or.inr ⟨fun hda => h1.1 (List.mem_filter.mp hda).1, h1.2⟩
        held := by
          intro d v hy hna hne
          rcases hsub d hna with h1 | rfl
          · exact h.held d v hy h1 hne
          · exact (hg.2 v hy).1
        cap := by
          intro d v hr' hy hna
          rcases hsub d hna with h1 | rfl
          · exact h.cap d v hr' hy h1
          · exact (hg.2 v hy).2 hr' }
  case unblockOne t d =>
    simp only [stepPrim]
    cases hr : setRemove (s.rs.ts.pendDeps d) t with
    | none => exact RI_keyErr h
    | some l =>
      obtain ⟨_, hl⟩ := setRemove_some _ _ _ hr
      subst hl
      exact { h with
        actPd := by
          intro x hx
          simp only [upd]
          split
          · next hxd => subst hxd; rw [h.actPd x hx]; rfl
          · exact h.actPd x hx
        pdA := by
          intro x y hy
          rcases h.pdA x y hy with h1 | h1
          · by_cases hyt : y = t
            · subst hyt; exact Or.inr hg
            · left
              simp only [upd]
              split
              · next hxd => subst hxd; simp [h1, hyt]
              · exact h1
          · exact Or.inr h1 }
  case releaseOne t d =>
    simp only [stepPrim]
    cases hr : setRemove (s.rs.ts.pendDependents d) t with
    | none => exact RI_keyErr h
    | some l =>
      obtain ⟨_, hl⟩ := setRemove_some _ _ _ hr
      subst hl
      exact { h with
        pdtY := by
          intro d' x hx
          rcases h.pdtY d' x hx with h1 | h1
          · by_cases hxt : x = t
            · subst hxt; exact Or.inr hg
            · left
              simp only [upd]
              split
              · next hdd => subst hdd; simp [h1, hxt]
              · exact h1
          · exact Or.inr h1
        pdtSub := by
          intro d' x hx
          simp only [upd] at hx
          split at hx
          · next hdd => subst hdd; exact h.pdtSub d' x (List.mem_filter.mp hx).1
          · exact h.pdtSub d' x hx
        held := by
          intro d' v hy hna hne
          apply h.held d' v hy hna
          simp only [upd] at hne
          split at hne
          · next hdd =>
            subst hdd
            intro hnil; rw [hnil] at hne; exact hne rfl
          · exact hne }
  case removeResult d =>
    simp only [stepPrim]
    exact { h with
      resY := fun d' v hd' => h.resY d' v (mem_filter_key.mp hd').1
      resNd := keys_filter_nodup _ _ h.resNd
      held := by
        intro d' v hy hna hne
        have hdd : d' ≠ d := fun hdd => hne (hdd ▸ hg.1)
        exact mem_filter_key.mpr ⟨h.held d' v hy hna hne, hdd⟩ }
  case removeDone rem =>
    simp only [stepPrim]
    refine h.mono [Ev.remove rem (s.rs.results.map (·.1))] rfl
      (fun e he => by simp only [List.mem_singleton] at he; subst he; rfl) ?_ rfl rfl rfl (fun _ ht => ht)
    apply h.remH.snoc
    intro d hd x hx
    rcases h.pdtY d x hx with h1 | h1
    · rw [hg d hd] at h1; simp at h1
    · exact h1
  case popDeque =>
    simp only [stepPrim]
    cases hq : s.rs.queued with
    | nil =>
      exact h.plain [Ev.waitEnter ([].map Job.tid) []] rfl
        (fun e he => by simp only [List.mem_singleton] at he; subst he; rfl) rfl rfl rfl (fun _ ht => ht)
    | cons j rest =>
      exact h.plain [Ev.waitEnter ((j :: rest).map Job.tid) []] rfl
        (fun e he => by simp only [List.mem_singleton] at he; subst he; rfl) rfl rfl rfl (fun _ ht => ht)
  case serialRun =>
    simp only [stepPrim]
    cases hc : s.cur with
    | none => exact h
    | some j =>
      refine h.plain ([Ev.start j.tid] ++ runEvents p s.rs.ts j) (by simp) ?_ rfl rfl rfl (fun _ ht => ht)
      intro e he
      simp only [List.mem_append, List.mem_singleton] at he
      rcases he with rfl | he
      · rfl
      · rcases runEvents_cases p _ j e he with rfl | rfl <;> rfl
  case clearDeque =>
    simp only [stepPrim]
    exact h.same rfl rfl rfl rfl (fun x hx => by simp at hx)

/-! ## the transition fact -/
def Prim.touchesRes : Prim → Bool
  | .storeResult _ _ | .removeResult _ => true
  | _ => false

theorem applyPrim_results (q : Prim) (s : IS) (h : q.touchesRes = false) :
    (applyPrim cfg p q s).rs.results = s.rs.results := by
  unfold applyPrim
  split
  · cases q <;> simp [Prim.touchesRes] at h <;> simp only [stepPrim, keyErr] <;> (repeat' split) <;> rfl
  · rfl

theorem RT_step {P : TS} {req : List Tid} (q : Prim) (s : IS) (h : RI P req s)
    (hg : s.rs.status = .running → RG P req s q) : RT req s (applyPrim cfg p q s) := by
  by_cases hd : q.touchesRes = false
  · exact RT_of_eq (applyPrim_results q s hd)
  by_cases hrun : ¬ s.rs.status = .running
  · rw [applyPrim_stopped q s hrun]; exact RT_refl req s
  have hrun : s.rs.status = .running := Decidable.not_not.mp hrun
  replace hg := hg hrun
  rw [applyPrim_running q s hrun]
  cases q <;> simp [Prim.touchesRes] at hd
  case storeResult t v =>
    intro d w hd' hnot
    exfalso
    apply hnot
    simp only [stepPrim]
    by_cases hdt : d = t
    · subst hdt
      have : Outcome.ok w = Outcome.ok v := yield_unique _ h.yNd d _ _ (h.resY d w hd') hg
      cases this
      exact List.mem_cons_self
    · exact List.mem_cons_of_mem _ (mem_filter_key.mpr ⟨hd', hdt⟩)
  case removeResult d' =>
    intro d w hd hnot
    simp only [stepPrim] at hnot
    have hdd : d = d' := by
      apply Classical.byContradiction
      intro hne
      exact hnot (mem_filter_key.mpr ⟨hd, hne⟩)
    subst hdd
    exact ⟨hg.1, fun hr => h.cap d w hr (h.resY d w hd) hg.2⟩

/-! ## what single primitives leave alone -/
def Prim.touchesAct : Prim → Bool
  | .startTask _ | .removeActive _ => true
  | _ => false

theorem applyPrim_active (q : Prim) (s : IS) (h : q.touchesAct = false) :
    (applyPrim cfg p q s).rs.ts.active = s.rs.ts.active := by
  unfold applyPrim
  split
  · cases q <;> simp [Prim.touchesAct] at h <;> simp only [stepPrim, keyErr] <;> (repeat' split) <;> rfl
  · rfl

def Prim.isUnblock : Prim → Bool
  | .unblockOne _ _ => true
  | _ => false

theorem applyPrim_pendDeps (q : Prim) (s : IS) (h : q.isUnblock = false) :
    (applyPrim cfg p q s).rs.ts.pendDeps = s.rs.ts.pendDeps := by
  unfold applyPrim
  split
  · cases q <;> simp [Prim.isUnblock] at h <;> simp only [stepPrim, keyErr]
    case startTask t =>
      cases hs : startTask s.rs.ts t with
      | none => rfl
      | some ts' => obtain ⟨_, hts⟩ := startTask_some _ _ _ hs; subst hts; rfl
    all_goals (repeat' split) <;> rfl
  · rfl

/-- primitives that put a `yield` on record -/
def Prim.yields : Prim → Bool
  | .popFuture _ (some _) => true
  | _ => false

theorem applyPrim_yielded (q : Prim) (s : IS) (h : q.yields = false) :
    yieldedOf (applyPrim cfg p q s).rs.trace = yieldedOf s.rs.trace := by
  by_cases hrun : ¬ s.rs.status = .running
  · rw [applyPrim_stopped q s hrun]
  rw [applyPrim_running q s (Decidable.not_not.mp hrun)]
  cases q
  case consumeResults c =>
    simp only [stepPrim]
    rw [List.append_assoc]
    apply yieldedOf_ny
    intro e he
    simp only [List.mem_append, List.mem_singleton] at he
    rcases he with rfl | he
    · rfl
    · obtain ⟨es, hes, hmem⟩ := List.mem_flatten.mp he
      obtain ⟨j, _, rfl⟩ := List.mem_map.mp hes
      rcases jobEvents_cases p _ j e hmem with rfl | rfl <;> rfl
  case popFuture t o =>
    cases o with
    | none => simp only [stepPrim]; split <;> rfl
    | some o => simp [Prim.yields] at h
  case removeDone rem =>
    simp only [stepPrim]
    exact yieldedOf_ny _ _ (fun e he => by simp only [List.mem_singleton] at he; subst he; rfl)
  case popDeque =>
    simp only [stepPrim]
    split <;> exact yieldedOf_ny _ _ (fun e he => by simp only [List.mem_singleton] at he; subst he; rfl)
  case enqueue t =>
    simp only [stepPrim]
    exact yieldedOf_ny _ _ (fun e he => by simp only [List.mem_singleton] at he; subst he; rfl)
  case procStart t =>
    simp only [stepPrim]
    exact yieldedOf_ny _ _ (fun e he => by simp only [List.mem_singleton] at he; subst he; rfl)
  case serialAppend t =>
    simp only [stepPrim]
    exact yieldedOf_ny _ _ (fun e he => by simp only [List.mem_singleton] at he; subst he; rfl)
  case serialRun =>
    simp only [stepPrim]
    cases hc : s.cur with
    | none => rfl
    | some j =>
      simp only
      rw [List.append_assoc]
      apply yieldedOf_ny
      intro e he
      simp only [List.mem_append, List.mem_singleton] at he
      rcases he with rfl | he
      · rfl
      · rcases runEvents_cases p _ j e he with rfl | rfl <;> rfl
  all_goals
    simp only [stepPrim, keyErr]
    repeat' split
    all_goals rfl

/-- what a block of primitives of the submit path leaves alone -/
theorem launch_frame : ∀ (ps : List Prim) (s : IS),
    (∀ q ∈ ps, q.touchesTS = false ∧ q.yields = false) →
    (runPrims cfg p ps s).rs.ts = s.rs.ts ∧
    yieldedOf (runPrims cfg p ps s).rs.trace = yieldedOf s.rs.trace := by
  intro ps
  induction ps with
  | nil => intro s _; exact ⟨rfl, rfl⟩
  | cons q ps ih =>
    intro s hq
    obtain ⟨h1, h2⟩ := hq q List.mem_cons_self
    obtain ⟨i1, i2⟩ := ih (applyPrim cfg p q s) (fun q' hq' => hq q' (List.mem_cons_of_mem _ hq'))
    rw [runPrims_cons]
    exact ⟨i1.trans (applyPrim_ts q s h1), i2.trans (applyPrim_yielded q s h2)⟩

theorem runPrims_pendDeps : ∀ (ps : List Prim) (s : IS), (∀ q ∈ ps, q.isUnblock = false) →
    (runPrims cfg p ps s).rs.ts.pendDeps = s.rs.ts.pendDeps := by
  intro ps
  induction ps with
  | nil => intro s _; rfl
  | cons q ps ih =>
    intro s hq
    rw [runPrims_cons, ih _ (fun q' hq' => hq q' (List.mem_cons_of_mem _ hq')),
      applyPrim_pendDeps q s (hq q List.mem_cons_self)]

/-! ## `Always2`: a state predicate after every prefix and a transition predicate for every step -/
def Always2 (cfg : Config) (p : Problem) (Qa : IS → Prop) (T : IS → IS → Prop) : List Prim → IS → Prop
  | [], s => Qa s
  | q :: ps, s => Qa s ∧ T s (applyPrim cfg p q s) ∧ Always2 cfg p Qa T ps (applyPrim cfg p q s)

theorem Always2.head {Qa : IS → Prop} {T : IS → IS → Prop} {ps : List Prim} {s : IS}
    (h : Always2 cfg p Qa T ps s) : Qa s := by
  cases ps with
  | nil => exact h
  | cons q ps => exact h.1

theorem always2_append {Qa : IS → Prop} {T : IS → IS → Prop} : ∀ (a b : List Prim) (s : IS),
    Always2 cfg p Qa T (a ++ b) s ↔
      Always2 cfg p Qa T a s ∧ Always2 cfg p Qa T b (runPrims cfg p a s) := by
  intro a
  induction a with
  | nil =>
    intro b s
    simp only [List.nil_append, runPrims_nil, Always2]
    exact ⟨fun h => ⟨h.head, h⟩, fun h => h.2⟩
  | cons q a ih =>
    intro b s
    simp only [List.cons_append, Always2, runPrims_cons, ih]
    exact ⟨fun h => ⟨⟨h.1, h.2.1, h.2.2.1⟩, h.2.2.2⟩, fun h => ⟨h.1.1, h.1.2.1, h.1.2.2, h.2⟩⟩

theorem Always2.last {Qa : IS → Prop} {T : IS → IS → Prop} : ∀ {ps : List Prim} {s : IS},
    Always2 cfg p Qa T ps s → Qa (runPrims cfg p ps s) := by
  intro ps
  induction ps with
  | nil => intro s h; exact h
  | cons q ps ih => intro s h; exact ih h.2.2

theorem Always2.always {Qa : IS → Prop} {T : IS → IS → Prop} : ∀ {ps : List Prim} {s : IS},
    Always2 cfg p Qa T ps s → Always cfg p Qa ps s := by
  intro ps
  induction ps with
  | nil => intro s h; exact h
  | cons q ps ih => intro s h; exact ⟨h.1, ih h.2.2⟩

/-- the transition predicate holds between instant `k` and instant `k + 1` -/
theorem Always2.pair {Qa : IS → Prop} {T : IS → IS → Prop} (hT : ∀ s, T s s) : ∀ {ps : List Prim} {s : IS},
    Always2 cfg p Qa T ps s → ∀ k, T (runPrims cfg p (ps.take k) s) (runPrims cfg p (ps.take (k + 1)) s) := by
  intro ps
  induction ps with
  | nil => intro s _ k; simpa using hT s
  | cons q ps ih =>
    intro s h k
    cases k with
    | zero => simpa using h.2.1
    | succ k => simpa using ih h.2.2 k

/-! ## blocks -/
/-- `RI` after every prefix, `RT` for every step -/
abbrev A2 (cfg : Config) (p : Problem) (P : TS) (req : List Tid) : List Prim → IS → Prop :=
  Always2 cfg p (RI P req) (RT req)

theorem A2_nil {P : TS} {req : List Tid} {s : IS} (h : RI P req s) : A2 cfg p P req [] s := h

theorem A2_cons {P : TS} {req : List Tid} {q : Prim} {ps : List Prim} {s : IS} (h : RI P req s)
    (hg : s.rs.status = .running → RG P req s q)
    (rest : RI P req (applyPrim cfg p q s) → A2 cfg p P req ps (applyPrim cfg p q s)) :
    A2 cfg p P req (q :: ps) s :=
  ⟨h, RT_step q s h hg, rest (RI_step q s h hg)⟩

theorem A2_stopped {P : TS} {req : List Tid} (ps : List Prim) (s : IS) (hs : s.rs.status ≠ .running)
    (h : RI P req s) : A2 cfg p P req ps s := by
  induction ps with
  | nil => exact h
  | cons q ps ih => exact ⟨h, by rw [applyPrim_stopped q s hs]; exact RT_refl req s,
      by rw [applyPrim_stopped q s hs]; exact ih⟩

theorem A2_free {P : TS} {req : List Tid} : ∀ (ps : List Prim) (s : IS), (∀ q ∈ ps, q.rfree = true) →
    RI P req s → A2 cfg p P req ps s := by
  intro ps
  induction ps with
  | nil => intro s _ h; exact h
  | cons q ps ih =>
    intro s hq h
    exact A2_cons h (fun _ => RG_of_free (hq q List.mem_cons_self))
      (fun h' => ih _ (fun q' hq' => hq q' (List.mem_cons_of_mem _ hq')) h')

theorem A2.append {P : TS} {req : List Tid} {a b : List Prim} {s : IS} (ha : A2 cfg p P req a s)
    (hb : RI P req (runPrims cfg p a s) → A2 cfg p P req b (runPrims cfg p a s)) :
    A2 cfg p P req (a ++ b) s :=
  (always2_append a b s).mpr ⟨ha, hb ha.last⟩

theorem running_of_step (q : Prim) (s : IS) (h : (applyPrim cfg p q s).rs.status = .running) :
    s.rs.status = .running := by
  apply Classical.byContradiction
  intro hs
  rw [applyPrim_stopped q s hs] at h
  exact hs h

/-! ### `remove_results` -/
theorem A2_removeList {P : TS} {req : List Tid} (rem : List Tid) : ∀ (l : List Tid) (s : IS), RI P req s →
    (s.rs.status = .running → (∀ d ∈ l, s.rs.ts.pendDependents d = [] ∧ d ∉ s.rs.ts.active) ∧
      ∀ d ∈ rem, s.rs.ts.pendDependents d = []) →
    A2 cfg p P req (l.map Prim.removeResult ++ [Prim.removeDone rem]) s := by
  intro l
  induction l with
  | nil =>
    intro s h hg
    exact A2_cons h (fun hrun => (hg hrun).2) (fun h' => A2_nil h')
  | cons d l ih =>
    intro s h hg
    refine A2_cons (ps := l.map Prim.removeResult ++ [Prim.removeDone rem]) h
      (fun hrun => (hg hrun).1 d List.mem_cons_self) (fun h' => ih _ h' ?_)
    intro hrun'
    have hrun := running_of_step _ _ hrun'
    rw [applyPrim_ts _ _ rfl]
    exact ⟨fun d' hd' => (hg hrun).1 d' (List.mem_cons_of_mem _ hd'), (hg hrun).2⟩

/-! ### `complete_task` -/
theorem release_facts (t : Tid) : ∀ (ds : List Tid) (pdt pdt' : Tid → List Tid) (rem : List Tid),
    release t ds pdt = some (pdt', rem) →
    (∀ d ∈ rem, d ∈ ds) ∧ (∀ x y, y ∈ pdt' x → y ∈ pdt x) ∧ (∀ d ∈ rem, pdt' d = []) := by
  intro ds
  induction ds with
  | nil =>
    intro pdt pdt' rem h
    simp only [release, Option.some.injEq, Prod.mk.injEq] at h
    obtain ⟨h1, h2⟩ := h
    subst h1; subst h2
    exact ⟨fun d hd => by simp at hd, fun _ _ hy => hy, fun d hd => by simp at hd⟩
  | cons x xs ih =>
    intro pdt pdt' rem h
    simp only [release] at h
    cases hr : setRemove (pdt x) t with
    | none => simp [hr] at h
    | some l =>
      simp only [hr] at h
      obtain ⟨_, hl⟩ := setRemove_some _ _ _ hr
      cases hrec : release t xs (upd pdt x l) with
      | none => simp [hrec] at h
      | some pr =>
        obtain ⟨pdt2, rem2⟩ := pr
        simp only [hrec, Option.some.injEq, Prod.mk.injEq] at h
        obtain ⟨h1, h2⟩ := h
        subst h1
        obtain ⟨i1, i2, i3⟩ := ih _ _ _ hrec
        have hsub : ∀ a y, y ∈ pdt2 a → y ∈ pdt a := by
          intro a y hy
          have := i2 a y hy
          simp only [upd] at this
          split at this
          · next hax => subst hax; rw [hl] at this; exact (List.mem_filter.mp this).1
          · exact this
        have hx : l = [] → pdt2 x = [] := by
          intro hnil
          apply List.eq_nil_iff_forall_not_mem.mpr
          intro y hy
          have := i2 x y hy
          simp [upd, hnil] at this
        refine ⟨?_, hsub, ?_⟩
        · intro d hd
          rw [← h2] at hd
          split at hd
          · rcases List.mem_cons.mp hd with rfl | hd
            · exact List.mem_cons_self
            · exact List.mem_cons_of_mem _ (i1 d hd)
          · exact List.mem_cons_of_mem _ (i1 d hd)
        · intro d hd
          rw [← h2] at hd
          split at hd
          · next hemp =>
            rcases List.mem_cons.mp hd with rfl | hd
            · exact hx (by simpa using hemp)
            · exact i3 d hd
          · exact i3 d hd

/-- what `complete_task` reports as removable: direct dependencies of the task, or the task itself,
    and every one of them with nothing left in `task_to_pending_dependents` -/
theorem completeTask_rem_facts (s s' : TS) (t : Tid) (rem : List Tid) (h : completeTask s t = some (s', rem)) :
    ∀ d ∈ rem, (d ∈ s.ddeps t ∨ d = t) ∧ s'.pendDependents d = [] := by
  obtain ⟨act, pd, pdt, rem0, _, _, hrel, hs, hrem⟩ := completeTask_some s s' t rem h
  obtain ⟨r1, _, r3⟩ := release_facts t _ _ _ _ hrel
  subst hs
  subst hrem
  intro d hd
  split at hd
  · next hemp =>
    rcases List.mem_append.mp hd with h1 | h1
    · exact ⟨Or.inl (r1 d h1), r3 d h1⟩
    · simp only [List.mem_singleton] at h1
      subst h1
      exact ⟨Or.inr rfl, by simpa using hemp⟩
  · exact ⟨Or.inl (r1 d hd), r3 d hd⟩

theorem A2_unrel {P : TS} {req : List Tid} (t : Tid) : ∀ (ps : List Prim) (s : IS), RI P req s →
    (∀ q ∈ ps, (∃ d, q = Prim.unblockOne t d) ∨ ∃ d, q = Prim.releaseOne t d) →
    (s.rs.status = .running → t ∉ s.rs.ts.active ∧ t ∈ yieldedOf s.rs.trace) →
    A2 cfg p P req ps s := by
  intro ps
  induction ps with
  | nil => intro s h _ _; exact h
  | cons q ps ih =>
    intro s h hq hg
    have hq' := hq q List.mem_cons_self
    refine A2_cons h ?_ (fun h' => ih _ h' (fun q' hm => hq q' (List.mem_cons_of_mem _ hm)) ?_)
    · intro hrun
      rcases hq' with ⟨d, rfl⟩ | ⟨d, rfl⟩
      · exact hg hrun
      · exact (hg hrun).2
    · intro hrun'
      have hrun := running_of_step _ _ hrun'
      rcases hq' with ⟨d, rfl⟩ | ⟨d, rfl⟩
      · rw [applyPrim_active _ _ rfl, applyPrim_yielded _ _ rfl]; exact hg hrun
      · rw [applyPrim_active _ _ rfl, applyPrim_yielded _ _ rfl]; exact hg hrun

theorem completePrims_cons (ts : TS) (t : Tid) : completePrims ts t = Prim.removeActive t ::
    ((ts.pendDependents t).map (Prim.unblockOne t) ++ (ts.ddeps t).map (Prim.releaseOne t)) := by
  simp [completePrims]

/-- `complete_task(t)` and what follows it in the consumer's loop body -/
theorem A2_complete {P : TS} {req : List Tid} (ts : TS) (t : Tid) (s : IS) (tl : List Prim) (h : RI P req s)
    (hts : s.rs.ts = ts)
    (hga : s.rs.status = .running → RG P req s (Prim.removeActive t))
    (hy : s.rs.status = .running → t ∈ yieldedOf s.rs.trace ∧ t ∈ s.rs.ts.active)
    (htl : tl = removePrims (remOf ts t) ∨ tl = [Prim.raiseLabError t]) :
    A2 cfg p P req (completePrims ts t ++ tl) s := by
  by_cases hrun' : ¬ s.rs.status = .running
  · exact A2_stopped _ s hrun' h
  have hrun : s.rs.status = .running := Decidable.not_not.mp hrun'
  have hc : A2 cfg p P req (completePrims ts t) s := by
    rw [completePrims_cons]
    refine A2_cons h hga (fun h1 => A2_unrel t _ _ h1 ?_ ?_)
    · intro q hq
      simp only [List.mem_append, List.mem_map] at hq
      rcases hq with ⟨d, _, rfl⟩ | ⟨d, _, rfl⟩
      · exact Or.inl ⟨d, rfl⟩
      · exact Or.inr ⟨d, rfl⟩
    · intro hrun1
      rw [applyPrim_yielded _ _ rfl]
      refine ⟨?_, (hy hrun).1⟩
      rw [applyPrim_running _ _ hrun] at hrun1 ⊢
      simp only [stepPrim] at hrun1 ⊢
      cases hr : setRemove s.rs.ts.active t with
      | none => rw [hr] at hrun1; simp [keyErr] at hrun1
      | some a =>
        obtain ⟨_, ha⟩ := setRemove_some _ _ _ hr
        subst ha
        simp
  refine hc.append (fun h6 => ?_)
  rcases htl with rfl | rfl
  · refine A2_removeList _ _ _ h6 (fun hrun6 => ?_)
    cases hct : completeTask ts t with
    | none => simp [remOf, hct]
    | some r =>
      obtain ⟨ts', rem⟩ := r
      have e6 := complete_refine (cfg := cfg) (p := p) s ts t ts' rem hrun hts hct
      have hrem : remOf ts t = rem := by simp [remOf, hct]
      have hf := completeTask_rem_facts ts ts' t rem hct
      have hact := completeTask_active ts ts' t rem hct
      rw [hrem, e6]
      simp only [IS.setTS_ts]
      refine ⟨fun d hd => ⟨(hf d hd).2, ?_⟩, fun d hd => (hf d hd).2⟩
      rw [hact]
      intro hda
      obtain ⟨hda, hdt⟩ := List.mem_filter.mp hda
      rcases (hf d hd).1 with h1 | h1
      · rw [← hts, h.ddEq] at h1
        rw [← hts] at hda
        exact h.actDeps t (hy hrun).2 d h1 hda
      · simp [h1] at hdt
  · exact A2_free _ _ (fun q hq => by simp only [List.mem_singleton] at hq; subst hq; rfl) h6

/-! ### pop + the consumer's loop body -/
/-- the three statements between the `yield` and `complete_task` for a successful task -/
theorem okHead_run (req : List Tid) (t : Tid) (v : Val) (s : IS) (hrun : s.rs.status = .running) :
    let s4 := runPrims cfg p ([Prim.storeResult t v] ++ (if t ∈ req then [Prim.capture t v] else [])
      ++ [Prim.markInstances t]) s
    s4.rs.status = .running ∧ s4.rs.ts = s.rs.ts ∧ s4.rs.futs = s.rs.futs ∧ s4.rs.trace = s.rs.trace ∧
      (t, v) ∈ s4.rs.results ∧ (t ∈ req → (t, v) ∈ s4.rs.taskResults) := by
  by_cases hreq : t ∈ req
  · simp [hreq, runPrims, applyPrim, stepPrim, hrun]
  · simp [hreq, runPrims, applyPrim, stepPrim, hrun]

theorem A2_okHead {P : TS} {req : List Tid} (t : Tid) (v : Val) (s : IS) (h : RI P req s)
    (hy : s.rs.status = .running → Ev.yield t (.ok v) ∈ s.rs.trace) :
    A2 cfg p P req ([Prim.storeResult t v] ++ (if t ∈ req then [Prim.capture t v] else [])
      ++ [Prim.markInstances t]) s := by
  by_cases hrun' : ¬ s.rs.status = .running
  · exact A2_stopped _ s hrun' h
  have hrun : s.rs.status = .running := Decidable.not_not.mp hrun'
  have htr : (applyPrim cfg p (Prim.storeResult t v) s).rs.trace = s.rs.trace := by
    simp [applyPrim, stepPrim, hrun]
  have hm : ∀ s' : IS, RI P req s' → A2 cfg p P req [Prim.markInstances t] s' :=
    fun s' h' => A2_free _ _ (fun q hq => by simp only [List.mem_singleton] at hq; subst hq; rfl) h'
  by_cases hreq : t ∈ req
  · simp only [hreq, if_true]
    exact A2_cons h hy (fun h1 => A2_cons h1 (fun _ => by show Ev.yield t (.ok v) ∈ _; rw [htr]; exact hy hrun) (fun h2 => hm _ h2))
  · simp only [hreq, if_false, List.append_nil]
    exact A2_cons h hy (fun h1 => hm _ h1)

theorem A2_popYield {P : TS} {req : List Tid} (ts : TS) (t : Tid) (o : Outcome) (s : IS) (h : RI P req s)
    (hts : s.rs.ts = ts) :
    A2 cfg p P req (Prim.popFuture t (some o) :: yieldPrims cfg req ts t o) s := by
  by_cases hrun' : ¬ s.rs.status = .running
  · exact A2_stopped _ s hrun' h
  have hrun : s.rs.status = .running := Decidable.not_not.mp hrun'
  refine A2_cons h (fun _ => trivial) (fun h1 => ?_)
  by_cases htf : t ∈ s.rs.futs
  · -- the state after the pop
    obtain ⟨s1, hs1⟩ : ∃ s1, s1 = applyPrim cfg p (Prim.popFuture t (some o)) s := ⟨_, rfl⟩
    rw [← hs1] at h1 ⊢
    have f1 : s1.rs.status = .running ∧ s1.rs.ts = ts ∧ t ∉ s1.rs.futs ∧ Ev.yield t o ∈ s1.rs.trace := by
      rw [hs1, applyPrim_running _ _ hrun]
      simp [stepPrim, htf, hrun, hts]
    obtain ⟨r1, t1, nf1, y1⟩ := f1
    have a1 : t ∈ s1.rs.ts.active := by rw [t1, ← hts]; exact (h.futPA t htf).2
    have ty1 : t ∈ yieldedOf s1.rs.trace := (mem_yieldedOf _ _).mpr ⟨o, y1⟩
    have fail : ∀ (o' : Outcome), o = o' → (∀ v, o' ≠ .ok v) → ∀ tl,
        (tl = removePrims (remOf ts t) ∨ tl = [Prim.raiseLabError t]) →
        A2 cfg p P req (completePrims ts t ++ tl) s1 := by
      intro o' ho hno tl htl
      refine A2_complete ts t s1 tl h1 t1 (fun _ => ⟨nf1, ?_⟩) (fun _ => ⟨ty1, a1⟩) htl
      intro v hv
      have := yield_unique _ h1.yNd t _ _ hv y1
      exact absurd (ho ▸ this.symm) (hno v)
    cases o with
    | ok v =>
      simp only [yieldPrims]
      rw [List.append_assoc]
      refine (A2_okHead t v s1 h1 (fun _ => y1)).append (fun h4 => ?_)
      obtain ⟨r4, t4, f4, tr4, res4, tres4⟩ := okHead_run (cfg := cfg) (p := p) req t v s1 r1
      refine A2_complete ts t _ _ h4 (t4.trans t1) (fun _ => ⟨by rw [f4]; exact nf1, ?_⟩)
        (fun _ => ⟨by rw [tr4]; exact ty1, by rw [t4]; exact a1⟩) (Or.inl rfl)
      intro v' hv'
      rw [tr4] at hv'
      have : Outcome.ok v' = Outcome.ok v := yield_unique _ h1.yNd t _ _ hv' y1
      cases this
      exact ⟨res4, tres4⟩
    | exc =>
      simp only [yieldPrims]
      exact fail .exc rfl (fun v hv => by cases hv) _ (by split <;> simp)
    | died =>
      simp only [yieldPrims]
      exact fail .died rfl (fun v hv => by cases hv) _ (by split <;> simp)
  · apply A2_stopped _ _ _ h1
    rw [applyPrim_running _ _ hrun]
    simp [stepPrim, htf, keyErr]

theorem A2_doneOne {P : TS} {req : List Tid} (s : IS) (t : Tid) (h : RI P req s) :
    A2 cfg p P req (doneOnePrims cfg req s t) s := by
  simp only [doneOnePrims]
  split
  · exact A2_free _ s (fun q hq => by simp only [List.mem_singleton] at hq; subst hq; rfl) h
  · split
    · exact A2_popYield _ t _ s h rfl
    · exact h

theorem A2_done {P : TS} {req : List Tid} : ∀ (cands : List Tid) (s : IS), RI P req s →
    A2 cfg p P req (donePrims cfg p req cands s) s := by
  intro cands
  induction cands with
  | nil => intro s h; exact h
  | cons t rest ih =>
    intro s h
    unfold donePrims
    split
    · exact (A2_doneOne s t h).append (fun h' => ih _ h')
    · exact h

/-- one `process_completed_tasks()` call, from any state -/
theorem A2_wait {P : TS} {req : List Tid} (c : Choice) (s : IS) (h : RI P req s) :
    A2 cfg p P req (waitPrims cfg p req c s) s := by
  simp only [waitPrims]
  split
  · split
    · exact A2_free _ s (fun q hq => by simp only [List.mem_singleton] at hq; subst hq; rfl) h
    · next j rest _ =>
      rw [List.append_assoc, List.singleton_append]
      have hq : ∀ q ∈ [Prim.popDeque, Prim.serialRun, Prim.serialSaveBegin, Prim.serialSaveEnd],
          q.rfree = true ∧ q.quiet = true := by
        intro q hq
        simp only [List.mem_cons, List.not_mem_nil, or_false] at hq
        rcases hq with rfl | rfl | rfl | rfl <;> exact ⟨rfl, rfl⟩
      refine (A2_free _ s (fun q hq' => (hq q hq').1) h).append (fun h' => ?_)
      exact A2_popYield _ _ _ _ h' (quiet_run _ s (fun q hq' => (hq q hq').2)).1
  · have a : A2 cfg p P req (Prim.consumeResults c ::
        deadPrims (runPrims cfg p [Prim.consumeResults c] s)) s :=
      A2_free _ s (fun q hq => by
        simp only [List.mem_cons, deadPrims, List.mem_map] at hq
        rcases hq with rfl | ⟨t, _, rfl⟩ <;> rfl) h
    have b : A2 cfg p P req (Prim.consumeResults c ::
        deadPrims (runPrims cfg p [Prim.consumeResults c] s) ++
        startProcessesPrims cfg (runPrims cfg p (deadPrims (runPrims cfg p [Prim.consumeResults c] s))
          (runPrims cfg p [Prim.consumeResults c] s))) s :=
      a.append (fun ha => A2_free _ _ (fun q hq => by
        simp only [startProcessesPrims, startPrims, List.mem_flatMap, List.mem_cons, List.not_mem_nil,
          or_false] at hq
        obtain ⟨j, _, rfl | rfl | rfl⟩ := hq <;> rfl) ha)
    refine b.append (fun hb => ?_)
    rw [runPrims_append]
    exact A2_done _ _ (by rw [← runPrims_append]; exact hb)

/-! ### the submit phase -/
theorem startTask_facts' (s : IS) (t : Tid) (hrun : s.rs.status = .running)
    (hr1 : (applyPrim cfg p (Prim.startTask t) s).rs.status = .running) :
    t ∈ s.rs.ts.pending ∧ t ∉ (applyPrim cfg p (Prim.startTask t) s).rs.ts.pending ∧
    t ∈ (applyPrim cfg p (Prim.startTask t) s).rs.ts.active ∧
    (applyPrim cfg p (Prim.startTask t) s).rs.trace = s.rs.trace := by
  rw [applyPrim_running _ _ hrun] at hr1 ⊢
  simp only [stepPrim] at hr1 ⊢
  cases hs : startTask s.rs.ts t with
  | none => rw [hs] at hr1; simp [keyErr] at hr1
  | some ts' =>
    obtain ⟨h1, h2⟩ := startTask_some _ _ _ hs
    subst h2
    exact ⟨h1, by simp, by simp, rfl⟩

theorem A2_submitOne {P : TS} {req : List Tid} (s : IS) (t : Tid) (h : RI P req s)
    (hpd : s.rs.ts.pendDeps t = []) : A2 cfg p P req (submitOnePrims cfg p s t) s := by
  by_cases hrun' : ¬ s.rs.status = .running
  · exact A2_stopped _ s hrun' h
  have hrun : s.rs.status = .running := Decidable.not_not.mp hrun'
  have h1 : RI P req (applyPrim cfg p (Prim.startTask t) s) := RI_step _ s h (fun _ => hpd)
  have hT : RT req s (applyPrim cfg p (Prim.startTask t) s) := RT_step _ s h (fun _ => hpd)
  by_cases hr1 : ¬ (applyPrim cfg p (Prim.startTask t) s).rs.status = .running
  · simp only [submitOnePrims]
    split
    · exact ⟨h, hT, A2_stopped _ _ hr1 h1⟩
    · exact ⟨h, hT, A2_stopped _ _ hr1 h1⟩
  have hr1 : (applyPrim cfg p (Prim.startTask t) s).rs.status = .running := Decidable.not_not.mp hr1
  obtain ⟨htp, hnp, hta, htr⟩ := startTask_facts' (cfg := cfg) (p := p) s t hrun hr1
  have hny : t ∉ yieldedOf (applyPrim cfg p (Prim.startTask t) s).rs.trace := by
    rw [htr]; exact fun hy => (h.yP t hy).1 htp
  simp only [submitOnePrims]
  split
  · exact ⟨h, hT, A2_cons h1 (fun _ => ⟨hnp, hta, hny⟩) (fun h2 => A2_nil h2)⟩
  · refine ⟨h, hT, ?_⟩
    show A2 cfg p P req (Prim.enqueue t :: (startProcessesPrims cfg
      (runPrims cfg p [Prim.startTask t, Prim.enqueue t] s) ++ [Prim.regFuture t])) _
    have hq : ∀ q ∈ Prim.enqueue t :: startProcessesPrims cfg
        (runPrims cfg p [Prim.startTask t, Prim.enqueue t] s),
        q.rfree = true ∧ q.touchesTS = false ∧ q.yields = false := by
      intro q hq
      simp only [List.mem_cons, startProcessesPrims, startPrims, List.mem_flatMap, List.not_mem_nil,
        or_false] at hq
      rcases hq with rfl | ⟨j, _, rfl | rfl | rfl⟩ <;> exact ⟨rfl, rfl, rfl⟩
    have a : A2 cfg p P req (Prim.enqueue t :: startProcessesPrims cfg
        (runPrims cfg p [Prim.startTask t, Prim.enqueue t] s)) (applyPrim cfg p (Prim.startTask t) s) :=
      A2_free _ _ (fun q hq' => (hq q hq').1) h1
    obtain ⟨e1, e2⟩ := launch_frame (cfg := cfg) (p := p) _ (applyPrim cfg p (Prim.startTask t) s)
      (fun q hq' => (hq q hq').2)
    have := a.append (b := [Prim.regFuture t]) (fun h3 => A2_cons h3
      (fun _ => ⟨by rw [e1]; exact hnp, by rw [e1]; exact hta, by rw [e2]; exact hny⟩) (fun h4 => A2_nil h4))
    simpa using this

theorem submitOne_members (s : IS) (t : Tid) : ∀ q ∈ submitOnePrims cfg p s t, q.isUnblock = false := by
  intro q hq
  have := members_submit (cfg := cfg) (p := p) [t] s q (by simpa [submitPrims] using hq)
  cases q <;> simp [Prim.launches] at this <;> rfl

theorem A2_submit {P : TS} {req : List Tid} : ∀ (l : List Tid) (s : IS), RI P req s →
    (∀ t ∈ l, s.rs.ts.pendDeps t = []) → A2 cfg p P req (submitPrims cfg p l s) s := by
  intro l
  induction l with
  | nil => intro s h _; exact h
  | cons t ts ih =>
    intro s h hl
    simp only [submitPrims]
    refine (A2_submitOne s t h (hl t List.mem_cons_self)).append (fun h' => ih _ h' ?_)
    intro t' ht'
    rw [runPrims_pendDeps _ _ (submitOne_members s t)]
    exact hl t' (List.mem_cons_of_mem _ ht')

theorem A2_iteration {P : TS} {req : List Tid} (c : Choice) (s : IS) (h : RI P req s) :
    A2 cfg p P req (iterationPrims cfg p req c s) s := by
  have a := A2_submit (cfg := cfg) (p := p) (readyTasks p s.rs.ts) s h
    (fun t ht => (readyTasks_no_pending_deps p s.rs.ts t ht).1)
  simp only [iterationPrims]
  split
  · exact a.append (fun h' => A2_wait c _ h')
  · exact a

/-! ## the three streams -/
theorem A2_main {P : TS} {req : List Tid} : ∀ (sched : List Choice) (s : IS), RI P req s →
    A2 cfg p P req (mainStream cfg p req sched s) s := by
  intro sched
  induction sched with
  | nil => intro s h; exact h
  | cons c cs ih =>
    intro s h
    unfold mainStream
    split
    · split
      · exact (A2_iteration c s h).append (fun h' => ih _ h')
      · exact h
    · exact h

theorem A2_cancel {P : TS} {req : List Tid} (s0 s : IS) (h : RI P req s) :
    A2 cfg p P req (cancelPrims cfg s0) s := by
  apply A2_free _ _ _ h
  intro q hq
  simp only [cancelPrims] at hq
  split at hq
  · simp only [List.mem_singleton] at hq; subst hq; rfl
  · obtain ⟨j, _, rfl⟩ := List.mem_map.mp hq; rfl

theorem A2_stop {P : TS} {req : List Tid} (s0 s : IS) (h : RI P req s) :
    A2 cfg p P req (stopPrims cfg s0) s := by
  apply A2_free _ _ _ h
  intro q hq
  simp only [stopPrims] at hq
  split at hq
  · simp at hq
  · simp only [List.mem_append, List.mem_map] at hq
    rcases hq with ⟨j, _, rfl⟩ | ⟨t, _, rfl⟩ <;> rfl

theorem A2_drain {P : TS} {req : List Tid} : ∀ (ds : List Choice) (s : IS), RI P req s →
    A2 cfg p P req (drainPrims cfg p req ds s) s := by
  intro ds
  induction ds with
  | nil => intro s h; exact h
  | cons c cs ih =>
    intro s h
    unfold drainPrims
    split
    · split
      · exact h
      · exact (A2_wait c s h).append (fun h' => ih _ h')
    · exact h

/-- the first `KeyboardInterrupt` handler, entered in ANY state with `RI` -/
theorem A2_handler {P : TS} {req : List Tid} (ds : List Choice) (s : IS) (h : RI P req s) :
    A2 cfg p P req (handlerPrims cfg p req ds s) s := by
  simp only [handlerPrims]
  exact (A2_cancel s s h).append (fun h' => A2_drain ds _ h')

/-- the second handler, entered in ANY state with `RI` -/
theorem A2_second {P : TS} {req : List Tid} (s : IS) (h : RI P req s) :
    A2 cfg p P req (secondPrims cfg p req s) s := by
  simp only [secondPrims]
  refine ((A2_cancel s s h).append (fun h' => A2_stop _ _ h')).append (fun h' => ?_)
  rw [runPrims_append]
  exact A2_wait noWait _ (by rw [← runPrims_append]; exact h')

theorem RI_init (store : Store) (fuel : Nat) (req : List Tid) :
    RI (plan cfg p store fuel) req (initIS cfg p store fuel) := by
  have hP := plan_PI cfg p store fuel
  have hA := plan_active cfg p store fuel
  exact {
    resY := fun d v hd => by simp [initIS, initRS] at hd
    resNd := by simp [initIS, initRS]
    yNd := by simp [initIS, initRS, yieldedOf]
    yP := fun t ht => by simp [initIS, initRS, yieldedOf] at ht
    futPA := fun t ht => by simp [initIS, initRS] at ht
    ddEq := rfl
    pdtY := fun d t hd => Or.inl ((hP.dual d t).mpr hd)
    pdtSub := fun d t ht => (hP.dual d t).mp ht
    actPd := by
      intro t ht
      have : t ∈ (plan cfg p store fuel).active := ht
      rw [hA] at this; simp at this
    pdA := fun x d hd => Or.inl (by
      show d ∈ (plan cfg p store fuel).pendDeps x
      rw [hP.pdEq]; exact hd)
    held := fun d v hy => by simp [initIS, initRS] at hy
    cap := fun d v _ hy => by simp [initIS, initRS] at hy
    capY := fun d v hd => by simp [initIS, initRS] at hd
    remH := Hist_nil _ }

/-! ## the states of an interrupted run -/
theorem main_A2 (store : Store) (fuel : Nat) (sched : List Choice) :
    A2 cfg p (plan cfg p store fuel) (reqTids p) (mainOf cfg p store fuel sched) (initIS cfg p store fuel) :=
  A2_main sched _ (RI_init store fuel _)

theorem stateAt_RI (store : Store) (fuel : Nat) (sched : List Choice) (k : Nat) :
    RI (plan cfg p store fuel) (reqTids p) (stateAt cfg p store fuel sched k) :=
  (main_A2 store fuel sched).always.prefix k

theorem handler_A2 (store : Store) (fuel : Nat) (sched : List Choice) (k : Nat) (ds : List Choice) :
    A2 cfg p (plan cfg p store fuel) (reqTids p)
      (handlerPrims cfg p (reqTids p) ds (stateAt cfg p store fuel sched k)) (stateAt cfg p store fuel sched k) :=
  A2_handler ds _ (stateAt_RI store fuel sched k)

theorem handlerStateAt_RI (store : Store) (fuel : Nat) (sched : List Choice) (k : Nat) (ds : List Choice) (m : Nat) :
    RI (plan cfg p store fuel) (reqTids p) (handlerStateAt cfg p store fuel sched k ds m) :=
  (handler_A2 store fuel sched k ds).always.prefix m

theorem second_A2 (store : Store) (fuel : Nat) (sched : List Choice) (k : Nat) (ds : List Choice) (m : Nat) :
    A2 cfg p (plan cfg p store fuel) (reqTids p)
      (secondPrims cfg p (reqTids p) (handlerStateAt cfg p store fuel sched k ds m))
      (handlerStateAt cfg p store fuel sched k ds m) :=
  A2_second _ (handlerStateAt_RI store fuel sched k ds m)

theorem secondStateAt_RI (store : Store) (fuel : Nat) (sched : List Choice) (k : Nat) (ds : List Choice)
    (m m2 : Nat) : RI (plan cfg p store fuel) (reqTids p) (secondStateAt cfg p store fuel sched k ds m m2) :=
  (second_A2 store fuel sched k ds m).always.prefix m2

/-- between instant `k` and instant `k + 1` of each of the three streams -/
theorem stateAt_RT (store : Store) (fuel : Nat) (sched : List Choice) (k : Nat) :
    RT (reqTids p) (stateAt cfg p store fuel sched k) (stateAt cfg p store fuel sched (k + 1)) :=
  (main_A2 store fuel sched).pair (RT_refl _) k

theorem handlerStateAt_RT (store : Store) (fuel : Nat) (sched : List Choice) (k : Nat) (ds : List Choice) (m : Nat) :
    RT (reqTids p) (handlerStateAt cfg p store fuel sched k ds m) (handlerStateAt cfg p store fuel sched k ds (m + 1)) :=
  (handler_A2 store fuel sched k ds).pair (RT_refl _) m

theorem secondStateAt_RT (store : Store) (fuel : Nat) (sched : List Choice) (k : Nat) (ds : List Choice)
    (m m2 : Nat) : RT (reqTids p) (secondStateAt cfg p store fuel sched k ds m m2)
      (secondStateAt cfg p store fuel sched k ds m (m2 + 1)) :=
  (second_A2 store fuel sched k ds m).pair (RT_refl _) m2

/-! ## readings of `RI` / `RT` used by `Props/C17.lean` -/
/-- SAFETY: only values that were yielded successfully are held, never anything for a task that was
    yielded as failed or died, and every key once -/
theorem RI.heldSound {P : TS} {req : List Tid} {s : IS} (h : RI P req s) :
    (∀ d v, (d, v) ∈ s.rs.results →
      Ev.yield d (.ok v) ∈ s.rs.trace ∧ Ev.yield d .exc ∉ s.rs.trace ∧ Ev.yield d .died ∉ s.rs.trace) ∧
    (s.rs.results.map Prod.fst).Nodup := by
  refine ⟨fun d v hd => ⟨h.resY d v hd, ?_, ?_⟩, h.resNd⟩
  · intro he; cases yield_unique _ h.yNd d _ _ (h.resY d v hd) he
  · intro he; cases yield_unique _ h.yNd d _ _ (h.resY d v hd) he

/-- VALUE, with "needed" read off the trace: some planned direct dependent has not been yielded -/
theorem RI.neededHeld {P : TS} {req : List Tid} {s : IS} (h : RI P req s) (d : Tid) (v : Val) (t : Tid)
    (hy : Ev.yield d (.ok v) ∈ s.rs.trace) (hna : d ∉ s.rs.ts.active) (hd : d ∈ P.ddeps t)
    (hny : ∀ o, Ev.yield t o ∉ s.rs.trace) : (d, v) ∈ s.rs.results := by
  apply h.held d v hy hna
  rcases h.pdtY d t hd with h1 | h1
  · intro hnil; rw [hnil] at h1; simp at h1
  · obtain ⟨o, ho⟩ := (mem_yieldedOf _ _).mp h1
    exact absurd ho (hny o)

theorem RI.neededSpec {P : TS} {req : List Tid} {s : IS} (h : RI P req s) (d t : Tid) :
    (t ∈ s.rs.ts.pendDependents d → d ∈ P.ddeps t) ∧
    (d ∈ P.ddeps t → (∀ o, Ev.yield t o ∉ s.rs.trace) → t ∈ s.rs.ts.pendDependents d) := by
  refine ⟨h.pdtSub d t, fun hd hny => ?_⟩
  rcases h.pdtY d t hd with h1 | h1
  · exact h1
  · obtain ⟨o, ho⟩ := (mem_yieldedOf _ _).mp h1
    exact absurd ho (hny o)

/-- what leaves the map in one step was needed by nobody -/
theorem RI.released {P : TS} {req : List Tid} {s s' : IS} (h : RI P req s) (hT : RT req s s') (d : Tid) (v : Val)
    (hd : (d, v) ∈ s.rs.results) (hnot : (d, v) ∉ s'.rs.results) :
    s.rs.ts.pendDependents d = [] ∧ ∀ t, d ∈ P.ddeps t → ∃ o, Ev.yield t o ∈ s.rs.trace := by
  obtain ⟨h1, _⟩ := hT d v hd hnot
  refine ⟨h1, fun t ht => ?_⟩
  rcases h.pdtY d t ht with h2 | h2
  · rw [h1] at h2; simp at h2
  · exact (mem_yieldedOf _ _).mp h2

end Lt
