import LabtechModel.Proofs.ParamsSer
import LabtechModel.Model.Generated
/-! Cache keys, `cached_tasks`, pickling. -/
namespace Lt.Params

/-! ### the shape of a key -/

theorem cacheKey_toList (sha1 : String → String) (fmt : CacheFmt) (h : fmt.isNull = false) (t : Task) :
    (cacheKey sha1 fmt t).toList
      = fmt.kprefix.toList ++ (t.cls.qualname.toList ++ ('_' :: '_' :: (sha1 (cacheKeyPre t)).toList)) := by
  simp [cacheKey, h]

theorem cacheKey_eq_iff (sha1 : String → String) (hlen : ∀ x, (sha1 x).toList.length = 40)
    (fmt : CacheFmt) (h : fmt.isNull = false) (t u : Task) :
    cacheKey sha1 fmt t = cacheKey sha1 fmt u
      ↔ t.cls.qualname = u.cls.qualname ∧ sha1 (cacheKeyPre t) = sha1 (cacheKeyPre u) := by
  constructor
  · intro e
    have e' := congrArg String.toList e
    rw [cacheKey_toList sha1 fmt h, cacheKey_toList sha1 fmt h] at e'
    have e2 := List.append_cancel_left e'
    have := List.append_inj' e2 (by simp [hlen])
    refine ⟨String.toList_inj.mp this.1, ?_⟩
    have h3 := this.2
    simp only [List.cons.injEq, true_and] at h3
    exact String.toList_inj.mp h3
  · rintro ⟨hq, hs⟩
    simp [cacheKey, hq, hs]

/-! ### characters of a key -/

/-- characters of a Python identifier (ASCII letters, digits, underscore, or non-ASCII) -/
def keyCharOk (c : Char) : Bool :=
  decide ((48 ≤ c.toNat ∧ c.toNat ≤ 57) ∨ (65 ≤ c.toNat ∧ c.toNat ≤ 90) ∨ (97 ≤ c.toNat ∧ c.toNat ≤ 122)
    ∨ c.toNat = 95 ∨ 128 ≤ c.toNat)

/-- lower-case hexadecimal digit, what `hexdigest()` prints -/
def hexChar (c : Char) : Bool :=
  decide ((48 ≤ c.toNat ∧ c.toNat ≤ 57) ∨ (97 ≤ c.toNat ∧ c.toNat ≤ 102))

theorem hexChar_ok (c : Char) (h : hexChar c = true) : keyCharOk c = true := by
  simp only [hexChar, keyCharOk, decide_eq_true_eq] at *
  omega

theorem keyCharOk_allowed (c : Char) (h : keyCharOk c = true) : c ∉ Lt.Generated.disallowedKeyChars := by
  have hall : Lt.Generated.disallowedKeyChars.all (fun d => !keyCharOk d) = true := by decide
  intro hm
  have := List.all_eq_true.mp hall c hm
  simp [h] at this

/-! ### `cached_tasks` -/

/-- one `save`: the task, the cache format that wrote it, the stored result meta -/
structure Saved where
  t : Task
  fmt : CacheFmt
  rm : String

def Saved.entry (sha1 : String → String) (s : Saved) : Entry := saveEntry sha1 s.fmt s.t s.rm

/-- the type's cache (as configured now) is the format that wrote the entry -/
def sameFormat {D : Type} (env : Env D) (s : Saved) : Bool :=
  !(env.cacheOf s.t.cls).isNull && (env.cacheOf s.t.cls).name == s.fmt.name

/-- the entry has to be returned for this request -/
def wanted {D : Type} (env : Env D) (types : List ClassRef) (s : Saved) : Bool :=
  types.contains s.t.cls && sameFormat env s

/-- the task object that has to be returned for it -/
def expected {D : Type} (env : Env D) (s : Saved) : TaskObj D :=
  { mkObj env s.t with resultMeta := some s.rm }

theorem isPrefix_key (sha1 : String → String) (fmt : CacheFmt) (h : fmt.isNull = false) (t : Task) :
    isPrefix (fmt.kprefix ++ t.cls.qualname) (cacheKey sha1 fmt t) = true := by
  simp only [isPrefix, cacheKey_toList sha1 fmt h, String.toList_append, List.isPrefixOf_iff_prefix]
  rw [← List.append_assoc]
  exact List.prefix_append _ _

section
variable {D : Type} (env : Env D) (s : Saved)
  (hwf : wfTask s.t = true) (hty : TypedT env.reg s.t) (hnn : s.fmt.isNull = false)
  (hfmt : ∀ c, (env.cacheOf c).isNull = false → (env.cacheOf c).name = s.fmt.name → env.cacheOf c = s.fmt)
include hwf hty

theorem loadTask_other (ty : ClassRef) (hne : ty ≠ s.t.cls) :
    loadTask env ty (s.entry env.sha1) = .notFound := by
  simp only [loadTask, Saved.entry, saveEntry, deTask_serTask' env.reg s.t hwf hty]
  have : ¬ (s.t.cls = ty) := fun h => hne h.symm
  simp only [this, if_false]
  split
  · rfl
  · split
    · rfl
    · split <;> rfl

include hnn hfmt
theorem loadTask_own :
    loadTask env s.t.cls (s.entry env.sha1) = if sameFormat env s then .found (expected env s) else .notFound := by
  simp only [loadTask, Saved.entry, saveEntry, deTask_serTask' env.reg s.t hwf hty, sameFormat, expected]
  by_cases hnull' : (env.cacheOf s.t.cls).isNull = true
  · simp [hnull']
  · have hnull : (env.cacheOf s.t.cls).isNull = false := by simpa using hnull'
    by_cases hname : (env.cacheOf s.t.cls).name = s.fmt.name
    · have hsame := hfmt _ hnull hname
      have hp := isPrefix_key env.sha1 s.fmt hnn s.t
      simp [hsame, hp, hnn]
    · have hne : (s.fmt.name != (env.cacheOf s.t.cls).name) = true := by
        simp only [bne_iff_ne, ne_eq]
        exact fun h => hname h.symm
      simp only [hnull, hne]
      split <;> simp [hname]

theorem tryTypes_entry : ∀ (types : List ClassRef),
    tryTypes env (s.entry env.sha1) types = if wanted env types s then .found (expected env s) else .notFound
  | [] => by simp [tryTypes, wanted]
  | ty :: rest => by
    have ih := tryTypes_entry rest
    by_cases hty' : ty = s.t.cls
    · subst hty'
      simp only [tryTypes, loadTask_own env s hwf hty hnn hfmt]
      cases hs : sameFormat env s with
      | true => simp [wanted, hs]
      | false => simp [ih, wanted, hs]
    · simp only [tryTypes, loadTask_other env s hwf hty ty hty', ih]
      have : ¬ (s.t.cls = ty) := fun h => hty' h.symm
      simp [wanted, this]
end

theorem cachedTasks_saved {D : Type} (env : Env D) (types : List ClassRef) : ∀ (saved : List Saved),
    (∀ s ∈ saved, wfTask s.t = true ∧ TypedT env.reg s.t) →
    (∀ s ∈ saved, s.fmt.isNull = false) →
    (∀ s ∈ saved, ∀ c, (env.cacheOf c).isNull = false → (env.cacheOf c).name = s.fmt.name → env.cacheOf c = s.fmt) →
    cachedTasks env types (saved.map (Saved.entry env.sha1))
      = .ok ((saved.filter (wanted env types)).map (expected env))
  | [], _, _, _ => by simp [cachedTasks]
  | s :: rest, hwf, hnn, hfmt => by
    have ih := cachedTasks_saved env types rest (fun x hx => hwf x (List.mem_cons_of_mem _ hx))
      (fun x hx => hnn x (List.mem_cons_of_mem _ hx)) (fun x hx => hfmt x (List.mem_cons_of_mem _ hx))
    have h1 := hwf s (List.mem_cons_self ..)
    have ht := tryTypes_entry env s h1.1 h1.2 (hnn s (List.mem_cons_self ..)) (hfmt s (List.mem_cons_self ..)) types
    simp only [List.map_cons, cachedTasks, ht]
    cases hw : wanted env types s with
    | true => simp [ih, List.filter_cons, hw]
    | false => simp [ih, List.filter_cons, hw]

/-- a returned object carries the key its entry is stored under -/
theorem expected_key {D : Type} (env : Env D) (s : Saved)
    (hfmt : ∀ c, (env.cacheOf c).isNull = false → (env.cacheOf c).name = s.fmt.name → env.cacheOf c = s.fmt)
    (h : sameFormat env s = true) : (expected env s).cacheKey = (s.entry env.sha1).key := by
  simp only [sameFormat, Bool.and_eq_true, Bool.not_eq_true', beq_iff_eq] at h
  simp [expected, mkObj, Saved.entry, saveEntry, hfmt _ h.1 h.2]

/-! ### pickling -/

theorem renormFields_id : ∀ (fs : List (String × Value)), renormFields fs = .ok fs
  | [] => rfl
  | (k, v) :: rest => by simp [renormFields, normalize_embed v, renormFields_id rest]

theorem pickleRoundTrip_eq {D : Type} (env : Env D) (o : TaskObj D) :
    pickleRoundTrip env o = .ok { value := o.value, cacheKey := o.cacheKey, resultsMap := none, context := none,
                                  resultMeta := none, derived := env.postInit o.value } := by
  cases o with
  | mk value cacheKey resultsMap context resultMeta derived =>
    cases value with
    | mk c fs => simp [pickleRoundTrip, getstate, setstate, renormFields_id, Task.cls, Task.fields]

end Lt.Params
