import LabtechModel.Proofs.IntrLimit
/-!
# M10: the global limit `max_workers` holds after EVERY primitive

`WOK`: at most `max_workers` live worker processes (`alive`) and at most `max_workers` entries in
the executor's running map (`running` + `zombies` = `_running_id_to_future_and_process`).
`_start_processes` computes `start_count` from the running map BEFORE it starts anything; between
two of its loop rounds every live worker is an entry of the running map (`WI`: `alive` is a sublist
of the running map's keys), so inside a round (`process.start()` done, entry not yet written) the
number of live workers is at most `len(running map) + 1 ≤ max_workers`.
The interrupt handlers start nothing: both counts only fall there.
-/
namespace Lt

variable {cfg : Config} {p : Problem}

/-- between two bookkeeping blocks of the main stream -/
structure WI (cfg : Config) (s : IS) : Prop where
  sub : s.alive.Sublist (s.rs.running.map Job.tid)
  cap : s.rs.running.length + s.zombies.length ≤ cfg.maxWorkers

/-- what holds after every primitive of every stream -/
def WOK (cfg : Config) (s : IS) : Prop :=
  s.alive.length ≤ cfg.maxWorkers ∧ s.rs.running.length + s.zombies.length ≤ cfg.maxWorkers

theorem WI.ok {s : IS} (h : WI cfg s) : WOK cfg s := by
  have h1 := h.sub.length_le
  have h2 := h.cap
  simp only [List.length_map] at h1
  exact ⟨by omega, h2⟩

/-- primitives that touch the live workers, the running map or the zombies -/
def Prim.touchesW : Prim → Bool
  | .consumeResults _ | .markDead _ | .procStart _ | .regRunning _ | .stopOne _ => true
  | _ => false

theorem applyPrim_w (q : Prim) (s : IS) (h : q.touchesW = false) :
    (applyPrim cfg p q s).alive = s.alive ∧ (applyPrim cfg p q s).rs.running = s.rs.running ∧
    (applyPrim cfg p q s).zombies = s.zombies := by
  unfold applyPrim
  split
  · cases q <;> simp [Prim.touchesW] at h <;> simp only [stepPrim, keyErr] <;> (repeat' split) <;> simp
  · simp

/-! ## `consumeResults` -/
theorem selN_length_add {α} (f : Nat → Bool) : ∀ (l : List α) (n : Nat),
    (selN f n l).length + (selN (fun i => !f i) n l).length = l.length := by
  intro l
  induction l with
  | nil => intro n; simp [selN, enumFrom]
  | cons x xs ih =>
    intro n
    have := ih (n + 1)
    rw [selN_cons, selN_cons]
    cases f n <;> simp <;> omega

theorem filter_notin_sel_sublist (f : Nat → Bool) (F : List Tid) : ∀ (l : List Job) (n : Nat),
    (∀ j ∈ selN f n l, j.tid ∈ F) →
    ((l.map Job.tid).filter (fun t => t ∉ F)).Sublist ((selN (fun i => !f i) n l).map Job.tid) := by
  intro l
  induction l with
  | nil => intro n _; simp [selN, enumFrom]
  | cons x xs ih =>
    intro n h
    rw [selN_cons] at h ⊢
    cases hf : f n with
    | true =>
      simp only [hf, if_true, List.mem_cons, forall_eq_or_imp] at h
      simp only [Bool.not_true, Bool.false_eq_true, if_false, List.map_cons, List.filter_cons, h.1,
        not_true_eq_false, decide_false]
      exact ih (n + 1) h.2
    | false =>
      simp only [hf, Bool.false_eq_true, if_false] at h
      simp only [Bool.not_false, if_true, List.map_cons, List.filter_cons]
      split
      · exact (ih (n + 1) h).cons_cons _
      · exact (ih (n + 1) h).cons _

theorem consume_cap (c : Choice) (s : IS) (hrun : s.rs.status = .running) :
    (applyPrim cfg p (Prim.consumeResults c) s).rs.running.length +
      (applyPrim cfg p (Prim.consumeResults c) s).zombies.length ≤ s.rs.running.length + s.zombies.length := by
  rw [applyPrim_running _ _ hrun]
  simp only [stepPrim, List.length_append, List.length_map]
  have h1 := selN_length_add c.finish s.rs.running 0
  have h2 := List.length_filter_le (fun j => p.dies j.tid) (finOf c s.rs.running)
  rw [finOf_eq] at h2
  rw [stayOf_eq, finOf_eq]
  omega

theorem WI_consume (c : Choice) (s : IS) (h : WI cfg s) : WI cfg (applyPrim cfg p (Prim.consumeResults c) s) := by
  by_cases hrun : s.rs.status = .running
  · refine ⟨?_, Nat.le_trans (consume_cap c s hrun) h.cap⟩
    rw [applyPrim_running _ _ hrun]
    simp only [stepPrim]
    have h1 : (s.alive.filter (fun t => t ∉ (finOf c s.rs.running).map Job.tid)).Sublist
        ((s.rs.running.map Job.tid).filter (fun t => t ∉ (finOf c s.rs.running).map Job.tid)) :=
      h.sub.filter _
    have h2 := filter_notin_sel_sublist c.finish ((finOf c s.rs.running).map Job.tid) s.rs.running 0
      (fun j hj => List.mem_map.mpr ⟨j, hj, rfl⟩)
    exact h1.trans h2
  · rw [applyPrim_stopped _ _ hrun]; exact h

theorem markDead_w (t : Tid) (s : IS) :
    (applyPrim cfg p (Prim.markDead t) s).alive = s.alive ∧
    (applyPrim cfg p (Prim.markDead t) s).rs.running = s.rs.running ∧
    (applyPrim cfg p (Prim.markDead t) s).zombies.length ≤ s.zombies.length := by
  by_cases hrun : s.rs.status = .running
  · rw [applyPrim_running _ _ hrun]
    simp only [stepPrim]
    split
    · exact ⟨rfl, rfl, (List.erase_sublist).length_le⟩
    · exact ⟨rfl, rfl, Nat.le_refl _⟩
  · rw [applyPrim_stopped _ _ hrun]; exact ⟨rfl, rfl, Nat.le_refl _⟩

/-- primitives after which `WI` holds again if it held before -/
def Prim.wSafe : Prim → Bool
  | .procStart _ | .regRunning _ | .stopOne _ => false
  | _ => true

theorem wSafe_of_noexec {q : Prim} (h : q.touchesExec = false) : q.wSafe = true := by
  cases q <;> simp [Prim.touchesExec] at h <;> rfl

theorem WI_step (q : Prim) (s : IS) (hq : q.wSafe = true) (h : WI cfg s) : WI cfg (applyPrim cfg p q s) := by
  by_cases hw : q.touchesW = false
  · obtain ⟨e1, e2, e3⟩ := applyPrim_w (cfg := cfg) (p := p) q s hw
    exact ⟨by rw [e1, e2]; exact h.sub, by rw [e2, e3]; exact h.cap⟩
  · cases q <;> simp [Prim.touchesW] at hw <;> simp [Prim.wSafe] at hq
    · exact WI_consume _ s h
    · next t =>
      obtain ⟨e1, e2, e3⟩ := markDead_w (cfg := cfg) (p := p) t s
      exact ⟨by rw [e1, e2]; exact h.sub, by rw [e2]; have := h.cap; omega⟩

theorem always_WI_safe : ∀ (ps : List Prim) (s : IS), (∀ q ∈ ps, q.wSafe = true) → WI cfg s →
    Always cfg p (WI cfg) ps s := by
  intro ps
  induction ps with
  | nil => intro s _ h; exact h
  | cons q ps ih =>
    intro s hq h
    exact ⟨h, ih _ (fun q' hq' => hq q' (List.mem_cons_of_mem _ hq')) (WI_step q s (hq q List.mem_cons_self) h)⟩

/-! ## `_start_processes` -/
theorem always_W_startPrims : ∀ (go stay : List Job) (s : IS), s.rs.status = .running →
    s.rs.queued = go ++ stay → s.alive.Sublist (s.rs.running.map Job.tid) →
    s.rs.running.length + s.zombies.length + go.length ≤ cfg.maxWorkers →
    Always cfg p (WOK cfg) (startPrims go) s ∧ WI cfg (runPrims cfg p (startPrims go) s) := by
  intro go
  induction go with
  | nil =>
    intro stay s _ _ hsub hcap
    have hw : WI cfg s := ⟨hsub, by simpa using hcap⟩
    exact ⟨hw.ok, hw⟩
  | cons j go ih =>
    intro stay s hrun hq hsub hcap
    have hfind : s.rs.queued.find? (hasTid j.tid) = some j := by rw [hq]; simp [hasTid]
    have herase : s.rs.queued.eraseP (hasTid j.tid) = go ++ stay := by rw [hq]; simp [hasTid]
    have hlen := hsub.length_le
    simp only [List.length_map, List.length_cons] at hlen hcap
    -- the three states of one round
    obtain ⟨s1, hs1⟩ : ∃ s1, s1 = applyPrim cfg p (Prim.procStart j.tid) s := ⟨_, rfl⟩
    have a1 : s1.alive = s.alive ++ [j.tid] := by rw [hs1, applyPrim_running _ _ hrun]; rfl
    have r1 : s1.rs.running = s.rs.running := by rw [hs1, applyPrim_running _ _ hrun]; rfl
    have z1 : s1.zombies = s.zombies := by rw [hs1, applyPrim_running _ _ hrun]; rfl
    have q1 : s1.rs.queued = s.rs.queued := by rw [hs1, applyPrim_running _ _ hrun]; rfl
    have st1 : s1.rs.status = .running := by rw [hs1, applyPrim_status _ _ rfl]; exact hrun
    obtain ⟨s2, hs2⟩ : ∃ s2, s2 = applyPrim cfg p (Prim.regRunning j.tid) s1 := ⟨_, rfl⟩
    have a2 : s2.alive = s1.alive := by
      rw [hs2, applyPrim_running _ _ st1]; simp only [stepPrim, q1, hfind]
    have r2 : s2.rs.running = s1.rs.running ++ [forkSnap cfg s1.rs.results j] := by
      rw [hs2, applyPrim_running _ _ st1]; simp only [stepPrim, q1, hfind]
    have z2 : s2.zombies = s1.zombies := by
      rw [hs2, applyPrim_running _ _ st1]; simp only [stepPrim, q1, hfind]
    have q2 : s2.rs.queued = s1.rs.queued := by rw [hs2, applyPrim_queued _ _ rfl]
    have st2 : s2.rs.status = .running := by rw [hs2, applyPrim_status _ _ rfl]; exact st1
    obtain ⟨s3, hs3⟩ : ∃ s3, s3 = applyPrim cfg p (Prim.unregPending j.tid) s2 := ⟨_, rfl⟩
    obtain ⟨a3, r3, z3⟩ := applyPrim_w (cfg := cfg) (p := p) (Prim.unregPending j.tid) s2 rfl
    rw [← hs3] at a3 r3 z3
    have q3 : s3.rs.queued = go ++ stay := by
      rw [hs3, applyPrim_running _ _ st2]; simp only [stepPrim, q2, q1, herase]
    have st3 : s3.rs.status = .running := by rw [hs3, applyPrim_status _ _ rfl]; exact st2
    have hsub3 : s3.alive.Sublist (s3.rs.running.map Job.tid) := by
      rw [a3, r3, a2, r2, a1, r1, List.map_append, List.map_cons, List.map_nil, forkSnap_tid]
      exact hsub.append (List.Sublist.refl _)
    have hcap3 : s3.rs.running.length + s3.zombies.length + go.length ≤ cfg.maxWorkers := by
      rw [r3, z3, r2, z2, r1, z1, List.length_append, List.length_singleton]; omega
    obtain ⟨i1, i2⟩ := ih stay s3 st3 q3 hsub3 hcap3
    rw [startPrims_cons, always_append, runPrims_append]
    have e3 : runPrims cfg p [Prim.procStart j.tid, Prim.regRunning j.tid, Prim.unregPending j.tid] s = s3 := by
      rw [hs3, hs2, hs1]; rfl
    rw [e3]
    refine ⟨⟨?_, i1⟩, i2⟩
    refine ⟨⟨by omega, by omega⟩, ?_, ?_, ?_⟩
    · rw [← hs1]
      exact ⟨by rw [a1, List.length_append, List.length_singleton]; omega, by rw [r1, z1]; omega⟩
    · rw [← hs1, ← hs2]
      exact ⟨by rw [a2, a1, List.length_append, List.length_singleton]; omega,
        by rw [r2, z2, r1, z1, List.length_append, List.length_singleton]; omega⟩
    · rw [← hs1, ← hs2, ← hs3]
      exact i1.head

/-- `_start_processes` from a state with `WI`, whatever its status -/
theorem always_W_startProcesses (s : IS) (h : WI cfg s) :
    Always cfg p (WOK cfg) (startProcessesPrims cfg s) s ∧
    WI cfg (runPrims cfg p (startProcessesPrims cfg s) s) := by
  by_cases hrun : s.rs.status = .running
  · simp only [startProcessesPrims]
    have hlen := takeN_length_le (cfg.maxWorkers - (s.rs.running.length + s.zombies.length)) s.rs.queued
    have hcap := h.cap
    exact always_W_startPrims _ (takeN (cfg.maxWorkers - (s.rs.running.length + s.zombies.length)) s.rs.queued).2
      s hrun (takeN_append _ _).symm h.sub (by omega)
  · rw [runPrims_stopped _ _ hrun]
    exact ⟨always_stopped _ s hrun h.ok, h⟩

/-! ## the submit phase -/
theorem always_W_submitOne (s : IS) (t : Tid) (h : WI cfg s) :
    Always cfg p (WOK cfg) (submitOnePrims cfg p s t) s ∧
    WI cfg (runPrims cfg p (submitOnePrims cfg p s t) s) := by
  simp only [submitOnePrims]
  split
  · have a := always_WI_safe (cfg := cfg) (p := p) [Prim.startTask t, Prim.serialAppend t] s
      (fun q hq => by
        simp only [List.mem_cons, List.not_mem_nil, or_false] at hq
        rcases hq with rfl | rfl <;> rfl) h
    exact ⟨a.mono (fun _ hs => hs.ok), a.last⟩
  · have a := always_WI_safe (cfg := cfg) (p := p) [Prim.startTask t, Prim.enqueue t] s
      (fun q hq => by
        simp only [List.mem_cons, List.not_mem_nil, or_false] at hq
        rcases hq with rfl | rfl <;> rfl) h
    obtain ⟨b1, b2⟩ := always_W_startProcesses (cfg := cfg) (p := p) _ a.last
    have c := WI_step (cfg := cfg) (p := p) (Prim.regFuture t) _ rfl b2
    rw [always_append, always_append, runPrims_append, runPrims_append]
    exact ⟨⟨⟨a.mono (fun _ hs => hs.ok), b1⟩, b2.ok, c.ok⟩, c⟩

theorem always_W_submit : ∀ (l : List Tid) (s : IS), WI cfg s →
    Always cfg p (WOK cfg) (submitPrims cfg p l s) s ∧ WI cfg (runPrims cfg p (submitPrims cfg p l s) s) := by
  intro l
  induction l with
  | nil => intro s h; exact ⟨h.ok, h⟩
  | cons t ts ih =>
    intro s h
    obtain ⟨a1, a2⟩ := always_W_submitOne (cfg := cfg) (p := p) s t h
    obtain ⟨i1, i2⟩ := ih _ a2
    simp only [submitPrims, always_append, runPrims_append]
    exact ⟨⟨a1, i1⟩, i2⟩

/-! ## the wait phase -/
theorem yield_wSafe (req : List Tid) (ts : TS) (t : Tid) (o : Outcome) :
    ∀ q ∈ yieldPrims cfg req ts t o, q.wSafe = true :=
  fun q hq => wSafe_of_noexec (yieldPrims_noexec req ts t o q hq)

theorem done_wSafe (req : List Tid) : ∀ (cands : List Tid) (s : IS),
    ∀ q ∈ donePrims cfg p req cands s, q.wSafe = true := by
  intro cands
  induction cands with
  | nil => intro s q hq; simp [donePrims] at hq
  | cons t rest ih =>
    intro s q hq
    unfold donePrims at hq
    split at hq
    · simp only [List.mem_append] at hq
      rcases hq with hq | hq
      · simp only [doneOnePrims] at hq
        split at hq
        · simp only [List.mem_singleton] at hq; subst hq; rfl
        · split at hq
          · simp only [List.mem_cons] at hq
            rcases hq with rfl | hq
            · rfl
            · exact yield_wSafe req _ t _ q hq
          · simp at hq
      · exact ih _ q hq
    · simp at hq

theorem W_wait_aux (c : Choice) (s : IS) (x y z : List Prim) (hx : ∀ q ∈ x, q.wSafe = true)
    (hy : y = startProcessesPrims cfg (runPrims cfg p (Prim.consumeResults c :: x) s))
    (hz : ∀ q ∈ z, q.wSafe = true) (h : WI cfg s) :
    Always cfg p (WOK cfg) (Prim.consumeResults c :: x ++ y ++ z) s ∧
    WI cfg (runPrims cfg p (Prim.consumeResults c :: x ++ y ++ z) s) := by
  have a := always_WI_safe (cfg := cfg) (p := p) (Prim.consumeResults c :: x) s
    (fun q hq => by
      rcases List.mem_cons.mp hq with rfl | hq
      · rfl
      · exact hx q hq) h
  obtain ⟨b1, b2⟩ := always_W_startProcesses (cfg := cfg) (p := p) _ a.last
  rw [← hy] at b1 b2
  have d := always_WI_safe (cfg := cfg) (p := p) z _ hz b2
  have hsplit : Prim.consumeResults c :: x ++ y ++ z = ((Prim.consumeResults c :: x) ++ y) ++ z := by simp
  have hfin : runPrims cfg p (((Prim.consumeResults c :: x) ++ y) ++ z) s =
      runPrims cfg p z (runPrims cfg p y (runPrims cfg p (Prim.consumeResults c :: x) s)) := by
    rw [runPrims_append, runPrims_append]
  rw [hsplit, hfin, always_append, always_append, runPrims_append]
  exact ⟨⟨⟨a.mono (fun _ hs => hs.ok), b1⟩, d.mono (fun _ hs => hs.ok)⟩, d.last⟩


theorem always_W_wait (req : List Tid) (c : Choice) (s : IS) (h : WI cfg s) :
    Always cfg p (WOK cfg) (waitPrims cfg p req c s) s ∧
    WI cfg (runPrims cfg p (waitPrims cfg p req c s) s) := by
  simp only [waitPrims]
  split
  · have hs : ∀ ps, (∀ q ∈ ps, q.wSafe = true) →
        Always cfg p (WOK cfg) ps s ∧ WI cfg (runPrims cfg p ps s) := fun ps hp =>
      have a := always_WI_safe (cfg := cfg) (p := p) ps s hp h
      ⟨a.mono (fun _ hs => hs.ok), a.last⟩
    split
    · exact hs _ (fun q hq => by simp only [List.mem_singleton] at hq; subst hq; rfl)
    · apply hs
      intro q hq
      simp only [List.mem_append, List.mem_cons, List.not_mem_nil, or_false] at hq
      rcases hq with ((rfl | rfl | rfl | rfl) | rfl) | hq
      · rfl
      · rfl
      · rfl
      · rfl
      · rfl
      · exact yield_wSafe req _ _ _ q hq
  · have hx : ∀ q ∈ deadPrims (runPrims cfg p [Prim.consumeResults c] s), q.wSafe = true := by
      intro q hq
      simp only [deadPrims, List.mem_map] at hq
      obtain ⟨t, _, rfl⟩ := hq
      rfl
    exact W_wait_aux c s _ _ _ hx rfl (done_wSafe req _ _) h

/-! ## the main stream -/
theorem always_W_iteration (req : List Tid) (c : Choice) (s : IS) (h : WI cfg s) :
    Always cfg p (WOK cfg) (iterationPrims cfg p req c s) s ∧
    WI cfg (runPrims cfg p (iterationPrims cfg p req c s) s) := by
  obtain ⟨a1, a2⟩ := always_W_submit (cfg := cfg) (p := p) (readyTasks p s.rs.ts) s h
  simp only [iterationPrims]
  split
  · obtain ⟨w1, w2⟩ := always_W_wait (cfg := cfg) (p := p) req c _ a2
    rw [always_append, runPrims_append]
    exact ⟨⟨a1, w1⟩, w2⟩
  · exact ⟨a1, a2⟩

theorem always_W_main (req : List Tid) : ∀ (sched : List Choice) (s : IS), WI cfg s →
    Always cfg p (WOK cfg) (mainStream cfg p req sched s) s := by
  intro sched
  induction sched with
  | nil => intro s h; exact h.ok
  | cons c cs ih =>
    intro s h
    unfold mainStream
    split
    · split
      · obtain ⟨a1, a2⟩ := always_W_iteration (cfg := cfg) (p := p) req c s h
        rw [always_append]
        exact ⟨a1, ih _ a2⟩
      · exact h.ok
    · exact h.ok

theorem WI_init (store : Store) (fuel : Nat) : WI cfg (initIS cfg p store fuel) :=
  ⟨by simp [initIS, initRS], by simp [initIS, initRS]⟩

/-! ## the handlers: nothing is launched, both counts only fall -/
theorem w_step_nolaunch (q : Prim) (s : IS) (hq : q.launches = false) :
    (applyPrim cfg p q s).alive.length ≤ s.alive.length ∧
    (applyPrim cfg p q s).rs.running.length + (applyPrim cfg p q s).zombies.length
      ≤ s.rs.running.length + s.zombies.length := by
  by_cases hw : q.touchesW = false
  · obtain ⟨e1, e2, e3⟩ := applyPrim_w (cfg := cfg) (p := p) q s hw
    rw [e1, e2, e3]; exact ⟨Nat.le_refl _, Nat.le_refl _⟩
  · by_cases hrun : s.rs.status = .running
    · cases q <;> simp [Prim.touchesW] at hw <;> simp [Prim.launches] at hq
      · next c =>
        refine ⟨?_, consume_cap c s hrun⟩
        rw [applyPrim_running _ _ hrun]
        exact List.length_filter_le _ _
      · next t =>
        obtain ⟨e1, e2, e3⟩ := markDead_w (cfg := cfg) (p := p) t s
        rw [e1, e2]; exact ⟨Nat.le_refl _, by omega⟩
      · next t =>
        rw [applyPrim_running _ _ hrun]
        simp only [stepPrim]
        have h1 : (s.rs.running.eraseP (hasTid t)).length ≤ s.rs.running.length :=
          (List.eraseP_sublist).length_le
        have h2 := List.length_filter_le (fun x => decide (x ≠ t)) s.zombies
        refine ⟨?_, by omega⟩
        split
        · exact List.length_filter_le _ _
        · exact Nat.le_refl _
    · rw [applyPrim_stopped _ _ hrun]; exact ⟨Nat.le_refl _, Nat.le_refl _⟩

theorem always_WOK_nolaunch : ∀ (ps : List Prim) (s : IS), (∀ q ∈ ps, q.launches = false) → WOK cfg s →
    Always cfg p (WOK cfg) ps s := by
  intro ps
  induction ps with
  | nil => intro s _ h; exact h
  | cons q ps ih =>
    intro s hq h
    obtain ⟨e1, e2⟩ := w_step_nolaunch (cfg := cfg) (p := p) q s (hq q List.mem_cons_self)
    exact ⟨h, ih _ (fun q' hq' => hq q' (List.mem_cons_of_mem _ hq'))
      ⟨Nat.le_trans e1 h.1, Nat.le_trans e2 h.2⟩⟩

theorem always_W_handler (req : List Tid) (ds : List Choice) (s : IS) (h : WOK cfg s) :
    Always cfg p (WOK cfg) (handlerPrims cfg p req ds s) s :=
  always_WOK_nolaunch _ s (fun q hq => (members_handler req ds s q hq).1) h

theorem always_W_second (req : List Tid) (s : IS) (h : WOK cfg s) :
    Always cfg p (WOK cfg) (secondPrims cfg p req s) s := by
  by_cases hrun : s.rs.status = .running
  · exact always_WOK_nolaunch _ s (fun q hq => (members_second req s hrun q hq).1) h
  · exact always_stopped _ s hrun h

/-! ## the serial runner: no worker process, nothing in a running map, after every primitive -/
theorem idleSafe_of_nolaunch {q : Prim} (h : q.launches = false) : q.idleSafe = true := by
  cases q <;> simp [Prim.launches] at h <;> rfl

theorem always_Idle : ∀ (ps : List Prim) (s : IS), (∀ q ∈ ps, q.idleSafe = true) → Idle s →
    Always cfg p Idle ps s := by
  intro ps
  induction ps with
  | nil => intro s _ h; exact h
  | cons q ps ih =>
    intro s hq h
    exact ⟨h, ih _ (fun q' hq' => hq q' (List.mem_cons_of_mem _ hq')) (Idle_step q s (hq q List.mem_cons_self) h)⟩

theorem always_Idle_main (hb : cfg.backend = .serial) (req : List Tid) (sched : List Choice) (s : IS)
    (h : Idle s) : Always cfg p Idle (mainStream cfg p req sched s) s :=
  always_Idle _ s (members_main_serial hb req sched s) h

theorem always_Idle_handler (req : List Tid) (ds : List Choice) (s : IS) (h : Idle s) :
    Always cfg p Idle (handlerPrims cfg p req ds s) s :=
  always_Idle _ s (fun q hq => idleSafe_of_nolaunch (members_handler req ds s q hq).1) h

theorem always_Idle_second (req : List Tid) (s : IS) (h : Idle s) :
    Always cfg p Idle (secondPrims cfg p req s) s := by
  by_cases hrun : s.rs.status = .running
  · exact always_Idle _ s (fun q hq => idleSafe_of_nolaunch (members_second req s hrun q hq).1) h
  · exact always_stopped _ s hrun h

end Lt
