import LabtechModel.Proofs.IntrCover
/-!
# M10: the drain loop of the first handler ends under a fair drain schedule

One drain round (`process_completed_tasks()` with nothing queued) pops every future that is
cancelled, holds an outcome or belongs to a dead process; what stays tracked is in the running map.
A fair round makes at least the first running worker report, so the running map shrinks; after at
most `len(running) + 1` fair rounds `future_to_task` is empty (or an exception propagates).
-/
namespace Lt

variable {cfg : Config} {p : Problem}

/-- every drain round's choice makes at least the first running worker report (`Fair` for the
    handler's `while runner.pending_task_count() > 0` loop) -/
def FairDrain (ds : List Choice) : Prop := ∀ c ∈ ds, c.finish 0 = true

theorem stayOf_length_lt (c : Choice) (hc : c.finish 0 = true) (l : List Job) (hl : l ≠ []) :
    (stayOf c l).length < l.length := by
  cases l with
  | nil => exact absurd rfl hl
  | cons x xs =>
    rw [stayOf_eq, selN_cons]
    simp only [hc, Bool.not_true, Bool.false_eq_true, if_false]
    exact Nat.lt_succ_of_le (selN_sublist _ xs 1).length_le

/-- the future of `t` is done: `wait` returns it among the done futures -/
def Edone (s : IS) (t : Tid) : Prop := t ∈ s.cancelled ∨ t ∈ s.done.map (·.1)

/-! ## the dead-process loop -/
theorem markDead_facts (u : Tid) (s : IS) :
    (applyPrim cfg p (Prim.markDead u) s).rs.running = s.rs.running ∧
    (applyPrim cfg p (Prim.markDead u) s).rs.futs = s.rs.futs ∧
    (applyPrim cfg p (Prim.markDead u) s).rs.queued = s.rs.queued ∧
    (applyPrim cfg p (Prim.markDead u) s).rs.status = s.rs.status ∧
    (∀ t, Edone s t → Edone (applyPrim cfg p (Prim.markDead u) s) t) ∧
    (∀ t ∈ s.zombies, t ∈ (applyPrim cfg p (Prim.markDead u) s).zombies ∨
      Edone (applyPrim cfg p (Prim.markDead u) s) t) ∧
    (s.rs.status = .running → u ∈ s.zombies → Edone (applyPrim cfg p (Prim.markDead u) s) u) := by
  by_cases hrun : s.rs.status = .running
  · rw [applyPrim_running _ _ hrun]
    by_cases hz : u ∈ s.zombies
    · simp only [stepPrim, hz, if_true, Edone]
      have key : u ∈ s.cancelled ∨ u ∈ (if u ∈ s.cancelled then s.done else s.done ++ [(u, Outcome.died)]).map (·.1) := by
        by_cases hc : u ∈ s.cancelled
        · exact Or.inl hc
        · right; simp [hc]
      refine ⟨trivial, trivial, trivial, trivial, ?_, ?_, fun _ _ => key⟩
      · intro t ht
        rcases ht with h | h
        · exact Or.inl h
        · right
          split
          · exact h
          · simp only [List.map_append, List.mem_append]; exact Or.inl h
      · intro t ht
        by_cases he : t = u
        · subst he; exact Or.inr key
        · exact Or.inl ((List.mem_erase_of_ne he).mpr ht)
    · simp only [stepPrim, hz, if_false]
      exact ⟨trivial, trivial, trivial, trivial, fun _ h => h, fun _ h => Or.inl h, fun _ h => h.elim⟩
  · rw [applyPrim_stopped _ _ hrun]
    exact ⟨rfl, rfl, rfl, rfl, fun _ h => h, fun _ h => Or.inl h, fun h => absurd h hrun⟩

theorem dead_list : ∀ (Z : List Tid) (s : IS), s.rs.status = .running →
    (runPrims cfg p (Z.map Prim.markDead) s).rs.running = s.rs.running ∧
    (runPrims cfg p (Z.map Prim.markDead) s).rs.futs = s.rs.futs ∧
    (runPrims cfg p (Z.map Prim.markDead) s).rs.queued = s.rs.queued ∧
    (runPrims cfg p (Z.map Prim.markDead) s).rs.status = s.rs.status ∧
    (∀ t, Edone s t → Edone (runPrims cfg p (Z.map Prim.markDead) s) t) ∧
    (∀ t ∈ Z, t ∈ s.zombies → Edone (runPrims cfg p (Z.map Prim.markDead) s) t) := by
  intro Z
  induction Z with
  | nil => intro s _; exact ⟨rfl, rfl, rfl, rfl, fun _ h => h, fun t ht => by simp at ht⟩
  | cons u Z ih =>
    intro s hrun
    obtain ⟨m1, m2, m3, m4, m5, m6, m7⟩ := markDead_facts (cfg := cfg) (p := p) u s
    obtain ⟨i1, i2, i3, i4, i5, i6⟩ := ih (applyPrim cfg p (Prim.markDead u) s) (by rw [m4]; exact hrun)
    rw [List.map_cons, runPrims_cons]
    refine ⟨i1.trans m1, i2.trans m2, i3.trans m3, i4.trans m4, fun t ht => i5 t (m5 t ht), ?_⟩
    intro t ht hz
    by_cases he : t = u
    · subst he; exact i5 t (m7 hrun hz)
    · have ht' : t ∈ Z := by
        rcases List.mem_cons.mp ht with h | h
        · exact absurd h he
        · exact h
      rcases m6 t hz with h | h
      · exact i6 t ht' h
      · exact i5 t h

/-! ## `for future in done:` -/
theorem runPrims_exec : ∀ (ps : List Prim) (s : IS), (∀ q ∈ ps, q.touchesExec = false) →
    (runPrims cfg p ps s).rs.running = s.rs.running ∧ (runPrims cfg p ps s).rs.futs = s.rs.futs ∧
    (runPrims cfg p ps s).cancelled = s.cancelled ∧ (runPrims cfg p ps s).done = s.done ∧
    (runPrims cfg p ps s).rs.queued = s.rs.queued := by
  intro ps
  induction ps with
  | nil => intro s _; exact ⟨rfl, rfl, rfl, rfl, rfl⟩
  | cons q ps ih =>
    intro s hq
    obtain ⟨h1, _, h3, h4, h5, _, h7, _⟩ := applyPrim_exec (cfg := cfg) (p := p) q s (hq q List.mem_cons_self)
    obtain ⟨i1, i3, i4, i5, i7⟩ := ih (applyPrim cfg p q s) (fun q' hq' => hq q' (List.mem_cons_of_mem _ hq'))
    rw [runPrims_cons]
    exact ⟨i1.trans h1, i3.trans h3, i4.trans h4, i5.trans h5, i7.trans h7⟩

theorem popFuture_facts (t : Tid) (o : Option Outcome) (s : IS) :
    (applyPrim cfg p (Prim.popFuture t o) s).rs.running = s.rs.running ∧
    (applyPrim cfg p (Prim.popFuture t o) s).rs.queued = s.rs.queued ∧
    (∀ x ∈ (applyPrim cfg p (Prim.popFuture t o) s).rs.futs, x ∈ s.rs.futs) ∧
    (∀ x, x ≠ t → Edone s x → Edone (applyPrim cfg p (Prim.popFuture t o) s) x) ∧
    (s.rs.status = .running → t ∉ (applyPrim cfg p (Prim.popFuture t o) s).rs.futs) := by
  by_cases hrun : s.rs.status = .running
  · rw [applyPrim_running _ _ hrun]
    by_cases htf : t ∈ s.rs.futs
    · simp only [stepPrim, htf, if_true, Edone]
      refine ⟨trivial, trivial, fun x hx => (List.mem_filter.mp hx).1, ?_, fun _ => by simp⟩
      intro x hxt hx
      rcases hx with h | h
      · exact Or.inl h
      · right
        obtain ⟨y, hy, rfl⟩ := List.mem_map.mp h
        exact List.mem_map.mpr ⟨y, List.mem_filter.mpr ⟨hy, by simpa using hxt⟩, rfl⟩
    · simp only [stepPrim, htf, if_false, keyErr]
      exact ⟨trivial, trivial, fun _ h => h, fun _ _ h => h, fun _ h => h⟩
  · rw [applyPrim_stopped _ _ hrun]
    exact ⟨rfl, rfl, fun _ h => h, fun _ _ h => h, fun h => absurd h hrun⟩

theorem doneOne_pops (req : List Tid) (s : IS) (t : Tid) :
    (runPrims cfg p (doneOnePrims cfg req s t) s).rs.running = s.rs.running ∧
    (runPrims cfg p (doneOnePrims cfg req s t) s).rs.queued = s.rs.queued ∧
    (∀ x ∈ (runPrims cfg p (doneOnePrims cfg req s t) s).rs.futs, x ∈ s.rs.futs) ∧
    (∀ x, x ≠ t → Edone s x → Edone (runPrims cfg p (doneOnePrims cfg req s t) s) x) ∧
    (s.rs.status = .running → Edone s t → t ∉ (runPrims cfg p (doneOnePrims cfg req s t) s).rs.futs) := by
  simp only [doneOnePrims]
  split
  · obtain ⟨a, b, c, d, e⟩ := popFuture_facts (cfg := cfg) (p := p) t none s
    exact ⟨a, b, c, d, fun hr _ => e hr⟩
  · next hnc =>
    split
    · next t' o hf =>
      obtain ⟨a, b, c, d, e⟩ := popFuture_facts (cfg := cfg) (p := p) t (some o) s
      obtain ⟨y1, y2, y3, y4, y5⟩ := runPrims_exec (cfg := cfg) (p := p) (yieldPrims cfg req s.rs.ts t o)
        (applyPrim cfg p (Prim.popFuture t (some o)) s) (yieldPrims_noexec req _ t o)
      rw [runPrims_cons]
      refine ⟨y1.trans a, y5.trans b, fun x hx => c x (by rw [y2] at hx; exact hx), ?_, ?_⟩
      · intro x hxt hx
        have := d x hxt hx
        simp only [Edone, y3, y4]; exact this
      · intro hr _; rw [y2]; exact e hr
    · next hf =>
      refine ⟨rfl, rfl, fun _ h => h, fun _ _ h => h, ?_⟩
      intro _ he
      exfalso
      rcases he with h | h
      · exact hnc h
      · obtain ⟨y, hy, hyt⟩ := List.mem_map.mp h
        have := List.find?_eq_none.mp hf y hy
        simp [hyt] at this

theorem done_pops (req : List Tid) : ∀ (cands : List Tid) (s : IS),
    (runPrims cfg p (donePrims cfg p req cands s) s).rs.running = s.rs.running ∧
    (runPrims cfg p (donePrims cfg p req cands s) s).rs.queued = s.rs.queued ∧
    (∀ x ∈ (runPrims cfg p (donePrims cfg p req cands s) s).rs.futs, x ∈ s.rs.futs) ∧
    ((runPrims cfg p (donePrims cfg p req cands s) s).rs.status = .running →
      ∀ x ∈ (runPrims cfg p (donePrims cfg p req cands s) s).rs.futs, x ∈ cands → ¬ Edone s x) := by
  intro cands
  induction cands with
  | nil => intro s; exact ⟨rfl, rfl, fun _ h => h, fun _ x _ hx => by simp at hx⟩
  | cons t rest ih =>
    intro s
    by_cases hrun : s.rs.status = .running
    · rw [donePrims_cons_running req t rest s hrun, runPrims_append]
      obtain ⟨d1, d2, d3, d4, d5⟩ := doneOne_pops (cfg := cfg) (p := p) req s t
      obtain ⟨i1, i2, i3, i4⟩ := ih (runPrims cfg p (doneOnePrims cfg req s t) s)
      refine ⟨i1.trans d1, i2.trans d2, fun x hx => d3 x (i3 x hx), ?_⟩
      intro hr x hx hxc he
      by_cases hxt : x = t
      · subst hxt; exact d5 hrun he (i3 x hx)
      · have hxr : x ∈ rest := by
          rcases List.mem_cons.mp hxc with h | h
          · exact absurd h hxt
          · exact h
        exact i4 hr x hx hxr (d4 x hxt he)
    · rw [donePrims_stopped req _ s hrun]
      exact ⟨rfl, rfl, fun _ h => h, fun hr => absurd hr hrun⟩

/-! ## one drain round -/
theorem drain_round (req : List Tid) (c : Choice) (s : IS) (hb : cfg.backend ≠ .serial)
    (hrun : s.rs.status = .running) (hq : s.rs.queued = []) (hcov : CovX cfg [] s) :
    (runPrims cfg p (waitPrims cfg p req c s) s).rs.queued = [] ∧
    (runPrims cfg p (waitPrims cfg p req c s) s).rs.running = stayOf c s.rs.running ∧
    ((runPrims cfg p (waitPrims cfg p req c s) s).rs.status = .running →
      ∀ t ∈ (runPrims cfg p (waitPrims cfg p req c s) s).rs.futs,
        t ∈ (runPrims cfg p (waitPrims cfg p req c s) s).rs.running.map Job.tid) := by
  simp only [waitPrims, hb, if_false]
  -- the state after the result queue was consumed
  have e0 : runPrims cfg p [Prim.consumeResults c] s = applyPrim cfg p (Prim.consumeResults c) s := rfl
  obtain ⟨c1, c2⟩ := covered_mono (cfg := cfg) (p := p) (Prim.consumeResults c) s rfl hrun
  have r0 : (applyPrim cfg p (Prim.consumeResults c) s).rs.running = stayOf c s.rs.running := by
    rw [applyPrim_running _ _ hrun]; rfl
  have q0 : (applyPrim cfg p (Prim.consumeResults c) s).rs.queued = [] := by
    rw [applyPrim_queued _ _ rfl]; exact hq
  have st0 : (applyPrim cfg p (Prim.consumeResults c) s).rs.status = .running := by
    rw [applyPrim_status _ _ rfl]; exact hrun
  obtain ⟨s0, hs0⟩ : ∃ s0, s0 = applyPrim cfg p (Prim.consumeResults c) s := ⟨_, rfl⟩
  rw [← hs0] at c1 c2 r0 q0 st0
  rw [e0, ← hs0]
  -- the dead-process loop
  obtain ⟨m1, m2, m3, m4, m5, m6⟩ := dead_list (cfg := cfg) (p := p) s0.zombies s0 st0
  have hsp : startProcessesPrims cfg (runPrims cfg p (deadPrims s0) s0) = [] := by
    simp only [startProcessesPrims, deadPrims, m3, q0, startPrims_nil_of]
  rw [hsp, List.append_nil, runPrims_append, runPrims_cons, ← hs0, runPrims_nil]
  simp only [deadPrims] at *
  obtain ⟨s1, hs1⟩ : ∃ s1, s1 = runPrims cfg p (s0.zombies.map Prim.markDead) s0 := ⟨_, rfl⟩
  rw [← hs1] at m1 m2 m3 m4 m5 m6 ⊢
  obtain ⟨d1, d2, d3, d4⟩ := done_pops (cfg := cfg) (p := p) req s1.rs.futs s1
  refine ⟨by rw [d2, m3, q0], by rw [d1, m1, r0], ?_⟩
  intro hr t ht
  have ht1 : t ∈ s1.rs.futs := d3 t ht
  have hne : ¬ Edone s1 t := d4 hr t ht ht1
  have ht0 : t ∈ s.rs.futs := by rw [m2, c1] at ht1; exact ht1
  rw [d1, m1]
  rcases c2 t (hcov hb hrun t (Or.inl ht0)) with h | h | h | h | h
  · exact absurd (m5 t (Or.inl h)) hne
  · exact absurd (m5 t (Or.inr h)) hne
  · exact absurd (m6 t h h) hne
  · exact h
  · rw [q0] at h; simp at h

/-! ## the drain loop -/
theorem drainPrims_nofuts (req : List Tid) (ds : List Choice) (s : IS) (h : s.rs.futs = []) :
    drainPrims cfg p req ds s = [] := by
  cases ds with
  | nil => rfl
  | cons c cs => unfold drainPrims; split <;> simp [h]

theorem drainPrims_cons_running (req : List Tid) (c : Choice) (cs : List Choice) (s : IS)
    (hrun : s.rs.status = .running) (hf : s.rs.futs ≠ []) :
    drainPrims cfg p req (c :: cs) s =
      waitPrims cfg p req c s ++ drainPrims cfg p req cs (runPrims cfg p (waitPrims cfg p req c s) s) := by
  conv => lhs; unfold drainPrims
  simp [hrun, hf]

theorem drain_fair (req : List Tid) (hb : cfg.backend ≠ .serial) : ∀ (ds : List Choice) (s : IS),
    FairDrain ds → s.rs.queued = [] → CovX cfg [] s → s.rs.running.length + 1 ≤ ds.length →
    (runPrims cfg p (drainPrims cfg p req ds s) s).rs.status = .running →
    (runPrims cfg p (drainPrims cfg p req ds s) s).rs.futs = [] := by
  intro ds
  induction ds with
  | nil => intro s _ _ _ hl _; simp at hl
  | cons c cs ih =>
    intro s hfair hq hcov hl hfin
    by_cases hrun : s.rs.status = .running
    · by_cases hf : s.rs.futs = []
      · rw [drainPrims_nofuts req _ s hf]; exact hf
      · rw [drainPrims_cons_running req c cs s hrun hf, runPrims_append] at hfin ⊢
        have hc : c.finish 0 = true := hfair c List.mem_cons_self
        obtain ⟨r1, r2, r3⟩ := drain_round (cfg := cfg) (p := p) req c s hb hrun hq hcov
        have hcov1 := (always_Cov_wait (cfg := cfg) (p := p) req c s hcov).last
        by_cases hrun1 : (runPrims cfg p (waitPrims cfg p req c s) s).rs.status = .running
        · by_cases hr : s.rs.running = []
          · have hf1 : (runPrims cfg p (waitPrims cfg p req c s) s).rs.futs = [] := by
              cases hfe : (runPrims cfg p (waitPrims cfg p req c s) s).rs.futs with
              | nil => rfl
              | cons t l =>
                have := r3 hrun1 t (by rw [hfe]; exact List.mem_cons_self)
                rw [r2, hr] at this
                simp [stayOf, enumFrom] at this
            rw [drainPrims_nofuts req _ _ hf1]; exact hf1
          · have hlt := stayOf_length_lt c hc s.rs.running hr
            apply ih _ (fun c' hc' => hfair c' (List.mem_cons_of_mem _ hc')) r1 hcov1 _ hfin
            rw [r2]
            simp only [List.length_cons] at hl
            omega
        · rw [drainPrims_stopped req _ _ hrun1] at hfin
          exact absurd hfin hrun1
    · rw [drainPrims_stopped req _ s hrun] at hfin
      exact absurd hfin hrun

/-! ## the first handler -/
theorem cancelList_running : ∀ (l : List Job) (s : IS),
    (runPrims cfg p (l.map (fun j => Prim.cancelOne j.tid)) s).rs.running = s.rs.running := by
  intro l
  induction l with
  | nil => intro s; rfl
  | cons j l ih =>
    intro s
    rw [List.map_cons, runPrims_cons, ih]
    unfold applyPrim; split <;> rfl

/-- the first handler under a fair drain schedule with more rounds than workers in the running map:
    when it leaves without an exception of its own, `future_to_task` is empty -/
theorem handler_fair (req : List Tid) (ds : List Choice) (s : IS) (hfair : FairDrain ds)
    (hcov : CovX cfg [] s) (hl : s.rs.running.length + 1 ≤ ds.length)
    (hfin : (runPrims cfg p (handlerPrims cfg p req ds s) s).rs.status = .running) :
    (runPrims cfg p (handlerPrims cfg p req ds s) s).rs.futs = [] := by
  by_cases hrun : s.rs.status = .running
  · simp only [handlerPrims, runPrims_append] at hfin ⊢
    by_cases hb : cfg.backend = .serial
    · have hf : (runPrims cfg p (cancelPrims cfg s) s).rs.futs = [] := by
        simp [cancelPrims, hb, applyPrim_running _ _ hrun, stepPrim]
      rw [drainPrims_nofuts req _ _ hf]; exact hf
    · have hq := cancelPrims_empties (cfg := cfg) (p := p) s hrun
      have hc := (always_Cov_cancel (cfg := cfg) (p := p) s hcov).last
      have hr : (runPrims cfg p (cancelPrims cfg s) s).rs.running = s.rs.running := by
        simp only [cancelPrims, hb, if_false]; exact cancelList_running _ s
      exact drain_fair req hb ds _ hfair hq hc (by rw [hr]; exact hl) hfin
  · rw [runPrims_stopped _ _ hrun] at hfin
    exact absurd hfin hrun

end Lt
